(* top-N selection by a stable descending sort, and why a per-list pre-cut to the n >= N best loses nothing *)
From Coq Require Import ZArith List Bool Lia Sorting.Permutation Sorting.Sorted.
Import ListNotations.
Require Import Py PyProofs.
Open Scope Z_scope.

Lemma SS_impl {A} (R R' : A -> A -> Prop) l : (forall a b, R a b -> R' a b) -> StronglySorted R l -> StronglySorted R' l.
Proof. intros H. induction 1 as [|a l Hs IH Hf]; constructor; [exact IH|]. rewrite Forall_forall in *. intros x Hx. apply H, Hf, Hx. Qed.
Lemma SS_app_inv {A} (R : A -> A -> Prop) a b : StronglySorted R (a ++ b) ->
  StronglySorted R a /\ StronglySorted R b /\ forall x y, In x a -> In y b -> R x y.
Proof. induction a as [|h a IH]; cbn [app]; intros H.
  - repeat split; [constructor | exact H | intros x y []].
  - inversion H as [|? ? Hs Hf]; subst. destruct (IH Hs) as (I1 & I2 & I3). rewrite Forall_forall in Hf. repeat split.
    + constructor; [exact I1|]. rewrite Forall_forall. intros x Hx. apply Hf, in_or_app. left; exact Hx.
    + exact I2.
    + intros x y [<-|Hx] Hy; [apply Hf, in_or_app; right; exact Hy | apply I3; assumption].
Qed.

(* ---------- descending lists of integers ---------- *)
Definition dz (l : list Z) : Prop := StronglySorted (fun a b => b <= a) l.
Definition sd (l : list Z) : list Z := sort_by Z.opp l.
Definition cnt (x : Z) (l : list Z) : nat := length (filter (fun y => x <=? y) l).

Lemma sd_sorted l : dz (sd l).
Proof. unfold dz, sd. apply (SS_impl (fun a b => - a <= - b)); [intros; lia|]. apply (sort_by_sorted Z.opp). Qed.
Lemma sd_perm l : Permutation (sd l) l.
Proof. apply sort_by_perm. Qed.

Lemma dz_unique l1 : forall l2, dz l1 -> dz l2 -> Permutation l1 l2 -> l1 = l2.
Proof. unfold dz. induction l1 as [|a t IH]; intros l2 H1 H2 P.
  - apply Permutation_nil in P. subst. reflexivity.
  - destruct l2 as [|b u]; [symmetry in P; apply Permutation_nil in P; discriminate|].
    inversion H1 as [|? ? Ht Ha]; subst. inversion H2 as [|? ? Hu Hb]; subst. rewrite Forall_forall in Ha, Hb.
    assert (a <= b). { assert (I : In a (b :: u)) by (apply (Permutation_in _ P); left; reflexivity). destruct I as [->|I]; [lia | apply Hb, I]. }
    assert (b <= a). { assert (I : In b (a :: t)) by (apply (Permutation_in _ (Permutation_sym P)); left; reflexivity). destruct I as [->|I]; [lia | apply Ha, I]. }
    assert (a = b) by lia. subst b. f_equal. apply IH; [exact Ht | exact Hu | apply (Permutation_cons_inv P)].
Qed.
Lemma sd_perm_eq a b : Permutation a b -> sd a = sd b.
Proof. intros P. apply dz_unique; [apply sd_sorted | apply sd_sorted|]. rewrite !sd_perm. exact P. Qed.

Lemma cnt_perm x a b : Permutation a b -> cnt x a = cnt x b.
Proof. unfold cnt. induction 1 as [|y a b P IH|y z a|a b c P1 IH1 P2 IH2]; cbn [filter]; try reflexivity.
  - destruct (x <=? y); cbn [length]; congruence.
  - destruct (x <=? y), (x <=? z); reflexivity.
  - congruence.
Qed.
Lemma cnt_app x a b : cnt x (a ++ b) = (cnt x a + cnt x b)%nat.
Proof. unfold cnt. rewrite filter_app, app_length. reflexivity. Qed.

(* insertion after the elements >= x *)
Fixpoint ins (x : Z) (l : list Z) : list Z :=
  match l with [] => [x] | y :: t => if x <=? y then y :: ins x t else x :: l end.
Lemma ins_perm x l : Permutation (ins x l) (x :: l).
Proof. induction l as [|y t IH]; cbn [ins]; [reflexivity|]. destruct (x <=? y); [|reflexivity]. rewrite IH. apply perm_swap. Qed.
Lemma ins_sorted x l : dz l -> dz (ins x l).
Proof. unfold dz. induction l as [|y t IH]; intros H; cbn [ins]; [repeat constructor|].
  inversion H as [|? ? Ht Hy]; subst. destruct (x <=? y) eqn:E.
  - apply Z.leb_le in E. constructor; [apply IH, Ht|]. rewrite Forall_forall in *. intros z Hz.
    apply (Permutation_in _ (ins_perm x t)) in Hz. destruct Hz as [<-|Hz]; [exact E | apply Hy, Hz].
  - apply Z.leb_gt in E. constructor; [exact H|]. constructor; [lia|]. rewrite Forall_forall in *. intros z Hz. specialize (Hy z Hz). lia.
Qed.
Lemma sd_cons x l : sd (x :: l) = ins x (sd l).
Proof. apply dz_unique; [apply sd_sorted | apply ins_sorted, sd_sorted|]. rewrite sd_perm, ins_perm, sd_perm. reflexivity. Qed.

Lemma ins_firstn x S : forall k, dz S -> (k <= cnt x S)%nat -> firstn k (ins x S) = firstn k S.
Proof. unfold dz, cnt. induction S as [|y t IH]; intros k H Hk.
  - cbn in Hk. assert (k = 0)%nat by lia. subst. reflexivity.
  - destruct k as [|k]; [reflexivity|]. inversion H as [|? ? Ht Hy]; subst. cbn [ins filter] in *. destruct (x <=? y) eqn:E.
    + cbn [firstn length] in *. f_equal. apply IH; [exact Ht | lia].
    + exfalso. apply Z.leb_gt in E. rewrite filter_none in Hk; [cbn in Hk; lia|].
      intros z Hz. rewrite Forall_forall in Hy. specialize (Hy z Hz). apply Z.leb_gt. lia.
Qed.

(* removing elements that have at least k elements >= them among the kept ones does not change the k largest *)
Lemma drop_small k (K : list Z) R : (forall x, In x R -> (k <= cnt x K)%nat) ->
  forall L, Permutation L (K ++ R) -> firstn k (sd L) = firstn k (sd K).
Proof. induction R as [|x R IH]; intros HR L P.
  - rewrite app_nil_r in P. rewrite (sd_perm_eq _ _ P). reflexivity.
  - assert (P' : Permutation L (x :: (K ++ R))) by (rewrite P; symmetry; apply Permutation_middle).
    rewrite (sd_perm_eq _ _ P'), sd_cons, ins_firstn.
    + apply IH; [intros y Hy; apply HR; right; exact Hy | reflexivity].
    + apply sd_sorted.
    + rewrite (cnt_perm x _ _ (sd_perm _)), cnt_app. specialize (HR x (or_introl eq_refl)). lia.
Qed.

Section Top.
Context {A : Type}.
Variable score : A -> Z.
Definition nkey (a : A) : Z := - score a.
Definition top (count : nat) (l : list A) : list A := firstn count (sort_by nkey l).
Definition desc (l : list A) : Prop := StronglySorted (fun a b => score b <= score a) l.
Definition has (c : Z) (a : A) : bool := score a =? c.

Lemma sort_desc l : desc (sort_by nkey l).
Proof. apply (SS_impl (fun a b => nkey a <= nkey b)); [unfold nkey; intros; lia|]. apply (sort_by_sorted nkey). Qed.

(* everything the selection promises, with the left-out part made explicit *)
Theorem top_spec count l :
  let T := top count l in let rest := skipn count (sort_by nkey l) in
  Permutation l (T ++ rest) /\ length T = Nat.min count (length l) /\ desc (T ++ rest) /\
  forall c, filter (has c) T ++ filter (has c) rest = filter (has c) l.
Proof. cbn zeta. unfold top. rewrite firstn_skipn. repeat split.
  - symmetry. apply sort_by_perm.
  - rewrite firstn_length, (Permutation_length (sort_by_perm nkey l)). reflexivity.
  - apply sort_desc.
  - intros c. rewrite <- filter_app, firstn_skipn.
    assert (E : forall a, has c a = (nkey a =? - c)); [|rewrite !(filter_ext _ _ E), sort_by_filter; reflexivity].
    intros a. unfold has, nkey. destruct (score a =? c) eqn:E; symmetry; [apply Z.eqb_eq in E; apply Z.eqb_eq; lia | apply Z.eqb_neq in E; apply Z.eqb_neq; lia].
Qed.
Corollary top_desc count l : desc (top count l).
Proof. destruct (top_spec count l) as (_ & _ & H & _). apply SS_app_inv in H. apply H. Qed.
Corollary top_above_rest count l x y : In x (skipn count (sort_by nkey l)) -> In y (top count l) -> score x <= score y.
Proof. destruct (top_spec count l) as (_ & _ & H & _). apply SS_app_inv in H. destruct H as (_ & _ & H). intros Hx Hy. apply (H y x Hy Hx). Qed.

(* scores of the sorted list = sorted scores *)
Lemma map_insert x l : map score (insert_by nkey x l) = insert_by Z.opp (score x) (map score l).
Proof. induction l as [|y t IH]; [reflexivity|]. cbn [insert_by map]. unfold nkey. destruct (- score x <=? - score y); cbn [map]; [reflexivity|]. fold nkey. rewrite IH. reflexivity. Qed.
Lemma map_sort l : map score (sort_by nkey l) = sd (map score l).
Proof. unfold sd, sort_by. induction l as [|x t IH]; [reflexivity|]. cbn [fold_right map]. rewrite map_insert, IH. reflexivity. Qed.
Lemma top_scores count l : map score (top count l) = firstn count (sd (map score l)).
Proof. unfold top. rewrite <- firstn_map, map_sort. reflexivity. Qed.

(* l' is what a cut to the n best of l may return *)
Definition cut_rel (n : nat) (l l' : list A) : Prop :=
  exists rest, Permutation l (l' ++ rest) /\ length l' = Nat.min n (length l) /\ forall x y, In x rest -> In y l' -> score x <= score y.

Lemma perm_4 (a b c d : list A) : Permutation ((a ++ b) ++ (c ++ d)) ((a ++ c) ++ (b ++ d)).
Proof. rewrite <- !app_assoc. apply Permutation_app_head. rewrite !app_assoc. apply Permutation_app_tail, Permutation_app_comm. Qed.

Lemma cnt_all x l : (forall y, In y l -> x <= score y) -> cnt x (map score l) = length l.
Proof. intros H. unfold cnt. rewrite filter_all, map_length; [reflexivity|]. intros z Hz. apply in_map_iff in Hz. destruct Hz as (y & <- & Hy). apply Z.leb_le, H, Hy. Qed.

Lemma cut_split count n ls ls' : (count <= n)%nat -> Forall2 (cut_rel n) ls ls' ->
  exists R, Permutation (concat ls) (concat ls' ++ R) /\ forall x, In x R -> (count <= cnt (score x) (map score (concat ls')))%nat.
Proof. intros Hn. induction 1 as [|l l' ls ls' (rest & P & Hlen & Hle) _ (R & PR & HR)].
  - exists []. split; [reflexivity | intros x []].
  - exists (rest ++ R). cbn [concat]. split.
    + rewrite P, PR. apply perm_4.
    + intros x Hx. rewrite map_app, cnt_app. apply in_app_or in Hx. destruct Hx as [Hx|Hx].
      * rewrite cnt_all by (intros y Hy; apply Hle; assumption).
        pose proof (Permutation_length P) as PL. rewrite app_length in PL.
        assert (1 <= length rest)%nat by (destruct rest; [destruct Hx | cbn; lia]). lia.
      * specialize (HR x Hx). lia.
Qed.

Theorem cut_harmless count n ls ls' : (count <= n)%nat -> Forall2 (cut_rel n) ls ls' ->
  map score (top count (concat ls')) = map score (top count (concat ls)).
Proof. intros Hn H. destruct (cut_split count n ls ls' Hn H) as (R & P & HR). rewrite !top_scores. symmetry.
  apply (drop_small count (map score (concat ls')) (map score R)).
  - intros x Hx. apply in_map_iff in Hx. destruct Hx as (y & <- & Hy). apply HR, Hy.
  - rewrite <- map_app. apply Permutation_map, P.
Qed.
End Top.

(* C07, part 3: the multi-pass glue on rows (getUnalignedFragments, AlignmentResultRow.resolve, AlignmentResults.resolve), HitEnum, and
   the concrete witnesses of the findings F8 and F9: what the code did before the repairs (regression), what it does now. *)
From Coq Require Import ZArith QArith List Bool Lia String.
Import ListNotations.
Require Import Py PyProofs Pairing Core Multi Cigar CigarProofs3 Xmap XmapProofs2 ChainCore TotalProofs1 TotalProofs2.
From Coq Require Import Sorting.Sorted.
Open Scope Z_scope.

(* ------------------------------------------------------------------------------------------------ getUnalignedFragments *)
Lemma index_of_in x l : forall i, In x l -> exists k, index_of x l i = Ok k.
Proof. induction l as [|y t IH]; intros i H; [destruct H|]. cbn. destruct (y =? x) eqn:E; [eexists; reflexivity|].
  destruct H as [->|H]; [rewrite Z.eqb_refl in E; discriminate | apply IH; exact H]. Qed.
Lemma index_of_err x l : forall i, index_of x l i = Err <-> ~ In x l.
Proof. induction l as [|y t IH]; intros i; [split; [intros _ [] | reflexivity]|]. cbn. destruct (y =? x) eqn:E.
  - apply Z.eqb_eq in E. split; [discriminate | intros H; exfalso; apply H; left; exact E].
  - apply Z.eqb_neq in E. rewrite IH. split; [intros H [H'|H']; [contradiction | exact (H H')] | intros H H'; apply H; right; exact H']. Qed.

(* list.index(queryStartPosition / queryEndPosition) is the only operation that can raise; it is used on the '+' strand only *)
Theorem unaligned_fragments_total w qpos : (rrev w = false -> In (qs w) qpos /\ In (qe w) qpos) ->
  exists r, unaligned_fragments w qpos = Ok r.
Proof.
  intros H. unfold unaligned_fragments. destruct (4 * qlen w <? 5 * Z.abs (qs w - qe w)); [eexists; reflexivity|].
  destruct (rrev w) eqn:Er; cbn [negb].
  - destruct ((qs w =? 0) || (qe w =? 0)); [eexists; reflexivity|]. cbn [bind fst snd].
    destruct (_ && _); [eexists; reflexivity|]. destruct (7 <=? _); [eexists; reflexivity|]. destruct (7 <=? _); eexists; reflexivity.
  - destruct (H eq_refl) as (H1 & H2).
    destruct (index_of_in _ _ 0 H1) as (i1 & E1). destruct (index_of_in _ _ 0 H2) as (i2 & E2).
    destruct ((qs w =? 0) || (qe w =? 0)).
    + rewrite E2. cbn [bind]. destruct (qe w =? 0); eexists; reflexivity.
    + rewrite E1, E2. cbn [bind fst snd].
      destruct (_ && _); [eexists; reflexivity|]. destruct (7 <=? _); [eexists; reflexivity|]. destruct (7 <=? _); eexists; reflexivity.
Qed.

(* ------------------------------------------------------------------------------------------------ AlignmentResultRow.resolve *)
Definition join_rows_g (sl : segment -> pv -> pv -> res segment) (a b : row) : res row :=
  do pa <- first_pair_rpos a; do pb <- first_pair_rpos b; do sa <- seg0 a; do sb <- seg0 b;
  do r <- (if pa <? pb then resolve_pair_g sl sa sb else resolve_pair_g sl sb sa);
  Ok (row_create [fst r; snd r] (qid a) (rid a) (qlen a) (rlen a) (rrev a)).
Lemma join_rows_g_slice a b : join_rows_g slice a b = join_rows a b.
Proof. reflexivity. Qed.

Lemma row_pairs_seg0 w : row_pairs (rsegs w) <> [] -> exists s, seg0 w = Ok s.
Proof. unfold seg0. destruct (rsegs w); [intros H; exfalso; apply H; reflexivity | eexists; reflexivity]. Qed.

(* with a slice that never raises, the join raises only if a part has no pair at all (rows without pairs are never kept) or the
   first segment of a part is non-empty without aligned pair *)
Theorem join_rows_g_total sl a b : (forall s st en, exists r, sl s st en = Ok r) ->
  row_pairs (rsegs a) <> [] -> row_pairs (rsegs b) <> [] ->
  (forall s, seg0 a = Ok s -> seg_defined s) -> (forall s, seg0 b = Ok s -> seg_defined s) ->
  exists r, join_rows_g sl a b = Ok r.
Proof.
  intros Hsl Ha Hb Hda Hdb. destruct (row_pairs_seg0 a Ha) as (sa & Esa). destruct (row_pairs_seg0 b Hb) as (sb & Esb).
  pose proof (Hda sa Esa) as Dsa. pose proof (Hdb sb Esb) as Dsb.
  unfold join_rows_g, first_pair_rpos. rewrite Esa, Esb.
  destruct (row_pairs (rsegs a)) as [|pa ta]; [exfalso; apply Ha; reflexivity|].
  destruct (row_pairs (rsegs b)) as [|pb tb]; [exfalso; apply Hb; reflexivity|]. cbn [bind].
  destruct (pair_rpos pa <? pair_rpos pb).
  - destruct (resolve_pair_g_total sl sa sb Dsa Dsb) as (r & ->); [intros; split; apply Hsl|]. eexists; reflexivity.
  - destruct (resolve_pair_g_total sl sb sa Dsb Dsa) as (r & ->); [intros; split; apply Hsl|]. eexists; reflexivity.
Qed.

(* AlignmentResultRow.resolve itself (slice never raises after repair F8) *)
Theorem join_rows_total a b : row_pairs (rsegs a) <> [] -> row_pairs (rsegs b) <> [] ->
  (forall s, seg0 a = Ok s -> seg_defined s) -> (forall s, seg0 b = Ok s -> seg_defined s) ->
  exists r, join_rows a b = Ok r.
Proof. rewrite <- join_rows_g_slice. apply join_rows_g_total. apply slice_total. Qed.

(* ------------------------------------------------------------------------------------------------ AlignmentResults.resolve, generic *)
(* generic in the join function and in the test added by repair F9 (`if resolved and resolved.alignedPairs`):
   f9 = true is the code as it is, f9 = false the code before the repair (`if resolved`: every joined row replaced its parts) *)
Fixpoint resolve_groups_g (jr : row -> row -> res row) (f9 : bool) (maxdiff : Z) (groups : list (list row)) : res (list row * list row) :=
  match groups with
  | [] => Ok ([], [])
  | g :: t =>
    do r <- resolve_groups_g jr f9 maxdiff t;
    match g with
    | [] => Ok r
    | [x] => Ok (fst r, x :: snd r)
    | x :: y :: _ => if check_overlap x y maxdiff
                     then do j <- jr x y;
                          if negb f9 || joined_ok j then Ok (j :: fst r, snd r) else Ok (fst r, g ++ snd r)
                     else Ok (fst r, g ++ snd r)
    end
  end.
Definition results_resolve_g (jr : row -> row -> res row) (f9 : bool) (rows : list row) (maxdiff : Z) : res (list row * list row) :=
  resolve_groups_g jr f9 maxdiff (flat_map (fun byref => groupby qid (sort_by qid byref)) (groupby rid (sort_by rid rows))).
(* f8 / f9 = "repair F8 / F9 applied": (true, true) is the model, (false, false) the code before both repairs *)
Definition results_resolve_gen (f8 f9 : bool) : list row -> Z -> res (list row * list row) := results_resolve_g (join_rows_g (slice_gen f8)) f9.

Lemma resolve_groups_g_model maxdiff groups : resolve_groups_g join_rows true maxdiff groups = resolve_groups maxdiff groups.
Proof. induction groups as [|g t IH]; [reflexivity|]. cbn [resolve_groups_g resolve_groups]. rewrite IH. reflexivity. Qed.
Lemma resolve_pair_g_ext sl1 sl2 : (forall s st en, sl1 s st en = sl2 s st en) -> forall a b, resolve_pair_g sl1 a b = resolve_pair_g sl2 a b.
Proof. intros H a b. unfold resolve_pair_g. destruct (seg_empty a); [reflexivity|]. destruct (end_overlaps a b) as [ov|]; [|reflexivity]. cbn [bind].
  destruct (negb ov); [reflexivity|]. destruct (start_position b) as [cs|]; [|reflexivity]. destruct (end_position a) as [ce|]; [|reflexivity].
  cbn [bind]. rewrite !H. reflexivity. Qed.
Lemma join_rows_g_ext sl1 sl2 a b : (forall s st en, sl1 s st en = sl2 s st en) -> join_rows_g sl1 a b = join_rows_g sl2 a b.
Proof. intros H. unfold join_rows_g.
  destruct (first_pair_rpos a) as [pa|]; [|reflexivity]. destruct (first_pair_rpos b) as [pb|]; [|reflexivity].
  destruct (seg0 a) as [sa|]; [|reflexivity]. destruct (seg0 b) as [sb|]; [|reflexivity]. cbn [bind].
  rewrite !(resolve_pair_g_ext sl1 sl2 H). reflexivity. Qed.
Lemma resolve_groups_g_ext jr1 jr2 f9 maxdiff groups : (forall a b, jr1 a b = jr2 a b) ->
  resolve_groups_g jr1 f9 maxdiff groups = resolve_groups_g jr2 f9 maxdiff groups.
Proof. intros H. induction groups as [|g t IH]; [reflexivity|]. cbn [resolve_groups_g]. rewrite IH.
  destruct (resolve_groups_g jr2 f9 maxdiff t) as [r|]; [|reflexivity]. cbn [bind]. destruct g as [|x [|y u]]; try reflexivity. rewrite H. reflexivity. Qed.
Theorem results_resolve_gen_model rows maxdiff : results_resolve_gen true true rows maxdiff = results_resolve rows maxdiff.
Proof. unfold results_resolve_gen, results_resolve_g, results_resolve. rewrite <- resolve_groups_g_model. apply resolve_groups_g_ext.
  intros a b. rewrite <- join_rows_g_slice. apply join_rows_g_ext. apply slice_gen_true. Qed.

(* ------------------------------------------------------------------------------------------------ HitEnum *)
(* cigarString of a valid matching (C01) never raises; the empty row gives the empty string *)
Theorem cigar_total dir ps : dir = 1 \/ dir = -1 -> valid dir ps -> exists s, cigar_string ps = Ok s.
Proof. intros Hd Hv. destruct ps as [|[r0 q0] rest]; [eexists; reflexivity|].
  destruct (cigar_string_faithful dir ((r0, q0) :: rest) r0 q0 rest Hd eq_refl Hv) as (s & _ & E & _). eexists. exact E. Qed.

(* ------------------------------------------------------------------------------------------------ witnesses (tenths of bp, scores x 20) *)
(* F8: perfectMatchScore 10, distancePenaltyMultiplier 1, unmatchedPenalty -2, minScore 10, breakSegmentThreshold 12, maxPairDistance 1;
   reference labels at 10, 14, 18 bp (length 19), query labels at 0, 5, 6, 10 bp (length 11), '+' strand.
   First pass from the seed peaks 11 and 12, second pass (the fragment is the whole query) from the seed peak 7. *)
Definition f8_P := mkP 200 2 (-40) 200 240 10 (inject_Z 20) 0.
Definition f8_ref := mkMap 1 190 [100; 140; 180] 0.
Definition f8_qry := mkMap 7 110 [0; 50; 60; 100] 0.
Definition f8_segs1 : list segment := Eval vm_compute in match aligner_align f8_P 1 f8_ref f8_qry [110; 120] false with Ok s => s | Err => [] end.
Definition f8_segs2 : list segment := Eval vm_compute in match aligner_align f8_P 3 f8_ref f8_qry [70] false with Ok s => s | Err => [] end.
Definition kinds (s : segment) : list Z := map (fun p => match ap p with Pair _ _ _ _ => 0 | URef _ => 1 | UQry _ _ => 2 end) (positions s).
Definition f8_row1 := row_create f8_segs1 7 1 110 190 false.
Definition f8_row2 := row_create f8_segs2 7 1 110 190 false.

(* before repair F8 (slice_gen false): both passes succeed, the join raises *)
Lemma f8_witness_before :
  aligner_align_g (slice_gen false) f8_P 1 f8_ref f8_qry [110; 120] false = Ok f8_segs1 /\ map kinds f8_segs1 = [[0; 1; 2]; [0]] /\
  unaligned_fragments f8_row1 (mpositions f8_qry) = Ok [f8_qry] /\
  aligner_align_g (slice_gen false) f8_P 3 f8_ref f8_qry [70] false = Ok f8_segs2 /\ map kinds f8_segs2 = [[0; 0]] /\
  check_overlap f8_row1 f8_row2 1000000 = true /\
  join_rows_g (slice_gen false) f8_row1 f8_row2 = Err /\
  results_resolve_gen false false [f8_row1; f8_row2] 1000000 = Err /\ results_resolve_gen false true [f8_row1; f8_row2] 1000000 = Err.
Proof. vm_compute. repeat split; reflexivity. Qed.
(* the code as it is: the same passes return the same segments, the join returns a row with the pairs (1,1) (2,3) (3,4), and
   AlignmentResults.resolve reports that row in place of its two parts *)
Lemma f8_witness_now :
  aligner_align f8_P 1 f8_ref f8_qry [110; 120] false = Ok f8_segs1 /\
  aligner_align f8_P 3 f8_ref f8_qry [70] false = Ok f8_segs2 /\
  exists j, join_rows f8_row1 f8_row2 = Ok j /\
    map (fun p => (site (pr (pv_of p)), site (pq (pv_of p)))) (row_pairs (rsegs j)) = [(1, 1); (2, 3); (3, 4)] /\
    results_resolve [f8_row1; f8_row2] 1000000 = Ok ([j], []).
Proof. split; [vm_compute; reflexivity|]. split; [vm_compute; reflexivity|]. eexists. split; [vm_compute; reflexivity|]. split; vm_compute; reflexivity. Qed.

(* F9: perfectMatchScore 10, distancePenaltyMultiplier 1, unmatchedPenalty -3, minScore 8, breakSegmentThreshold 6, maxPairDistance 1,
   sequentialityScore 1; reference labels at 0, 6, 14 bp (length 15), query labels at 0, 2, 9 bp (length 44), '+' strand; first pass from
   the seed peaks 0 and 6, second pass from the seed peaks -2 and -1.  Both rows carry their pairs in the second segment, the first
   segment of each is empty; the join of the two first segments is a row without any pair. *)
Definition f9_P := mkP 200 2 (-60) 160 120 10 (inject_Z 20) 1.
Definition f9_ref := mkMap 1 150 [0; 60; 140] 0.
Definition f9_qry := mkMap 7 440 [0; 20; 90] 0.
Definition f9_segs1 : list segment := Eval vm_compute in match aligner_align f9_P 1 f9_ref f9_qry [0; 60] false with Ok s => s | Err => [] end.
Definition f9_segs2 : list segment := Eval vm_compute in match aligner_align f9_P 3 f9_ref f9_qry [-20; -10] false with Ok s => s | Err => [] end.
Definition f9_row1 := row_create f9_segs1 7 1 440 150 false.
Definition f9_row2 := row_create f9_segs2 7 1 440 150 false.
Definition site_pairs_of (w : row) : list (Z * Z) := map (fun p => (site (pr (pv_of p)), site (pq (pv_of p)))) (row_pairs (rsegs w)).

(* before repair F9 (with or without repair F8): the pair-less joined row replaced its two parts *)
Lemma f9_witness_before :
  aligner_align_g (slice_gen false) f9_P 1 f9_ref f9_qry [0; 60] false = Ok f9_segs1 /\ map seg_empty f9_segs1 = [true; false] /\
  site_pairs_of f9_row1 = [(2, 1); (3, 3)] /\
  unaligned_fragments f9_row1 (mpositions f9_qry) = Ok [f9_qry] /\
  aligner_align_g (slice_gen false) f9_P 3 f9_ref f9_qry [-20; -10] false = Ok f9_segs2 /\ map seg_empty f9_segs2 = [true; false] /\
  site_pairs_of f9_row2 = [(1, 2); (2, 3)] /\
  exists j, results_resolve_gen false false [f9_row1; f9_row2] 1000000 = Ok ([j], []) /\
            results_resolve_gen true false [f9_row1; f9_row2] 1000000 = Ok ([j], []) /\ site_pairs_of j = [] /\ conf j = 0.
Proof. vm_compute. repeat split; try reflexivity. eexists. repeat split; reflexivity. Qed.
(* the code as it is: same passes, same rows; the join of the two first segments is still a row without any pair, but
   AlignmentResults.resolve no longer reports it: the two parts stay un-joined *)
Lemma f9_witness_now :
  aligner_align f9_P 1 f9_ref f9_qry [0; 60] false = Ok f9_segs1 /\
  aligner_align f9_P 3 f9_ref f9_qry [-20; -10] false = Ok f9_segs2 /\
  check_overlap f9_row1 f9_row2 1000000 = true /\
  (exists j, join_rows f9_row1 f9_row2 = Ok j /\ site_pairs_of j = [] /\ joined_ok j = false) /\
  results_resolve [f9_row1; f9_row2] 1000000 = Ok ([], [f9_row1; f9_row2]).
Proof. split; [vm_compute; reflexivity|]. split; [vm_compute; reflexivity|]. split; [vm_compute; reflexivity|].
  split; [eexists; split; [vm_compute; reflexivity|]; split; vm_compute; reflexivity|]. vm_compute. reflexivity. Qed.

(* the full-statement witness of F8, over the code before the repair *)
Lemma f8_join_refuted_before : exists P reference query peaks1 peaks2 segs1 segs2 frag,
  StronglySorted Z.le (mpositions reference) /\ StronglySorted Z.le (mpositions query) /\ SU P <= 0 /\ 0 < MS P /\
  aligner_align_g (slice_gen false) P 1 reference query peaks1 false = Ok segs1 /\
  (let w1 := row_create segs1 (mid query) (mid reference) (mlen query) (mlen reference) false in
   unaligned_fragments w1 (mpositions query) = Ok [frag] /\
   aligner_align_g (slice_gen false) P 3 reference frag peaks2 false = Ok segs2 /\
   let w2 := row_create segs2 (mid query) (mid reference) (mlen query) (mlen reference) false in
   row_pairs (rsegs w1) <> [] /\ row_pairs (rsegs w2) <> [] /\ check_overlap w1 w2 1000000 = true /\
   join_rows_g (slice_gen false) w1 w2 = Err /\ results_resolve_gen false false [w1; w2] 1000000 = Err).
Proof.
  exists f8_P, f8_ref, f8_qry, [110; 120], [70], f8_segs1, f8_segs2, f8_qry.
  split; [repeat (apply SSorted_cons || apply SSorted_nil || apply Forall_cons || apply Forall_nil); discriminate|].
  split; [repeat (apply SSorted_cons || apply SSorted_nil || apply Forall_cons || apply Forall_nil); discriminate|].
  split; [discriminate|]. split; [reflexivity|]. split; [vm_compute; reflexivity|]. cbv zeta.
  split; [vm_compute; reflexivity|]. split; [vm_compute; reflexivity|].
  split; [vm_compute; discriminate|]. split; [vm_compute; discriminate|]. split; vm_compute; [reflexivity|]. split; reflexivity.
Qed.

(* ------------------------------------------------------------------------------------------------ reader (from C18) *)
Theorem reader_total refs qrys rows : Forall (row_ok refs qrys) rows ->
  exists als, xmap_read_lines (xmap_write_lines rows) refs qrys = XOk als /\ List.length als = List.length rows.
Proof. intros H. destruct (roundtrip_nth refs qrys rows H) as (als & E & L & _). exists als. split; assumption. Qed.

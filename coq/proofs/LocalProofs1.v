(* C10, part 1: generic facts on keyed lists.
   fam k c l     = the elements of l with key c, in list order ("the family of l" is c |-> fam k c l)
   keysof k l    = the strictly ascending list of the keys present in l
   Main facts: a key-sorted list is determined by its family (sorted_fam_unique); stable sort commutes with filter;
   groupby (sort_by) is "one filter per present key, keys ascending"; all of this is a function of the family only. *)
From Coq Require Import ZArith List Bool Lia Sorting.Permutation Sorting.Sorted.
Import ListNotations.
Require Import Py PyProofs SrcErase.
Require CmapProofs.
Open Scope Z_scope.

Section K.
Context {A : Type}.
Variable k : A -> Z.

Definition fam (c : Z) (l : list A) : list A := filter (fun x => k x =? c) l.
Definition same_fam (l l' : list A) : Prop := forall c, fam c l = fam c l'.
Definition keysof (l : list A) : list Z := map (fun g => gkey k g 0) (groupby k (sort_by k l)).
Definition all_key (c : Z) (l : list A) : Prop := forall x, In x l -> k x = c.

Lemma fam_app c l l' : fam c (l ++ l') = fam c l ++ fam c l'. Proof. apply filter_app. Qed.
Lemma fam_in c l x : In x (fam c l) <-> In x l /\ k x = c.
Proof. unfold fam. rewrite filter_In, Z.eqb_eq. reflexivity. Qed.
Lemma fam_all_key c l : all_key c (fam c l). Proof. intros x H. apply fam_in in H. apply H. Qed.
Lemma fam_fam c d l : fam c (fam d l) = if c =? d then fam c l else [].
Proof. unfold fam. rewrite CmapProofs.filter_filter'. destruct (c =? d) eqn:E.
  - apply Z.eqb_eq in E. subst d. apply filter_ext. intros x. destruct (k x =? c); reflexivity.
  - apply filter_none. intros x _. apply Z.eqb_neq in E. destruct (k x =? d) eqn:E1, (k x =? c) eqn:E2; try reflexivity.
    apply Z.eqb_eq in E1, E2. lia. Qed.
Lemma fam_self c l : all_key c l -> fam c l = l.
Proof. intros H. apply filter_all. intros x Hx. apply Z.eqb_eq, H, Hx. Qed.
Lemma fam_other c d l : all_key d l -> c <> d -> fam c l = [].
Proof. intros H N. apply filter_none. intros x Hx. apply Z.eqb_neq. rewrite (H x Hx). lia. Qed.
Lemma fam_filter c (p : A -> bool) l : fam c (filter p l) = filter p (fam c l).
Proof. unfold fam. rewrite !CmapProofs.filter_filter'. apply filter_ext. intros x. apply andb_comm. Qed.
Lemma same_fam_app a a' b b' : same_fam a a' -> same_fam b b' -> same_fam (a ++ b) (a' ++ b').
Proof. intros H1 H2 c. rewrite !fam_app, H1, H2. reflexivity. Qed.

(* ---------- a key-sorted list is determined by its family ---------- *)
Lemma sorted_fam_unique l1 : forall l2, ksorted k l1 -> ksorted k l2 -> same_fam l1 l2 -> l1 = l2.
Proof.
  unfold ksorted. induction l1 as [|x t1 IH]; intros l2 S1 S2 H.
  - destruct l2 as [|y t2]; [reflexivity|]. specialize (H (k y)). unfold fam in H. cbn in H. rewrite Z.eqb_refl in H. discriminate.
  - destruct l2 as [|y t2]. { specialize (H (k x)). unfold fam in H. cbn in H. rewrite Z.eqb_refl in H. discriminate. }
    inversion S1 as [|? ? S1t S1x]; inversion S2 as [|? ? S2t S2y]; subst. rewrite Forall_forall in S1x, S2y.
    assert (E : x = y).
    { pose proof (H (k x)) as Hx. unfold fam in Hx. cbn [filter] in Hx. rewrite Z.eqb_refl in Hx.
      destruct (k y =? k x) eqn:Eyx; [injection Hx as Hx _; exact Hx|]. exfalso.
      assert (Hx2 : In x t2). { assert (X : In x (filter (fun z => k z =? k x) t2)) by (rewrite <- Hx; left; reflexivity). apply filter_In in X. apply X. }
      pose proof (H (k y)) as Hy. unfold fam in Hy. cbn [filter] in Hy. rewrite Z.eqb_refl in Hy.
      assert (Exy : k x =? k y = false) by (rewrite Z.eqb_sym; exact Eyx). rewrite Exy in Hy.
      assert (Hy1 : In y t1). { assert (X : In y (filter (fun z => k z =? k y) t1)) by (rewrite Hy; left; reflexivity). apply filter_In in X. apply X. }
      specialize (S1x y Hy1). specialize (S2y x Hx2). apply Z.eqb_neq in Eyx. lia. }
    subst y. f_equal. apply IH; [assumption|assumption|]. intros c. specialize (H c). unfold fam in *. cbn [filter] in H.
    destruct (k x =? c); [injection H as H; exact H | exact H].
Qed.

Lemma ksorted_filter (p : A -> bool) l : ksorted k l -> ksorted k (filter p l).
Proof. apply CmapProofs.sorted_filter. Qed.
Lemma fam_sort_by c l : fam c (sort_by k l) = fam c l. Proof. apply sort_by_filter. Qed.

(* stable sort commutes with filter *)
Lemma filter_sort_by (p : A -> bool) l : filter p (sort_by k l) = sort_by k (filter p l).
Proof. apply sorted_fam_unique; [apply ksorted_filter, sort_by_sorted | apply sort_by_sorted|].
  intros c. rewrite fam_filter, !fam_sort_by, fam_filter. reflexivity. Qed.
Lemma sort_by_same_fam l l' : same_fam l l' -> sort_by k l = sort_by k l'.
Proof. intros H. apply sorted_fam_unique; try apply sort_by_sorted. intros c. rewrite !fam_sort_by. apply H. Qed.
Lemma sort_by_sorted_id l : ksorted k l -> sort_by k l = l.
Proof. intros H. apply sorted_fam_unique; [apply sort_by_sorted | exact H|]. intros c. apply fam_sort_by. Qed.
Lemma all_key_sorted c l : all_key c l -> ksorted k l.
Proof. unfold ksorted. induction l as [|x t IH]; intros H; constructor.
  - apply IH. intros y Hy. apply H. right. exact Hy.
  - apply Forall_forall. intros y Hy. rewrite (H x (or_introl eq_refl)), (H y (or_intror Hy)). lia. Qed.

(* ---------- keys ---------- *)
Lemma keysof_sorted l : StronglySorted Z.lt (keysof l). Proof. apply groupby_sort_by_keys. Qed.
Lemma groups_as_fams l : groupby k (sort_by k l) = map (fun i => fam i l) (keysof l).
Proof. unfold keysof. rewrite map_map. rewrite <- (map_id (groupby k (sort_by k l))) at 1.
  apply map_ext_in. intros g Hg. apply (groupby_sort_by_filter k l g Hg). Qed.
Lemma keysof_in l i : In i (keysof l) <-> exists r, In r l /\ k r = i.
Proof. unfold keysof. rewrite in_map_iff. split.
  - intros (g & <- & Hg). destruct (groupby_sort_by_filter k l g Hg) as (Hne & Hf).
    destruct g as [|r g']; [congruence|]. exists r. split; [|reflexivity].
    assert (Hr : In r (r :: g')) by (left; reflexivity). rewrite Hf in Hr. apply filter_In in Hr. apply Hr.
  - intros (r & Hr & <-). destruct (groupby_sort_by_covers k l r Hr) as (g & Hg & Hrg). exists g. split; [|exact Hg].
    destruct (groupby_sort_by_filter k l g Hg) as (Hne & Hf). rewrite Hf in Hrg. apply filter_In in Hrg.
    destruct Hrg as (_ & E). apply Z.eqb_eq in E. symmetry. exact E. Qed.
Lemma keysof_in_fam l i : In i (keysof l) <-> fam i l <> [].
Proof. rewrite keysof_in. split.
  - intros (r & Hr & E) F. assert (X : In r (fam i l)) by (apply fam_in; auto). rewrite F in X. destruct X.
  - intros H. destruct (fam i l) as [|r t] eqn:E; [congruence|]. exists r. apply fam_in. rewrite E. left. reflexivity. Qed.
Lemma keysof_same_fam l l' : same_fam l l' -> keysof l = keysof l'.
Proof. intros H. apply CmapProofs.sorted_lt_unique; try apply keysof_sorted. intros i. rewrite !keysof_in_fam, H. reflexivity. Qed.
Lemma groupby_same_fam l l' : same_fam l l' -> groupby k (sort_by k l) = groupby k (sort_by k l').
Proof. intros H. rewrite !groups_as_fams, (keysof_same_fam _ _ H). apply map_ext. intros i. apply H. Qed.
Lemma keysof_nodup l : NoDup (keysof l).
Proof. pose proof (keysof_sorted l) as H. induction H as [|a t Ht IH Ha]; constructor; [|exact IH].
  intros Hin. rewrite Forall_forall in Ha. specialize (Ha a Hin). lia. Qed.

(* the keys of a filtered list: the old keys whose filtered family is non-empty *)
Definition nonempty {B} (l : list B) : bool := match l with [] => false | _ => true end.
Lemma nonempty_iff {B} (l : list B) : nonempty l = true <-> l <> [].
Proof. destruct l; cbn; split; congruence. Qed.
Lemma keysof_filter (p : A -> bool) l : keysof (filter p l) = filter (fun i => nonempty (fam i (filter p l))) (keysof l).
Proof. apply CmapProofs.sorted_lt_unique; [apply keysof_sorted | apply CmapProofs.sorted_filter, keysof_sorted|].
  intros i. rewrite filter_In, nonempty_iff, !keysof_in_fam. split; [|tauto]. intros H. split; [|exact H].
  intros F. apply H. rewrite fam_filter, F. reflexivity. Qed.
Lemma keysof_all_key c l : all_key c l -> l <> [] -> keysof l = [c].
Proof. intros H N. apply CmapProofs.sorted_lt_unique; [apply keysof_sorted | repeat constructor|].
  intros i. rewrite keysof_in. cbn [In]. split.
  - intros (r & Hr & <-). left. symmetry. apply H, Hr.
  - intros [<-|[]]. destruct l as [|r t]; [congruence|]. exists r. split; [left; reflexivity | apply H; left; reflexivity]. Qed.
Lemma keysof_nil : keysof [] = []. Proof. reflexivity. Qed.

(* ---------- flat_map over keys ---------- *)
Lemma flat_map_skip {B} (F : Z -> list B) (p : Z -> bool) ks :
  (forall i, In i ks -> p i = false -> F i = []) -> flat_map F (filter p ks) = flat_map F ks.
Proof. induction ks as [|i t IH]; intros H; [reflexivity|]. cbn [filter flat_map].
  destruct (p i) eqn:E; cbn [flat_map]; rewrite IH by (intros; apply H; [right|]; assumption); [reflexivity|].
  rewrite (H i (or_introl eq_refl) E). reflexivity. Qed.
(* filtering one key out of a concatenation of single-key pieces *)
Lemma fam_flat_map_keys (F : Z -> list A) c ks : NoDup ks -> (forall i, all_key i (F i)) ->
  fam c (flat_map F ks) = if existsb (Z.eqb c) ks then F c else [].
Proof. intros N H. induction ks as [|i t IH]; [reflexivity|]. inversion N as [|? ? Hi Nt]; subst.
  cbn [flat_map existsb]. rewrite fam_app, (IH Nt). destruct (c =? i) eqn:E.
  - apply Z.eqb_eq in E. subst i. cbn [orb]. rewrite (fam_self c (F c) (H c)).
    destruct (existsb (Z.eqb c) t) eqn:X; [|apply app_nil_r]. exfalso. apply Hi. apply existsb_exists in X.
    destruct X as (y & Hy & Ey). apply Z.eqb_eq in Ey. subst y. exact Hy.
  - cbn [orb]. apply Z.eqb_neq in E. rewrite (fam_other c i (F i) (H i) E). reflexivity. Qed.
End K.

(* a concatenation of per-item pieces, each piece carrying its item's key: the family only sees the item with that key *)
Section P.
Context {A B : Type}.
Variable k : A -> Z.
Variable ik : B -> Z.
Lemma fam_flat_map_items (F : B -> list A) c l : (forall b, In b l -> all_key k (ik b) (F b)) ->
  fam k c (flat_map F l) = flat_map F (filter (fun b => ik b =? c) l).
Proof. induction l as [|b t IH]; intros H; [reflexivity|]. cbn [flat_map filter]. rewrite fam_app, IH by (intros; apply H; right; assumption).
  destruct (ik b =? c) eqn:E.
  - apply Z.eqb_eq in E. cbn [flat_map]. rewrite fam_self; [reflexivity|]. rewrite <- E. apply H. left. reflexivity.
  - apply Z.eqb_neq in E. rewrite (fam_other k c (ik b)); [reflexivity | apply H; left; reflexivity | lia]. Qed.

Lemma nodup_filter_le1 c (l : list B) : NoDup (map ik l) -> (length (filter (fun b => (ik b =? c)%Z) l) <= 1)%nat.
Proof. induction l as [|b t IH]; intros N; [cbn; lia|]. cbn [map] in N. inversion N as [|? ? Hb Nt]; subst. cbn [filter].
  destruct (ik b =? c) eqn:E; [|apply IH, Nt]. apply Z.eqb_eq in E. cbn [length].
  rewrite (filter_none (fun b0 => ik b0 =? c) t); [cbn; lia|]. intros y Hy. apply Z.eqb_neq. intros Ey. apply Hb.
  apply in_map_iff. exists y. split; [congruence | exact Hy]. Qed.
Lemma nodup_filter_single c (l : list B) b : NoDup (map ik l) -> In b l -> ik b = c -> filter (fun b => ik b =? c) l = [b].
Proof. intros N Hb E. pose proof (nodup_filter_le1 c l N) as L.
  assert (X : In b (filter (fun b => ik b =? c) l)) by (apply filter_In; split; [exact Hb | apply Z.eqb_eq, E]).
  destruct (filter (fun b0 => ik b0 =? c) l) as [|y [|z u]]; cbn in L; [destruct X | | lia].
  destruct X as [->|[]]. reflexivity. Qed.
Lemma perm_le1' (l l' : list B) : Permutation l l' -> (length l <= 1)%nat -> l = l'.
Proof. intros P H. destruct l as [|a [|b t]]; cbn in H; [| |lia].
  - apply Permutation_nil in P. congruence.
  - symmetry. apply Permutation_length_1_inv, P. Qed.
Lemma fam_flat_map_perm (F : B -> list A) l l' : Permutation l l' -> NoDup (map ik l) ->
  (forall b, In b l -> all_key k (ik b) (F b)) -> same_fam k (flat_map F l) (flat_map F l').
Proof. intros P N H c. rewrite !fam_flat_map_items; [|intros b Hb; apply H, (Permutation_in _ (Permutation_sym P)), Hb | exact H].
  f_equal. apply perm_le1'; [apply CmapProofs.filter_perm', P | apply nodup_filter_le1, N]. Qed.
End P.

(* ---------- groupby under a map that respects the key ---------- *)
Lemma groupby_map {A B} (f : A -> B) (k : B -> Z) l : groupby k (map f l) = map (map f) (groupby (fun x => k (f x)) l).
Proof. induction l as [|x t IH]; [reflexivity|]. cbn [map groupby]. rewrite IH.
  destruct (groupby (fun x0 => k (f x0)) t) as [|[|y g] gs]; cbn [map]; try reflexivity.
  destruct (k (f x) =? k (f y)); reflexivity. Qed.
Lemma groupby_ext {A} (k k' : A -> Z) l : (forall x, k x = k' x) -> groupby k l = groupby k' l.
Proof. intros H. induction l as [|x t IH]; [reflexivity|]. cbn [groupby]. rewrite IH.
  destruct (groupby k' t) as [|[|y g] gs]; try reflexivity. rewrite !H. reflexivity. Qed.
Lemma flat_map_map {A B C} (f : A -> B) (g : B -> list C) l : flat_map g (map f l) = flat_map (fun x => g (f x)) l.
Proof. induction l as [|x t IH]; [reflexivity|]. cbn. rewrite IH. reflexivity. Qed.
Lemma map_flat_map {A B C} (f : B -> C) (g : A -> list B) l : map f (flat_map g l) = flat_map (fun x => map f (g x)) l.
Proof. induction l as [|x t IH]; [reflexivity|]. cbn. rewrite map_app, IH. reflexivity. Qed.
Lemma filter_flat_map {A B} (p : B -> bool) (g : A -> list B) l : filter p (flat_map g l) = flat_map (fun x => filter p (g x)) l.
Proof. induction l as [|x t IH]; [reflexivity|]. cbn. rewrite filter_app, IH. reflexivity. Qed.

From Coq Require Import ZArith List Bool Lia Sorting.Sorted.
Import ListNotations.
Require Import Vec.
Open Scope Z_scope.

Section V.
Variables res stop start : Z.
Hypothesis Hres : 1 <= res.

Definition inbin (i : nat) (p : Z) : Prop := start + Z.of_nat i * res <= p < start + (Z.of_nat i + 1) * res.
(* acc is correct w.r.t. the labels in ls: bit i is 1 iff some label of ls lies in bin i; all bits are 0/1 *)
Definition bits_ok (acc : list Z) (ls : list Z) : Prop :=
  forall i, (i < length acc)%nat -> (nth i acc 0 = 1 /\ exists p, In p ls /\ inbin i p) \/ (nth i acc 0 = 0 /\ forall p, In p ls -> ~ inbin i p).

Lemma zeros_spec fuel p ws acc ls :
  bits_ok acc ls -> ws = start + Z.of_nat (length acc) * res -> (forall q, In q ls -> q < ws) -> ws <= p -> p - ws <= Z.of_nat fuel ->
  let r := zeros fuel res stop p ws acc in
  bits_ok (fst r) ls /\ (forall q, In q ls -> q < start + Z.of_nat (length (fst r)) * res) /\ start + Z.of_nat (length (fst r)) * res <= p /\
  (length acc <= length (fst r))%nat /\
  match snd r with
  | Some ws' => ws' = start + Z.of_nat (length (fst r)) * res /\ p < ws' + res
  | None => True
  end.
Proof.
  revert ws acc. induction fuel as [|f IH]; intros ws acc Hb Hws Hlt Hle Hf; cbn [zeros].
  - cbn. assert (p = ws) by lia. subst p. repeat split; try assumption; try lia. intros q Hq. specialize (Hlt q Hq). lia.
  - destruct (ws + res <=? p) eqn:E.
    + apply Z.leb_le in E.
      assert (Hb' : bits_ok (acc ++ [0]) ls).
      { intros i Hi. rewrite app_length in Hi. cbn in Hi. destruct (Nat.eq_dec i (length acc)) as [->|Hn].
        - right. rewrite app_nth2, Nat.sub_diag by lia. split; [reflexivity|]. intros q Hq (H1 & _). specialize (Hlt q Hq). lia.
        - rewrite app_nth1 by lia. apply Hb. lia. }
      assert (Hlen : start + Z.of_nat (length (acc ++ [0])) * res = ws + res) by (rewrite app_length; cbn [length]; lia).
      destruct (stop <? ws + res) eqn:Es.
      * cbn [fst snd]. rewrite Hlen. repeat split; try assumption; try lia; [intros q Hq; specialize (Hlt q Hq); lia | rewrite app_length; cbn; lia].
      * assert (G := IH (ws + res) (acc ++ [0]) Hb' (eq_sym Hlen) ltac:(intros q Hq; specialize (Hlt q Hq); lia) ltac:(lia) ltac:(lia)).
        cbn zeta in G. destruct G as (G1 & G2 & G3 & G4 & G5). repeat split; try assumption. rewrite app_length in G4. cbn in G4. lia.
    + apply Z.leb_gt in E. cbn [fst snd]. rewrite <- Hws. repeat split; try assumption; try lia.
Qed.

(* loop invariant: done = labels already consumed, ps = labels still to come, done ++ ps ascending *)
Lemma vec_loop_spec ps : forall done ws acc,
  StronglySorted Z.le (done ++ ps) ->
  bits_ok acc done -> ws = start + Z.of_nat (length acc) * res -> (forall q, In q done -> q < ws) ->
  (acc = [] \/ exists p0, In p0 done /\ inbin (length acc - 1) p0) ->
  let v := vec_loop res stop ps ws acc in
  bits_ok v (done ++ ps) /\ (length acc <= length v)%nat.
Proof.
  induction ps as [|p t IH]; intros done ws acc Hs Hb Hws Hlt Hlast; cbn [vec_loop].
  - rewrite app_nil_r. split; [exact Hb | lia].
  - assert (Hs' : StronglySorted Z.le ((done ++ [p]) ++ t)) by (rewrite <- app_assoc; exact Hs).
    assert (Hge : forall q, In q done -> q <= p).
    { intros q Hq. clear - Hs Hq. induction done as [|d done IH]; [destruct Hq|]. cbn in Hs. inversion Hs as [|? ? Ht Hd]; subst.
      destruct Hq as [<-|Hq]; [|apply IH; assumption]. rewrite Forall_forall in Hd. apply Hd. apply in_or_app. right. left. reflexivity. }
    assert (Hrest : forall q, In q t -> p <= q).
    { intros q Hq. clear - Hs Hq. induction done as [|d done IH]; cbn in Hs; inversion Hs as [|? ? Ht Hd]; subst; [|apply IH; assumption].
      rewrite Forall_forall in Hd. apply Hd. exact Hq. }
    destruct (p <? ws) eqn:Ep.
    + (* skipped: p lies in the last emitted bin (or before start) *)
      apply Z.ltb_lt in Ep.
      replace (done ++ p :: t) with ((done ++ [p]) ++ t) by (rewrite <- app_assoc; reflexivity).
      apply IH; try assumption.
      * intros i Hi. destruct (Hb i Hi) as [(H1 & q & Hq & Hin)|(H0 & Hno)].
        -- left. split; [exact H1|]. exists q. split; [apply in_or_app; left; exact Hq | exact Hin].
        -- right. split; [exact H0|]. intros q Hq. apply in_app_or in Hq. destruct Hq as [Hq|[<-|[]]]; [apply Hno; exact Hq|].
           intros (G1 & G2). destruct Hlast as [->|(p0 & Hp0 & Hin0)]; [cbn in Hi; lia|].
           (* p >= p0 which is in bin (length acc - 1); p < ws: so p is in that bin, whose bit is 1 *)
           assert (i = length acc - 1)%nat.
           { pose proof (Hge p0 Hp0). destruct Hin0 as (A1 & A2). assert (Z.of_nat i = Z.of_nat (length acc - 1)) by nia. lia. }
           subst i. apply (Hno p0 Hp0 Hin0).
      * intros q Hq. apply in_app_or in Hq. destruct Hq as [Hq|[<-|[]]]; [apply Hlt; exact Hq | exact Ep].
      * destruct Hlast as [->|(p0 & Hp0 & Hin0)]; [left; reflexivity|]. right. exists p0. split; [apply in_or_app; left; exact Hp0 | exact Hin0].
    + apply Z.ltb_ge in Ep.
      pose proof (zeros_spec (Z.to_nat (p - ws)) p ws acc done Hb Hws Hlt Ep ltac:(lia)) as Hz. cbn zeta in Hz.
      destruct (zeros (Z.to_nat (p - ws)) res stop p ws acc) as [acc' [ws'|]] eqn:Ez; cbn [fst snd] in Hz; destruct Hz as (Hb' & Hlt' & Hle' & Hlen & Hw').
      * destruct Hw' as (Hws' & Hp').
        assert (Hbin : inbin (length acc') p) by (unfold inbin; lia).
        replace (done ++ p :: t) with ((done ++ [p]) ++ t) by (rewrite <- app_assoc; reflexivity).
        assert (G : bits_ok (vec_loop res stop t (ws' + res) (acc' ++ [1])) ((done ++ [p]) ++ t) /\ (length (acc' ++ [1%Z]) <= length (vec_loop res stop t (ws' + res)%Z (acc' ++ [1%Z])))%nat).
        { apply IH; try assumption.
          - intros i Hi. rewrite app_length in Hi. cbn in Hi. destruct (Nat.eq_dec i (length acc')) as [->|Hn].
            + left. rewrite app_nth2, Nat.sub_diag by lia. split; [reflexivity|]. exists p. split; [apply in_or_app; right; left; reflexivity | exact Hbin].
            + rewrite app_nth1 by lia. destruct (Hb' i ltac:(lia)) as [(H1 & q & Hq & Hin)|(H0 & Hno)].
              * left. split; [exact H1|]. exists q. split; [apply in_or_app; left; exact Hq | exact Hin].
              * right. split; [exact H0|]. intros q Hq. apply in_app_or in Hq. destruct Hq as [Hq|[<-|[]]]; [apply Hno; exact Hq|].
                intros (G1 & G2). destruct Hbin as (B1 & B2). assert (Z.of_nat i = Z.of_nat (length acc')) by nia. lia.
          - rewrite app_length. cbn [length]. lia.
          - intros q Hq. apply in_app_or in Hq. destruct Hq as [Hq|[<-|[]]]; [specialize (Hlt' q Hq); lia | lia].
          - right. exists p. split; [apply in_or_app; right; left; reflexivity|]. rewrite app_length. cbn [length]. replace (length acc' + 1 - 1)%nat with (length acc') by lia. exact Hbin. }
        destruct G as (G1 & G2). split; [exact G1|]. rewrite app_length in G2. cbn in G2. lia.
      * (* generator returned early: every remaining label is beyond the emitted bins *)
        split; [|exact Hlen]. intros i Hi. destruct (Hb' i Hi) as [(H1 & q & Hq & Hin)|(H0 & Hno)].
        -- left. split; [exact H1|]. exists q. split; [apply in_or_app; left; exact Hq | exact Hin].
        -- right. split; [exact H0|]. intros q Hq. apply in_app_or in Hq. destruct Hq as [Hq|Hq]; [apply Hno; exact Hq|].
           intros (G1 & G2). assert (p <= q) by (destruct Hq as [<-|Hq]; [lia | apply Hrest; exact Hq]).
           assert (Z.of_nat i + 1 <= Z.of_nat (length acc')) by lia. nia.
Qed.

Theorem vector_bits ps : StronglySorted Z.le ps ->
  let v := vec_loop res stop ps start [] in
  forall i, (i < length v)%nat ->
    (nth i v 0 = 1 /\ exists p, In p ps /\ inbin i p) \/ (nth i v 0 = 0 /\ forall p, In p ps -> ~ inbin i p).
Proof.
  intros Hs v.
  assert (Hb0 : bits_ok [] []) by (intros i Hi; cbn in Hi; lia).
  assert (Hw0 : start = start + Z.of_nat (length (@nil Z)) * res) by (cbn; lia).
  assert (Hl0 : forall q : Z, In q [] -> q < start) by (intros q []).
  destruct (vec_loop_spec ps [] start [] Hs Hb0 Hw0 Hl0 (or_introl eq_refl)) as (H & _). exact H.
Qed.

(* every label inside [start, stop] is represented in the vector (nothing is cut off before `end`) *)
End V.
Print Assumptions vector_bits.

(* C15/C01, part 14: instantiating the adjacent-step theorem for the segments Aligner.align builds; C15_disjoint / C01. *)
From Coq Require Import ZArith QArith List Bool Lia Sorting.Sorted Sorting.Permutation.
Import ListNotations.
Require Import Py Pairing Core Psum PyProofs PairingProofs1 PairingProofs2 PairingProofs3 FacProofs FacSegs ConflictProofs DPProofs
  ResolverProofs1 ResolverProofs2 ResolverProofs3 ResolverProofs4 ResolverProofs5 ResolverProofs6 ResolverProofs7 ResolverProofs8 ResolverProofs9
  ResolverProofs10 ResolverProofs11 ResolverProofs12 ResolverProofs13.
Open Scope Z_scope.

(* ---------- the reference window does not change the candidates ---------- *)
Lemma flat_map_filter_nil {A B} (f : A -> list B) (p : A -> bool) l : (forall x, In x l -> p x = false -> f x = []) -> flat_map f (filter p l) = flat_map f l.
Proof. induction l as [|x t IH]; intros H; [reflexivity|]. cbn [filter flat_map]. destruct (p x) eqn:E; cbn [flat_map].
  - f_equal. apply IH. intros y Hy. apply H. right. exact Hy.
  - rewrite (H x (or_introl eq_refl) E). cbn. apply IH. intros y Hy. apply H. right. exact Hy. Qed.

Lemma cands_window d start len (R0 Q : list label) :
  StronglySorted (fun a b => lpos a <= lpos b) R0 -> StronglySorted (fun a b => lpos a <= lpos b) Q -> 0 <= d ->
  (forall q, In q Q -> 0 <= lpos q <= len) ->
  aligned_pairs d (takewhile (fun x => lpos x <=? start + len + d) (dropwhile (fun x => lpos x <? start - d) R0)) Q start = aligned_pairs d R0 Q start.
Proof.
  intros HR HQ Hd Hrange. rewrite (range_filter (start - d) (start + len + d) R0 HR). unfold aligned_pairs. apply flat_map_filter_nil.
  intros r _ Hout. cbv zeta. rewrite (range_filter (lpos r - start - d) (lpos r - start + d) Q HQ). rewrite filter_none; [reflexivity|].
  intros q Hq. specialize (Hrange q Hq). unfold inrange in *. apply andb_false_iff in Hout. apply andb_false_iff.
  destruct Hout as [H|H]; [apply Z.leb_gt in H; right; apply Z.leb_gt; lia | apply Z.leb_gt in H; left; apply Z.leb_gt; lia]. Qed.

Definition qry_in_range (query : omap) : Prop := forall p, In p (mpositions query) -> 0 <= p <= mlen query - K.

Lemma qry_labels_range query reverse : qry_in_range query -> forall q, In q (qry_labels query reverse) -> 0 <= lpos q <= mlen query.
Proof. intros H q Hq. unfold qry_labels, positions_with_ids in Hq. unfold qry_in_range in H. destruct reverse.
  - destruct (number_down_in _ _ _ _ Hq) as (_ & p & Hp & E). apply in_rev in Hp. specialize (H p Hp). unfold K in *. lia.
  - destruct (number_up_in _ _ _ Hq) as (_ & Hp). specialize (H _ Hp). unfold K in *. lia. Qed.

(* the pairs of the engine output for seed `start` are the pairing over ALL reference labels *)
Theorem engine_pairs_global P reference query start reverse : 0 <= DMAX P ->
  StronglySorted Z.lt (mpositions reference) -> StronglySorted Z.lt (mpositions query) -> qry_in_range query ->
  PairingProofs2.P (DMAX P) start (eng_refs (DMAX P) reference start (start + mlen query)) (qry_labels query reverse) =
  PairingProofs2.P (DMAX P) start (ref_labels reference) (qry_labels query reverse).
Proof.
  intros Hd HR HQ Hrange. unfold PairingProofs2.P, P1, cands. f_equal. f_equal. unfold eng_refs. apply cands_window; [| |exact Hd | apply qry_labels_range; exact Hrange].
  - apply (SS_weaken _ _ _ (fun a b (H : site a < site b /\ lpos a < lpos b) => Z.lt_le_incl _ _ (proj2 H)) (ref_labels_strict reference HR)).
  - apply (SS_weaken _ _ _ (fun a b (H : 0 < strand reverse * (site b - site a) /\ lpos a < lpos b) => Z.lt_le_incl _ _ (proj2 H)) (qry_labels_strict query reverse HQ)).
Qed.

(* ---------- keys of the scored engine output are blocks of the maps' label positions ---------- *)
Lemma keys_scored_ref P O : keys true (map (score_pos P) O) = map lpos (RLa O).
Proof. induction O as [|x t IH]; [reflexivity|]. unfold keys, RLa in *. cbn [map filter flat_map]. unfold mine at 1. rewrite score_pos_ap.
  destruct x as [r q s i|r|q s]; cbn [rlab_ap app map]; [| |exact IH]; unfold key at 1, rlab; rewrite score_pos_ap; cbn; f_equal; exact IH. Qed.
Lemma keys_scored_qry P O : keys false (map (score_pos P) O) = map lpos (QLa O).
Proof. induction O as [|x t IH]; [reflexivity|]. unfold keys, QLa in *. cbn [map filter flat_map]. unfold mine at 1. rewrite score_pos_ap.
  destruct x as [r q s i|r|q s]; cbn [qlab_ap app map negb]; [|exact IH|]; unfold key at 1, qlab; rewrite score_pos_ap; cbn; f_equal; exact IH. Qed.

Definition Gk (reference query : omap) (reverse : bool) (isref : bool) : list Z :=
  if isref then map lpos (ref_labels reference) else map lpos (qry_labels query reverse).
Lemma Gk_sorted reference query reverse isref : StronglySorted Z.lt (mpositions reference) -> StronglySorted Z.lt (mpositions query) ->
  StronglySorted Z.lt (Gk reference query reverse isref).
Proof. intros HR HQ. unfold Gk. destruct isref; apply SS_map.
  - apply (SS_weaken _ _ _ (fun a b (H : site a < site b /\ lpos a < lpos b) => proj2 H) (ref_labels_strict reference HR)).
  - apply (SS_weaken _ _ _ (fun a b (H : 0 < strand reverse * (site b - site a) /\ lpos a < lpos b) => proj2 H) (qry_labels_strict query reverse HQ)). Qed.

Lemma block_norm (G : list Z) n m : exists i k, firstn m (skipn n G) = block G i k /\ (i + k <= length G)%nat.
Proof. destruct (Nat.le_gt_cases (length G) n) as [H|H].
  - exists (length G), 0%nat. rewrite skipn_all2 by exact H. rewrite firstn_nil. unfold block. cbn. split; [reflexivity | lia].
  - exists n, (Nat.min m (length G - n)). split; [|lia]. unfold block. destruct (Nat.le_gt_cases m (length G - n)) as [H1|H1].
    + replace (Nat.min m (length G - n)) with m by lia. reflexivity.
    + replace (Nat.min m (length G - n)) with (length G - n)%nat by lia. rewrite !firstn_all2 by (rewrite skipn_length; lia). reflexivity. Qed.

Lemma blk_subrun G ps i n : blk G ps -> blk G (firstn n (skipn i ps)).
Proof.
  intros H isref. destruct (H isref) as (i0 & n0 & E & Hl).
  assert (Eps : ps = firstn i ps ++ firstn n (skipn i ps) ++ skipn n (skipn i ps)) by (rewrite !firstn_skipn; reflexivity).
  apply (f_equal (keys isref)) in Eps. rewrite !keys_app in Eps. set (kX := keys isref (firstn i ps)) in *. set (kS := keys isref (firstn n (skipn i ps))) in *. set (kY := keys isref (skipn n (skipn i ps))) in *.
  assert (Hlen : (length kX + length kS + length kY = n0)%nat) by (apply (f_equal (@length _)) in Eps; rewrite E, block_length, !app_length in Eps by exact Hl; lia).
  destruct (app_skipn_eq _ _ _ Eps) as (E1 & _). rewrite E, skipn_block in E1 by lia.
  destruct (app_skipn_eq _ _ _ (eq_sym E1)) as (_ & E2). rewrite firstn_block in E2 by lia.
  exists (i0 + length kX)%nat, (length kS). split; [exact E2 | lia]. Qed.

Theorem engine_output_blk P it reference query start reverse : 0 <= DMAX P ->
  StronglySorted Z.lt (mpositions reference) -> StronglySorted Z.lt (mpositions query) ->
  blk (Gk reference query reverse) (map (score_pos P) (align_engine (DMAX P) it reference query start (start + mlen query) reverse)).
Proof.
  intros Hd HR HQ isref. rewrite align_engine_unfold.
  assert (HRs : StronglySorted (fun a b => site a < site b /\ lpos a < lpos b) (eng_refs (DMAX P) reference start (start + mlen query)))
    by (apply (SS_Sub _ _ _ (eng_refs_Sub _ _ _ _)); apply ref_labels_strict; exact HR).
  pose proof (qry_labels_strict query reverse HQ) as HQs.
  destruct isref; unfold Gk.
  - rewrite keys_scored_ref, (engine_ref_labels (DMAX P) start (strand reverse) it _ _ Hd HRs HQs). unfold eng_refs.
    destruct (dropwhile_skipn (fun x => lpos x <? start - DMAX P) (ref_labels reference)) as (n & -> & _).
    destruct (takewhile_firstn (fun x => lpos x <=? start + mlen query + DMAX P) (skipn n (ref_labels reference))) as (m & -> & _).
    rewrite <- firstn_map, <- skipn_map. apply block_norm.
  - rewrite keys_scored_qry, (engine_qry_labels (DMAX P) start (strand reverse) it _ _ Hd HRs HQs).
    exists 0%nat, (length (map lpos (qry_labels query reverse))). unfold block. cbn [skipn]. rewrite firstn_all. split; [reflexivity | lia]. Qed.

Lemma get_segments_subrun P ps peak s : In s (get_segments P ps peak) -> exists i n, positions s = firstn n (skipn i ps).
Proof. rewrite get_segments_ranges. destruct (factory_ranges (MS P) (BS P) (map sc ps)) as [|r0 rs].
  - intros [<-|[]]. exists 0%nat, 0%nat. reflexivity.
  - intros H. apply in_map_iff in H. destruct H as (r & <- & _). exists (rA r), (rB r - rA r)%nat. reflexivity. Qed.

(* every segment of every peak: keys are blocks, and every pair is a pair of the global pairing for the segment's peak *)
Theorem segs_for_peaks_blk P reference query reverse : engine_ok P reference query -> qry_in_range query ->
  forall peaks it s, In s (segs_for_peaks P it reference query peaks reverse) ->
    blk (Gk reference query reverse) (positions s) /\
    forall p, In p (positions s) -> is_pair p = true ->
      exists c, In c (PairingProofs2.P (DMAX P) (speak s) (ref_labels reference) (qry_labels query reverse)) /\
                rpos_of p = lpos (cr c) /\ qpos_of p = lpos (cq c) /\ rsite_of p = site (cr c).
Proof.
  intros (Hd & Hms & Hsu & HR & HQ) Hrange peaks. induction peaks as [|pk peaks IH]; intros it s Hs; [destruct Hs|]. cbn [segs_for_peaks] in Hs. apply in_app_or in Hs.
  destruct Hs as [Hs|Hs]; [|apply (IH (it + 1) s Hs)]. unfold get_segments_for_peak in Hs.
  set (O := align_engine (DMAX P) it reference query pk (pk + mlen query) reverse) in *.
  pose proof (align_engine_ordered (DMAX P) it reference query pk (pk + mlen query) reverse Hd HR HQ) as HL. fold O in HL.
  destruct (get_segments_wf P (strand reverse) O pk Hms Hsu HL s Hs) as (_ & Hsub & Hpk).
  destruct (get_segments_subrun P _ pk s Hs) as (i & n & Epos). split.
  - rewrite Epos. apply blk_subrun. apply (engine_output_blk P it reference query pk reverse Hd HR HQ).
  - intros p Hp Hpp. apply (Sub_in _ _ _ Hsub) in Hp. apply in_map_iff in Hp. destruct Hp as (x & <- & Hx). unfold O in Hx. rewrite align_engine_unfold in Hx.
    apply (Permutation_in _ (sort_by_perm abs_pos _)) in Hx. apply in_ML in Hx. unfold is_pair in Hpp. rewrite score_pos_ap in Hpp.
    destruct x as [r q sh i0| |]; try discriminate. cbn [inML] in Hx. destruct Hx as (c & Hc & -> & -> & _).
    rewrite (engine_pairs_global P reference query pk reverse Hd HR HQ Hrange) in Hc. rewrite Hpk. exists c. split; [exact Hc|].
    unfold rpos_of, qpos_of, rsite_of, pv_of. cbn. auto.
Qed.

(* ---------- adjacent chain members of Aligner.align ---------- *)
Theorem engine_adjacent_sep P it reference query peaks reverse : engine_ok P reference query -> qry_in_range query ->
  let segs := segs_for_peaks P it reference query peaks reverse in
  forall sel, adjacent (admissible P) sel -> chain P segs = Ok (sel ++ filter seg_empty segs) -> adjacent_resolutions_separate sel.
Proof.
  intros Hok Hrange segs sel Hadm Hch t ct cb m a' b' Ht Hst Hr Hpa' Hpb'. pose proof Hok as (Hd & Hms & Hsu & HR & HQ).
  set (dir := strand reverse). set (R0 := ref_labels reference). set (Q0 := qry_labels query reverse).
  assert (Hin : forall s, In s sel -> In s segs) by (intros s Hs; apply (chain_in P segs _ Hch); apply in_or_app; left; exact Hs).
  pose proof (Hin ct (nth_error_In _ _ Ht)) as Hct. pose proof (Hin cb (nth_error_In _ _ Hst)) as Hcb.
  destruct (segs_for_peaks_wf P reference query reverse Hd Hms Hsu HR HQ peaks it ct Hct) as ((Hoct & Hsct & Hect) & _ & _).
  destruct (segs_for_peaks_wf P reference query reverse Hd Hms Hsu HR HQ peaks it cb Hcb) as ((Hocb & Hscb & Hecb) & _ & _).
  pose proof (segs_for_peaks_coherent P reference query reverse Hd Hms Hsu HR HQ peaks it ct cb Hct Hcb) as Hcoh.
  destruct (segs_for_peaks_blk P reference query reverse Hok Hrange peaks it ct Hct) as (Hbt & Hct_c).
  destruct (segs_for_peaks_blk P reference query reverse Hok Hrange peaks it cb Hcb) as (Hbb & Hcb_c).
  set (a := seg_create (skipn m (positions ct)) (speak ct)) in *.
  assert (HsubA : Sub (positions a) (positions ct)) by apply Sub_skipn_self.
  assert (Hoa : seg_ord dir (positions a)) by (apply (SS_Sub _ _ _ HsubA Hoct)).
  destruct (resolve_pair_Sub dir a cb a' b' Hoa Hocb eq_refl Hscb Hr) as (Sa' & Sb').
  assert (Hpa : has_pairs a = true) by (apply (has_pairs_Sub a' a Sa' Hpa')).
  assert (Hpcb : has_pairs cb = true) by (apply (has_pairs_Sub b' cb Sb' Hpb')).
  pose proof (has_pairs_Sub a ct HsubA Hpa) as Hpct.
  destruct (Hect Hpct) as (_ & Hlct). destruct (Hecb Hpcb) as (Hfcb & _).
  assert (Hla : last_is_pair (positions a)) by (apply last_is_pair_skipn; exact Hlct).
  pose proof (HRs_ := ref_labels_strict reference HR). pose proof (HQs_ := qry_labels_strict query reverse HQ). fold R0 in HRs_. fold Q0 in HQs_.
  apply (adj_sep dir (Gk reference query reverse) a cb a' b' Hoa Hocb eq_refl Hscb Hla Hfcb Hpa Hpcb); [| | | | | | exact Hr].
  - apply (coherent_Sub dir _ _ _ _ HsubA (Sub_refl _) Hcoh).
  - intros isref. apply Gk_sorted; assumption.
  - replace (positions a) with (firstn (length (skipn m (positions ct))) (skipn m (positions ct))) by apply firstn_all. apply blk_subrun. exact Hbt.
  - exact Hbb.
  - intros ce eb Hce Heb. destruct (has_pairs_start ct Hpct) as (ps & Hps). destruct (has_pairs_end ct Hpct) as (pe & Hpe). destruct (has_pairs_start cb Hpcb) as (cs & Hcs).
    destruct (admissible_geom dir P ct cb ps pe cs eb (adjacent_nth _ _ Hadm _ _ _ Ht Hst) Hoct Hocb Hpct Hpcb Hps Hpe Hcs Heb) as ((M1 & M2) & _).
    destruct (start_le_end dir cb cs eb Hocb Hpcb Hcs Heb) as (S1 & S2).
    destruct (end_mono dir ct a pe ce Hoct HsubA Hpe Hce Hpa) as (E1 & E2). unfold pv_le. lia.
  - intros p p' Hp Hp' Hpp Hpp'. destruct (Hct_c p (Sub_in _ _ _ HsubA Hp) Hpp) as (c & Hc & Er & Eq & _). destruct (Hcb_c p' Hp' Hpp') as (c' & Hc' & Er' & Eq' & _).
    rewrite Er, Er', Eq, Eq'. change (speak a) with (speak ct). fold R0 Q0 in Hc, Hc'.
    destruct (P_facts (DMAX P) (speak ct) dir R0 Q0 HQs_ c Hc) as (Hc1 & _ & Hcr & _). destruct (P_facts (DMAX P) (speak cb) dir R0 Q0 HQs_ c' Hc') as (Hc1' & _ & Hcr' & _).
    split.
    + intros Hlt Hrl. apply (cross_monotone (DMAX P) dir R0 Q0 HRs_ HQs_ (speak ct) (speak cb) c c' ltac:(lia) Hc1 Hc1').
      unfold rsite. destruct (R_cases R0 HRs_ (cr c) (cr c') Hcr Hcr') as [E|[X|X]]; [rewrite E in Hrl; lia | lia | lia].
    + intros Hnlt Hql. pose proof (cross_monotone_q (DMAX P) dir R0 Q0 Hd HRs_ HQs_ (speak ct) (speak cb) c c' ltac:(lia) Hc Hc' Hql) as Hs. unfold rsite in Hs.
      destruct (R_cases R0 HRs_ (cr c) (cr c') Hcr Hcr') as [E|[X|X]]; [rewrite E in Hs; lia | lia | lia].
Qed.

(* C15_disjoint, full *)
Theorem aligner_align_disjoint P it reference query peaks reverse out : engine_ok P reference query -> qry_in_range query ->
  aligner_align P it reference query peaks reverse = Ok out -> segments_disjoint (strand reverse) out.
Proof. intros Hok Hrange H. apply (aligner_align_disjoint_if_adjacent P it reference query peaks reverse out Hok H).
  apply (engine_adjacent_sep P it reference query peaks reverse Hok Hrange). Qed.
Print Assumptions aligner_align_disjoint.

(* C18, part 2: the Alignment column, one data line, the whole file *)
From Coq Require Import ZArith NArith List Bool Lia String Ascii Decimal DecimalString DecimalN.
Import ListNotations.
Require Import Py Cigar Xmap CigarProofs2 XmapProofs1.
Open Scope Z_scope.
Local Open Scope string_scope.

(* ---- the Alignment column ---- *)
Definition inner (p : Z * Z) : string := print_int (fst p) ++ String ","%char (print_int (snd p)).
Lemma print_pair_inner p : print_pair p = String "("%char (inner p ++ ")").
Proof. unfold print_pair, inner. cbn [append]. rewrite append_assoc'. reflexivity. Qed.
Lemma inner_chars p : all_chars (inb INNER) (inner p) = true.
Proof.
  unfold inner. rewrite all_chars_app. cbn [all_chars].
  rewrite (inb_sub INTC INNER _ eq_refl (print_int_chars _)), (inb_sub INTC INNER _ eq_refl (print_int_chars _)). reflexivity.
Qed.
Lemma concat_fold (l : list string) : String.concat "" l = fold_right append "" l.
Proof.
  induction l as [|a l IH]; [reflexivity|]. cbn [fold_right]. rewrite <- IH. destruct l as [|b l]; cbn.
  - rewrite append_nil_r. reflexivity.
  - reflexivity.
Qed.
(* the text between the first "(" ... and the last ")" *)
Fixpoint body (ps : list (Z * Z)) : string :=
  match ps with
  | [] => ""
  | p :: t => String "("%char (inner p ++ match t with [] => "" | _ :: _ => String ")"%char (body t) end)
  end.
Lemma print_pairs_body ps : ps <> [] -> print_pairs ps = body ps ++ ")".
Proof.
  unfold print_pairs. rewrite concat_fold. induction ps as [|p t IH]; [congruence|]. intros _.
  cbn [map fold_right]. rewrite print_pair_inner. destruct t as [|q r].
  - cbn [map fold_right body append]. rewrite !append_nil_r. reflexivity.
  - rewrite IH by discriminate. change (body (p :: q :: r)) with (String "("%char (inner p ++ String ")"%char (body (q :: r)))).
    cbn [append]. rewrite !append_assoc'. reflexivity.
Qed.
Lemma remove_body ps : remove_char "("%char (body ps) = join ")"%char (map inner ps).
Proof.
  induction ps as [|p t IH]; [reflexivity|]. cbn [body remove_char]. change (Ascii.eqb "("%char "("%char) with true. cbv iota.
  rewrite remove_char_app, remove_char_nochar by (apply (inb_no_char INNER); [reflexivity | apply inner_chars]).
  destruct t as [|q r].
  - cbn. apply append_nil_r.
  - cbn [remove_char]. change (Ascii.eqb ")"%char "("%char) with false. cbv iota. rewrite IH. reflexivity.
Qed.
Theorem pair_strings_print ps : ps <> [] -> pair_strings (print_pairs ps) = map inner ps.
Proof.
  intros H. unfold pair_strings. rewrite (print_pairs_body ps H), drop_last_snoc, remove_body.
  apply split_join.
  - destruct ps; [congruence | discriminate].
  - apply Forall_forall. intros s Hs. apply in_map_iff in Hs. destruct Hs as (p & <- & _).
    apply (inb_no_char INNER); [reflexivity | apply inner_chars].
Qed.
Lemma parse_inner p : parse_pair_ids (inner p) = XOk p.
Proof.
  unfold parse_pair_ids, inner.
  rewrite split_app by (apply (inb_no_char INTC); [reflexivity | apply print_int_chars]).
  rewrite split_nochar by (apply (inb_no_char INTC); [reflexivity | apply print_int_chars]).
  rewrite !parse_print_int. destruct p; reflexivity.
Qed.
Theorem parse_print_pairs ps : ps <> [] -> parse_pairs (print_pairs ps) = Some ps.
Proof.
  intros H. unfold parse_pairs. rewrite (pair_strings_print ps H).
  assert (G : xmapM parse_pair_ids (map inner ps) = XOk ps).
  { clear H. induction ps as [|p t IH]; [reflexivity|]. cbn [map xmapM]. rewrite parse_inner. cbn [xbind]. rewrite IH. reflexivity. }
  rewrite G. reflexivity.
Qed.
Lemma print_pairs_cons ps : ps <> [] -> exists c t, print_pairs ps = String c t.
Proof.
  intros H. rewrite (print_pairs_body ps H). destruct ps as [|p t]; [congruence|]. cbn [body append]. eauto.
Qed.
Lemma print_pairs_chars ps : all_chars (inb PAIRC) (print_pairs ps) = true.
Proof.
  unfold print_pairs. rewrite concat_fold. induction ps as [|p t IH]; [reflexivity|]. cbn [map fold_right].
  rewrite all_chars_app, IH, print_pair_inner. cbn [all_chars]. rewrite all_chars_app.
  rewrite (inb_sub INNER PAIRC _ eq_refl (inner_chars p)). reflexivity.
Qed.

(* ---- looking the labels up ---- *)
Lemma py_index_site l s : 1 <= s <= Z.of_nat (List.length l) -> py_index l (s - 1) = XOk (nth (Z.to_nat (s - 1)) l 0).
Proof.
  intros H. unfold py_index. destruct (s - 1 <? 0)%Z eqn:E; [lia|].
  destruct ((0 <=? s - 1)%Z && (s - 1 <? Z.of_nat (List.length l))%Z)%bool eqn:E2; [reflexivity|].
  apply andb_false_iff in E2. destruct E2 as [E2|E2]; lia.
Qed.
Definition lookup (ref qry : omap) (p : Z * Z) : Z * Z * Z * Z :=
  (fst p, nth (Z.to_nat (fst p - 1)) (snd ref) 0, snd p, nth (Z.to_nat (snd p - 1)) (snd qry) 0).
Lemma create_pairs_ok ref qry ps :
  Forall (fun p => 1 <= fst p <= Z.of_nat (List.length (snd ref)) /\ 1 <= snd p <= Z.of_nat (List.length (snd qry))) ps ->
  xmapM (create_pair ref qry) (map inner ps) = XOk (map (lookup ref qry) ps).
Proof.
  induction 1 as [|p t [Hr Hq] _ IH]; [reflexivity|]. cbn [map xmapM]. unfold create_pair at 1. rewrite parse_inner. cbn [xbind].
  rewrite (py_index_site _ _ Hr), (py_index_site _ _ Hq). cbn [xbind]. rewrite IH. reflexivity.
Qed.
Lemma parse_alignment_ok refs qrys r :
  row_ok refs qrys r ->
  parse_alignment refs qrys (print_pairs (x_pairs r)) (x_qid r) (x_rid r) (x_rev r) =
  XOk (with_distance (x_rev r)
         (map (fun p => (fst p, pos_of refs (x_rid r) (fst p), snd p, pos_of qrys (x_qid r) (snd p))) (x_pairs r))).
Proof.
  intros (Hr & Hq & Hs & Hp & _). destruct Hr as (ref & Hr). destruct Hq as (qry & Hq).
  destruct (print_pairs_cons _ Hp) as (c & t & E). unfold parse_alignment. rewrite E, <- E.
  rewrite (pair_strings_print _ Hp). unfold find_map. rewrite Hr, Hq. cbn [of_opt xbind].
  rewrite (create_pairs_ok ref qry).
  - cbn [xbind]. do 2 f_equal. apply map_ext. intros p. unfold lookup, pos_of, positions_of. rewrite Hr, Hq. reflexivity.
  - eapply Forall_impl; [|exact Hs]. intros p [H1 H2]. unfold site_ok, positions_of in H1, H2. rewrite Hr in H1. rewrite Hq in H2. tauto.
Qed.

(* ---- HitEnum text ---- *)
Lemma print_nat_digits n : all_chars (inb DIG) (print_nat n) = true.
Proof.
  unfold print_nat, NilZero.string_of_uint. destruct (Nat.to_uint n) eqn:E; [reflexivity|..]; rewrite <- E; apply uint_digits.
Qed.
Lemma render_chars rs : all_chars (inb CIG) (render rs) = true.
Proof.
  unfold render. rewrite concat_fold. induction rs as [|[n o] t IH]; [reflexivity|]. cbn [map fold_right].
  rewrite all_chars_app, IH. unfold render_run. cbn [fst snd]. rewrite all_chars_app.
  rewrite (inb_sub DIG CIG _ eq_refl (print_nat_digits n)). destruct o; reflexivity.
Qed.

(* ---- one data line ---- *)
Lemma no_tab_of cls s : inb cls TAB = false -> all_chars (inb cls) s = true -> no_char TAB s = true.
Proof. apply inb_no_char. Qed.
Lemma orientation_eqb (b : bool) : String.eqb (if b then "-" else "+") "-" = b.
Proof. destruct b; reflexivity. Qed.

Theorem read_write_row refs qrys i r : row_ok refs qrys r -> read_line refs qrys (write_row i r) = XOk (expected refs qrys (i, r)).
Proof.
  intros Hok. unfold read_line, write_row. rewrite split_join.
  2: discriminate.
  2:{ repeat apply Forall_cons; try apply Forall_nil.
      1-3: apply (no_tab_of INTC); [reflexivity | apply print_int_chars].
      1-4,8-9: apply (no_tab_of NUM); [reflexivity | apply print_tenths_chars].
      - destruct (x_rev r); reflexivity.
      - apply (no_tab_of NUM); [reflexivity | apply print_hundredths_chars].
      - apply (no_tab_of CIG); [reflexivity | apply render_chars].
      - destruct (x_rest r); reflexivity.
      - reflexivity.
      - apply (no_tab_of PAIRC); [reflexivity | apply print_pairs_chars]. }
  cbv beta iota. rewrite !parse_print_int. cbn [of_opt xbind]. rewrite orientation_eqb.
  rewrite (parse_alignment_ok refs qrys r Hok). cbn [xbind].
  rewrite !parse_trunc_tenths, parse_print_hundredths. cbn [of_opt xbind].
  destruct Hok as (_ & _ & _ & _ & Hruns). pose proof (render_nonempty _ Hruns) as Hne.
  unfold expected. cbn [fst snd]. destruct (render (x_runs r)) eqn:E; [congruence|]. reflexivity.
Qed.

(* ---- the whole file ---- *)
Lemma read_lines_mapM lines refs qrys : xmap_read_lines lines refs qrys = xmapM (read_line refs qrys) lines.
Proof. destruct lines; reflexivity. Qed.
Lemma roundtrip_from refs qrys rows : forall i, Forall (row_ok refs qrys) rows ->
  xmapM (read_line refs qrys) (write_from i rows) = XOk (map (expected refs qrys) (number_from i rows)).
Proof.
  induction rows as [|r t IH]; intros i H; [reflexivity|]. inversion H as [|? ? Hr Ht]; subst.
  cbn [write_from number_from map xmapM]. rewrite (read_write_row refs qrys i r Hr). cbn [xbind].
  rewrite (IH (i + 1) Ht). reflexivity.
Qed.
Theorem roundtrip refs qrys rows : Forall (row_ok refs qrys) rows ->
  xmap_read_lines (xmap_write_lines rows) refs qrys = XOk (map (expected refs qrys) (number rows)).
Proof. intros H. rewrite read_lines_mapM. apply roundtrip_from. exact H. Qed.

Lemma write_from_length rows : forall i, List.length (write_from i rows) = List.length rows.
Proof. induction rows as [|r t IH]; intros i; [reflexivity|]. cbn. rewrite IH. reflexivity. Qed.
Lemma number_from_length rows : forall i, List.length (number_from i rows) = List.length rows.
Proof. induction rows as [|r t IH]; intros i; [reflexivity|]. cbn. rewrite IH. reflexivity. Qed.
Lemma number_from_nth rows : forall i k d, (k < List.length rows)%nat ->
  nth k (number_from i rows) (i + Z.of_nat k, d) = (i + Z.of_nat k, nth k rows d).
Proof.
  induction rows as [|r t IH]; intros i k d H; [cbn in H; lia|]. destruct k as [|k].
  - cbn. rewrite Z.add_0_r. reflexivity.
  - cbn [number_from nth]. cbn [List.length] in H. replace (i + Z.of_nat (S k)) with (i + 1 + Z.of_nat k) by lia.
    apply IH. lia.
Qed.
(* one alignment per record, in file order: the k-th alignment (0-based) is the one expected of the k-th row, with id k + 1 *)
Theorem roundtrip_nth refs qrys rows : Forall (row_ok refs qrys) rows ->
  exists als, xmap_read_lines (xmap_write_lines rows) refs qrys = XOk als /\ List.length als = List.length rows /\
    forall k d, (k < List.length rows)%nat ->
      nth k als (expected refs qrys (1 + Z.of_nat k, d)) = expected refs qrys (1 + Z.of_nat k, nth k rows d).
Proof.
  intros H. exists (map (expected refs qrys) (number rows)). split; [apply roundtrip; exact H|]. split.
  - rewrite map_length. apply number_from_length.
  - intros k d Hk. rewrite map_nth. unfold number. rewrite number_from_nth by exact Hk. reflexivity.
Qed.
(* the HitEnum text that comes back decodes to the runs that were written *)
Theorem cigar_decodes refs qrys ir : exists s, a_cigar (expected refs qrys ir) = Some s /\ parse_hit s = Some (x_runs (snd ir)).
Proof. exists (render (x_runs (snd ir))). split; [reflexivity | apply parse_render]. Qed.

(* the boolean well-formedness test used by the harness implies the predicate *)
Lemma has_mapb_sound ms id : has_mapb ms id = true -> has_map ms id.
Proof. unfold has_mapb, has_map. destruct (find _ ms) as [m|]; [eauto | discriminate]. Qed.
Lemma site_okb_sound ms id s : site_okb ms id s = true -> site_ok ms id s.
Proof. unfold site_okb, site_ok. intros H. apply andb_true_iff in H. lia. Qed.
Theorem row_okb_sound refs qrys r : row_okb refs qrys r = true -> row_ok refs qrys r.
Proof.
  unfold row_okb, row_ok. intros H. repeat (apply andb_true_iff in H; destruct H as [H ?]).
  split; [apply has_mapb_sound; assumption|]. split; [apply has_mapb_sound; assumption|]. split; [|split].
  - apply Forall_forall. intros p Hp. rewrite forallb_forall in H2. specialize (H2 p Hp). apply andb_true_iff in H2.
    destruct H2. split; apply site_okb_sound; assumption.
  - destruct (x_pairs r); [discriminate | discriminate].
  - destruct (x_runs r); [discriminate | discriminate].
Qed.

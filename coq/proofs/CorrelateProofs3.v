(* The planted copy against the reference in exact arithmetic (C06), and the mirror symmetry of binning on a lattice (C11).
   Positions are integers in one unit (whatever unit the resolution is given in). *)
From Coq Require Import ZArith QArith List Bool Lia Sorting.Sorted.
Import ListNotations.
Require Import Py Vec Peaks Correlate VecProofs VecCovers BlurProofs CorrelateProofs1 CorrelateProofs2.
Open Scope Z_scope.

Lemma get_sequence_fwd ps res r start stop : get_sequence ps res r false start stop = blur (vectorise ps res start stop) r.
Proof. reflexivity. Qed.
Lemma get_sequence_rev ps res r start stop : get_sequence ps res r true start stop = rev (blur (vectorise ps res start stop) r).
Proof. reflexivity. Qed.
Lemma get_sequence_is01 ps res r b start stop : is01 (get_sequence ps res r b start stop).
Proof. unfold get_sequence. destruct b; [apply is01_rev|]; apply blur_is01. Qed.
(* no exception for a valid resolution and radius and at least one label *)
Lemma get_sequence_py_ok ps res r b start stop : 1 <= res -> 0 <= r -> ps <> [] ->
  get_sequence_py ps res r b start stop = Ok (get_sequence ps res (Z.to_nat r) b start stop).
Proof. intros Hres Hr Hps. unfold get_sequence_py, vectorise_py, blur_py, get_sequence.
  destruct (res <? 1) eqn:E; [apply Z.ltb_lt in E; lia|]. destruct ps as [|p ps]; [congruence|]. cbn [bind].
  destruct (r <? 0) eqn:E2; [apply Z.ltb_lt in E2; lia|]. destruct (match stop with Some e => e =? 0 | None => true end); reflexivity. Qed.

(* the value of a bit (0 or 1) of the unblurred vector *)
Lemma vec_nonzero_label ps res start stop j : 1 <= res -> StronglySorted Z.le ps ->
  (j < length (vectorise ps res start stop))%nat -> nth j (vectorise ps res start stop) 0 <> 0 -> exists p, In p ps /\ inbin res start j p.
Proof. intros Hres Hs Hj Hn. destruct (vectorise_bits ps res start stop Hres Hs j Hj) as [(_ & H)|(H0 & _)]; [exact H | congruence]. Qed.

(* =============================================================================================================================
   C06: the noise-free copy.  R = the reference labels (ascending), the query = labels a .. a+n-1 of R moved to the origin
   (p - R[a]: a trimmed copy).  R[a] = k0*res + o with 0 <= o < res. *)
Section Planted.
Variables (R : list Z) (a n : nat) (res : Z) (k0 : nat) (o : Z).
Hypothesis Hres : 1 <= res.
Hypothesis HsR : StronglySorted Z.le R.
Hypothesis Hn : (1 <= n)%nat.
Hypothesis Han : (a + n <= length R)%nat.
Hypothesis Ho : 0 <= o < res.
Hypothesis Hoff : nth a R 0 = Z.of_nat k0 * res + o.

Let ra := nth a R 0.
Let qs := map (fun p => p - ra) (firstn n (skipn a R)).
Let vq := vectorise qs res 0 None.
Let vr := vectorise R res 0 None.
Let slack := if o =? 0 then O else 1%nat.

Lemma pl_qs_sorted : StronglySorted Z.le qs.
Proof. apply SS_map_sub, SS_firstn, SS_skipn, HsR. Qed.
Lemma pl_qs_in p : In p qs -> exists x, In x R /\ p = x - ra.
Proof. intros Hp. apply in_map_iff in Hp. destruct Hp as (x & <- & Hx). exists x. split; [|reflexivity].
  rewrite <- (firstn_skipn a R). apply in_or_app. right. rewrite <- (firstn_skipn n (skipn a R)). apply in_or_app. left. exact Hx. Qed.
Lemma pl_qs_zero : In 0 qs.
Proof. unfold qs. assert (E : skipn a R = ra :: skipn (S a) R).
  { unfold ra. clear - Han Hn. revert R Han. induction a as [|a' IH]; intros R Han; (destruct R as [|x R']; [cbn in Han; lia|]); [reflexivity|]. cbn [skipn nth]. apply IH. cbn in Han. lia. }
  rewrite E. destruct n as [|n']; [lia|]. cbn [firstn map]. left. lia. Qed.
(* a reference label x >= 0 has its bin inside the reference vector, with its bit set *)
Lemma pl_ref_bit x : In x R -> 0 <= x -> exists i, (i < length vr)%nat /\ inbin res 0 i x /\ nth i vr 0 = 1.
Proof. intros Hx H0. apply (vectorise_covers R res 0 None Hres HsR x Hx). split; [exact H0|]. cbn [eff_stop]. apply SS_le_last; assumption. Qed.

(* the query vector has a 1-bit: its first label, in bin 0 *)
Lemma pl_vq_bit0 : (0 < length vq)%nat /\ nth O vq 0 = 1.
Proof. destruct (vectorise_covers qs res 0 None Hres pl_qs_sorted 0 pl_qs_zero) as (i & Hi & (B1 & B2) & H1).
  { split; [lia|]. cbn [eff_stop]. apply SS_le_last; [exact pl_qs_sorted | exact pl_qs_zero]. }
  fold vq in Hi, H1. assert (i = O) by nia. subst i. split; [lia | exact H1]. Qed.

Lemma pl_fits : (k0 + length vq <= length vr)%nat.
Proof. destruct pl_vq_bit0 as (Hpos & _). destruct (length vq) as [|m] eqn:E; [lia|].
  destruct (vectorise_len_bound qs res 0 None Hres m ltac:(change (m < length vq)%nat; lia)) as (p & Hp & Hle).
  destruct (pl_qs_in p Hp) as (x & Hx & ->). destruct (pl_ref_bit x Hx ltac:(fold ra in Hoff; nia)) as (i & Hi & (B1 & B2) & _).
  fold ra in Hoff. assert (Z.of_nat (k0 + m) < Z.of_nat i + 1) by nia. lia. Qed.

Lemma pl_bits j : (j < length vq)%nat -> nth j vq 0 <> 0 ->
  exists j', (j' < length vr)%nat /\ nth j' vr 0 <> 0 /\ (k0 + j <= j' <= k0 + j + slack)%nat.
Proof. intros Hj Hnz. destruct (vec_nonzero_label qs res 0 None j Hres pl_qs_sorted Hj Hnz) as (p & Hp & (B1 & B2)).
  destruct (pl_qs_in p Hp) as (x & Hx & ->). fold ra in Hoff.
  destruct (pl_ref_bit x Hx ltac:(nia)) as (i & Hi & (C1 & C2) & H1). exists i. split; [exact Hi|]. split; [lia|].
  unfold slack. destruct (o =? 0) eqn:Eo; [apply Z.eqb_eq in Eo; subst o|]; split.
  - assert (Z.of_nat (k0 + j) < Z.of_nat i + 1) by nia. lia.
  - assert (Z.of_nat i < Z.of_nat (k0 + j) + 1) by nia. lia.
  - assert (Z.of_nat (k0 + j) < Z.of_nat i + 1) by nia. lia.
  - assert (Z.of_nat i < Z.of_nat (k0 + j) + 2) by nia. lia. Qed.

(* the query vector blurred with radius r1, placed at lag k0, is covered by the reference vector blurred with radius r2 >= r1 + slack *)
Lemma pl_cover r1 r2 : (r1 + slack <= r2)%nat -> covers (blur vr r2) (blur vq r1) k0.
Proof. intros Hr. apply (blur_cover vq vr k0 r1 r2 slack Hr pl_fits). exact pl_bits. Qed.

Lemma pl_vsum_pos r : 0 < vsum (blur vq r).
Proof. destruct pl_vq_bit0 as (Hi & H1).
  assert (E : nth O (blur vq r) 0 = 1) by (apply blur_one_iff; [exact Hi|]; exists O; split; [exact Hi|]; split; [lia|]; split; [lia | lia]).
  pose proof (vsum_ge_nth (blur vq r) (blur_is01 vq r) O). lia. Qed.

Lemma pl_lag_ok r1 r2 : (k0 <= length (blur vr r2) - length (blur vq r1))%nat /\ (length (blur vq r1) <= length (blur vr r2))%nat.
Proof. rewrite !blur_length. pose proof pl_fits. lia. Qed.
End Planted.

(* the offset is a multiple of the resolution: the true lag k0 = R[a]/res reaches the number of 1-bits of the query vector, the
   global maximum of the correlation *)
Theorem planted_true_lag_max R a n res r k0 : 1 <= res -> StronglySorted Z.le R -> (1 <= n)%nat -> (a + n <= length R)%nat ->
  nth a R 0 = Z.of_nat k0 * res ->
  let vr := get_sequence R res r false 0 None in
  let vq := get_sequence (map (fun p => p - nth a R 0) (firstn n (skipn a R))) res r false 0 None in
  (length vq <= length vr)%nat /\ (k0 <= length vr - length vq)%nat /\ covers vr vq k0 /\
  0 < vsum vq /\ nth k0 (xcorr vr vq) 0 = vsum vq /\
  forall k, (k <= length vr - length vq)%nat -> nth k (xcorr vr vq) 0 <= nth k0 (xcorr vr vq) 0.
Proof. intros Hres HsR Hn Han Hoff vr vq. unfold vr, vq. rewrite !get_sequence_fwd.
  assert (Hoff' : nth a R 0 = Z.of_nat k0 * res + 0) by lia.
  destruct (pl_lag_ok R a n res k0 0 Hres HsR Hn Han ltac:(lia) Hoff' r r) as (L1 & L2).
  pose proof (pl_cover R a n res k0 0 Hres HsR Hn Han ltac:(lia) Hoff' r r ltac:(cbn; lia)) as Hc.
  split; [exact L2|]. split; [exact L1|]. split; [exact Hc|]. split; [apply (pl_vsum_pos R a n res k0 0 Hres HsR Hn Han)|].
  apply xcorr_covered_is_max; [apply blur_is01 | apply blur_is01 | exact L1 | exact Hc]. Qed.

(* any offset, blur radius r >= 1: the query blurred with radius r-1 is still covered, so the true lag (k0 = floor(R[a]/res)) reaches
   at least the number of 1-bits of the query vector blurred with radius r-1, while no lag exceeds the number of 1-bits of the
   query vector blurred with radius r *)
Theorem planted_true_lag_any_offset R a n res r k0 o : 1 <= res -> StronglySorted Z.le R -> (1 <= n)%nat -> (a + n <= length R)%nat ->
  0 <= o < res -> nth a R 0 = Z.of_nat k0 * res + o -> (1 <= r)%nat ->
  let qs := map (fun p => p - nth a R 0) (firstn n (skipn a R)) in
  let vr := get_sequence R res r false 0 None in
  let vq := get_sequence qs res r false 0 None in
  (length vq <= length vr)%nat /\ (k0 <= length vr - length vq)%nat /\
  vsum (get_sequence qs res (r - 1) false 0 None) <= nth k0 (xcorr vr vq) 0 /\
  forall k, (k <= length vr - length vq)%nat -> nth k (xcorr vr vq) 0 <= vsum vq.
Proof. intros Hres HsR Hn Han Ho Hoff Hr qs vr vq. unfold vr, vq, qs. rewrite !get_sequence_fwd.
  destruct (pl_lag_ok R a n res k0 o Hres HsR Hn Han Ho Hoff r r) as (L1 & L2).
  split; [exact L2|]. split; [exact L1|]. split.
  - pose proof (pl_cover R a n res k0 o Hres HsR Hn Han Ho Hoff (r - 1) r ltac:(destruct (o =? 0); lia)) as Hc.
    destruct (pl_lag_ok R a n res k0 o Hres HsR Hn Han Ho Hoff (r - 1) r) as (M1 & M2).
    destruct (xcorr_covered_is_max _ _ k0 (blur_is01 _ r) (blur_is01 _ (r - 1)) M1 Hc) as (E & _). rewrite <- E.
    apply xcorr_mono; [apply blur_is01 | apply blur_is01 | apply blur_is01 | rewrite !blur_length; reflexivity | | exact M1].
    intros i. apply blur_mono_radius. lia.
  - intros k Hk. apply xcorr_bounds; [apply blur_is01 | apply blur_is01 | exact Hk]. Qed.

(* when moreover the reference window at the true lag IS the query vector (no foreign reference label blurs into the window),
   the normalised correlation there is exactly 1, and no entry of the normalised correlation exceeds 1 *)
Theorem true_lag_normalised_max vr vq k0 : is01 vr -> is01 vq -> (length vq <= length vr)%nat -> (k0 <= length vr - length vq)%nat ->
  0 < vsum vq -> window vr k0 (length vq) = vq ->
  (nth k0 (normalised vr vq) 0 == 1)%Q /\
  forall k, (k <= length vr - length vq)%nat -> (nth k (normalised vr vq) 0 <= nth k0 (normalised vr vq) 0)%Q.
Proof. intros Hr Hq Hl Hk Hp Hw. assert (E := normalised_eq_1 vr vq k0 Hr Hq Hl Hk Hp Hw). split; [exact E|].
  intros k Hk'. rewrite E. apply normalised_le_1; try assumption. rewrite norm2_nth by exact Hk'.
  pose proof (vsum_nonneg _ (is01_firstn (length vq) _ (is01_skipn k vr Hr))). unfold window. lia. Qed.

(* =============================================================================================================================
   C11: binning is mirror-symmetric on a lattice *)
Definition mirror_positions (D : Z) (ps : list Z) : list Z := map (fun p => D - p) (rev ps).

Section Lattice.
Variables (res D : Z) (m : nat).
Hypothesis Hres : 1 <= res.
Hypothesis HD : D = Z.of_nat m * res.

(* an ascending list of multiples of res inside [0, D] that contains D: the vector has exactly m+1 entries and entry i is set exactly
   when i*res is a label *)
Lemma lattice_vector ps : StronglySorted Z.le ps -> (forall p, In p ps -> 0 <= p <= D /\ (res | p)) -> In D ps ->
  let v := vectorise ps res 0 None in
  length v = S m /\ forall i, (i <= m)%nat -> (nth i v 0 = 0 \/ nth i v 0 = 1) /\ (nth i v 0 = 1 <-> In (Z.of_nat i * res) ps).
Proof. intros Hs Hall HDin v.
  assert (Hlast : last ps 0 = D).
  { pose proof (SS_le_last ps Hs D HDin). assert (Hne : ps <> []) by (intros ->; destruct HDin).
    destruct (Hall _ (last_In ps Hne)) as ((_ & Hle) & _). lia. }
  assert (Hlen : length v = S m).
  { destruct (vectorise_covers ps res 0 None Hres Hs D HDin) as (i & Hi & (B1 & B2) & _); [cbn [eff_stop]; split; [apply (Hall D HDin) | lia]|].
    fold v in Hi. assert (i = m) by nia. subst i.
    destruct (Nat.lt_ge_cases (S m) (length v)) as [L|L]; [|lia].
    destruct (vectorise_len_bound ps res 0 None Hres (S m) L) as (p & Hp & Hle). destruct (Hall p Hp) as ((_ & Hle') & _). nia. }
  split; [exact Hlen|]. intros i Hi.
  destruct (vectorise_bits ps res 0 None Hres Hs i ltac:(change (i < length v)%nat; lia)) as [(H1 & p & Hp & (B1 & B2))|(H0 & Hno)];
    change (vectorise ps res 0 None) with v in H1 || change (vectorise ps res 0 None) with v in H0.
  - split; [right; exact H1|]. split; [intros _|intros _; exact H1]. destruct (Hall p Hp) as (_ & (c & ->)).
    assert (c = Z.of_nat i) by nia. subst c. exact Hp.
  - split; [left; exact H0|]. split; [intros E; lia|]. intros Hin. exfalso. apply (Hno _ Hin). unfold inbin. lia. Qed.

Theorem lattice_vector_mirror ps : StronglySorted Z.le ps -> (forall p, In p ps -> 0 <= p <= D /\ (res | p)) -> In 0 ps -> In D ps ->
  rev (vectorise (mirror_positions D ps) res 0 None) = vectorise ps res 0 None.
Proof. intros Hs Hall H0 HDin.
  assert (Hs' : StronglySorted Z.le (mirror_positions D ps)) by (apply SS_mirror, Hs).
  assert (Hin' : forall x, In x (mirror_positions D ps) <-> exists p, In p ps /\ x = D - p).
  { intros x. unfold mirror_positions. rewrite in_map_iff. split; intros (p & A & B); exists p; [split; [apply in_rev, B | symmetry; exact A] | split; [symmetry; exact B | apply in_rev in A; exact A]]. }
  assert (Hall' : forall p, In p (mirror_positions D ps) -> 0 <= p <= D /\ (res | p)).
  { intros x Hx. apply Hin' in Hx. destruct Hx as (p & Hp & ->). destruct (Hall p Hp) as (B & (c & ->)). split; [lia|]. exists (Z.of_nat m - c). lia. }
  assert (HD' : In D (mirror_positions D ps)) by (apply Hin'; exists 0; split; [exact H0 | lia]).
  destruct (lattice_vector ps Hs Hall HDin) as (L1 & B1). destruct (lattice_vector _ Hs' Hall' HD') as (L2 & B2).
  apply (nth_ext _ _ 0 0); [rewrite rev_length; lia|]. intros i Hi. rewrite rev_length, L2 in Hi.
  rewrite rev_nth by lia. rewrite L2. replace (S m - S i)%nat with (m - i)%nat by lia.
  destruct (B1 i ltac:(lia)) as (V1 & I1). destruct (B2 (m - i)%nat ltac:(lia)) as (V2 & I2).
  apply eq01; [exact V2 | exact V1|]. rewrite I1, I2, Hin'. split.
  - intros (p & Hp & E). replace (Z.of_nat i * res) with p by nia. exact Hp.
  - intros Hp. exists (Z.of_nat i * res). split; [exact Hp | nia]. Qed.
End Lattice.

(* the lattice hypothesis of C11: ascending labels, all multiples of the resolution, the first at 0 and the last at D (a trimmed
   molecule of length D + one base pair), so D is a multiple of the resolution too *)
Definition on_grid (res D : Z) (ps : list Z) : Prop :=
  StronglySorted Z.le ps /\ Forall (fun p => (res | p)) ps /\ In 0 ps /\ In D ps /\ forall p, In p ps -> 0 <= p <= D.

Theorem sequence_mirror res D ps r : 1 <= res -> on_grid res D ps ->
  get_sequence (mirror_positions D ps) res r true 0 None = get_sequence ps res r false 0 None.
Proof. intros Hres (Hs & Hl & H0 & HD & Hb). rewrite Forall_forall in Hl. destruct (Hl D HD) as (c & Hc).
  assert (0 <= c) by (destruct (Hb D HD); nia).
  rewrite get_sequence_rev, get_sequence_fwd, <- blur_rev.
  rewrite (lattice_vector_mirror res D (Z.to_nat c) Hres ltac:(lia) ps Hs ltac:(intros p Hp; split; [apply Hb, Hp | apply Hl, Hp]) H0 HD). reflexivity. Qed.

Lemma mirror_positions_nonempty D ps : ps <> [] -> mirror_positions D ps <> [].
Proof. intros H E. apply H. unfold mirror_positions in E. apply map_eq_nil in E. destruct ps as [|x t]; [reflexivity|]. cbn [rev] in E. destruct (rev t); discriminate E. Qed.

(* hence the whole exact-arithmetic seeding computation is the same for q on '+' and mirror(q) on '-' *)
Theorem seeding_mirror res D ps r : 1 <= res -> 0 <= r -> on_grid res D ps ->
  (forall refv, xcorr refv (get_sequence (mirror_positions D ps) res (Z.to_nat r) true 0 None) = xcorr refv (get_sequence ps res (Z.to_nat r) false 0 None) /\
                correlate_valid refv (get_sequence (mirror_positions D ps) res (Z.to_nat r) true 0 None) = correlate_valid refv (get_sequence ps res (Z.to_nat r) false 0 None) /\
                normalised refv (get_sequence (mirror_positions D ps) res (Z.to_nat r) true 0 None) = normalised refv (get_sequence ps res (Z.to_nat r) false 0 None)) /\
  (forall qlen rlen rps, initial_correlation qlen (mirror_positions D ps) rlen rps res r true = initial_correlation qlen ps rlen rps res r false) /\
  (forall qlen rps peak res2 r2 margin, 1 <= res2 -> 0 <= r2 -> on_grid res2 D ps ->
     refine_correlation qlen (mirror_positions D ps) rps true peak res2 r2 margin = refine_correlation qlen ps rps false peak res2 r2 margin).
Proof. intros Hres Hr Hg.
  assert (Hne : ps <> []) by (destruct Hg as (_ & _ & H0 & _); intros ->; destruct H0).
  split; [intros refv; rewrite (sequence_mirror res D ps (Z.to_nat r) Hres Hg); repeat split; reflexivity|]. split.
  - intros qlen rlen rps. unfold initial_correlation.
    rewrite (get_sequence_py_ok _ res r true 0 None Hres Hr (mirror_positions_nonempty D ps Hne)), (get_sequence_py_ok ps res r false 0 None Hres Hr Hne).
    rewrite (sequence_mirror res D ps (Z.to_nat r) Hres Hg). reflexivity.
  - intros qlen rps peak res2 r2 margin Hres2 Hr2 Hg2. unfold refine_correlation.
    rewrite (get_sequence_py_ok _ res2 r2 true 0 None Hres2 Hr2 (mirror_positions_nonempty D ps Hne)), (get_sequence_py_ok ps res2 r2 false 0 None Hres2 Hr2 Hne).
    rewrite (sequence_mirror res2 D ps (Z.to_nat r2) Hres2 Hg2). reflexivity. Qed.

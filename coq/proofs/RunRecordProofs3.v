(* Whole-run lift, part 7: the packaged run-level statements of C02 / C18 / C07 (queries as read, and queries given trimmed), and the
   concrete run used by their non-vacuity examples (the run of proofs/ModesExamples.v, its query read with an offset of 1234.5 bp). *)
From Coq Require Import ZArith QArith List Bool Lia String Ascii Sorting.Sorted.
Import ListNotations.
Require Import Py PyProofs Pairing Core Cigar Multi Coordinator Checkers CheckersProofs Cmap Xmap Record
  RecordProofs1 RecordProofs2 RecordProofs3 RecordProofs4 XmapProofs2 ModesExamples
  RunProofs2 RunProofs3 RunProofs4 RunRecordProofs1 RunRecordProofs2.
Open Scope Z_scope.

(* the shape of every "all non-joined rows" statement about the files of a run (RunProofs3.program_run_lift): Q holds for all rows of the
   additional files _1/_2; every row of the main file has Q or is the AlignmentResultRow.resolve of two rows that have Q; in mode
   `separate` every row of every file has Q *)
Definition rows_shape (m : mode) (o : outputs) (Q : Multi.row -> Prop) : Prop :=
  (forall w, In w (opt_rows (o_1 o) ++ opt_rows (o_2 o)) -> Q w) /\
  (forall w, In w (o_main o) -> Q w \/ (m <> Separate /\ exists a b, Q a /\ Q b /\ join_rows a b = Ok w)) /\
  (m = Separate -> forall w, In w (out_rows o) -> Q w).
Lemma rows_shape_impl m o (A B : Multi.row -> Prop) : (forall w, A w -> B w) -> rows_shape m o A -> rows_shape m o B.
Proof. intros H (H1 & H2 & H3). split; [intros w Hw; apply H, H1, Hw|]. split; [|intros E w Hw; apply H, (H3 E w Hw)].
  intros w Hw. destruct (H2 w Hw) as [Ha|(Hm & a & b & Ha & Hb & Ej)]; [left; apply H, Ha|]. right. split; [exact Hm|]. exists a, b.
  split; [apply H, Ha|]. split; [apply H, Hb | exact Ej]. Qed.

(* ------------------------------------------------------------------------------------------------ C02 through the run *)
Section Packaged.
Variables (P : params) (seeds : seeding) (refs : list Pairing.omap).
Hypothesis Hsu : SU P <= 0.
Hypothesis Hms : 0 < MS P.
Hypothesis Hseeds : seeds_ok refs seeds.
Hypothesis Hrefs : forall r, In r refs -> mshift r = 0 /\ ascending r.

(* queries as read from the query CMAP; the run is on the trimmed queries (Program.__readMaps) *)
Theorem run_rows_written q0s m maxdiff o :
  (forall q0, In q0 q0s -> mshift q0 = 0 /\ ascending q0 /\ mpositions q0 <> []) -> NoDup (map mid q0s) ->
  program_run P seeds m maxdiff refs (map trim q0s) = Ok o ->
  rows_shape m o (fun w => run_record refs q0s w /\ record_written refs q0s w).
Proof. intros Hq0s Hids Hrun. apply (rows_shape_impl m o (run_record refs q0s)).
  - intros w H. split; [exact H | apply (run_record_written refs q0s w Hrefs Hq0s H)].
  - apply (run_rows_records P seeds refs q0s Hsu Hms Hseeds Hrefs Hq0s m maxdiff o Hids Hrun). Qed.

(* the same for a run that is handed trimmed queries: they are their own "as read" maps *)
Theorem run_rows_written_trimmed qq m maxdiff o : (forall q, In q qq -> trimmed q) -> NoDup (map mid qq) ->
  program_run P seeds m maxdiff refs qq = Ok o ->
  rows_shape m o (fun w => run_record refs qq w /\ record_written refs qq w).
Proof. intros Hqq Hids Hrun. rewrite <- (map_trim_trimmed qq Hqq) in Hrun.
  apply (run_rows_written qq m maxdiff o (fun q H => trimmed_query_read q (Hqq q H)) Hids Hrun). Qed.

(* ------------------------------------------------------------------------------------------------ C18 / C07 through the run *)
Hypothesis Hrid : NoDup (map mid refs).

Theorem run_files_readable_trimmed qq m maxdiff o : (forall q, In q qq -> trimmed q) -> NoDup (map mid qq) ->
  program_run P seeds m maxdiff refs qq = Ok o ->
  file_readable refs qq (opt_rows (o_1 o)) /\ file_readable refs qq (opt_rows (o_2 o)) /\
  (m = Separate -> file_readable refs qq (o_main o)) /\
  ((forall w, In w (o_main o) -> joined_row refs qq w -> row_matching refs qq w) -> file_readable refs qq (o_main o)) /\
  (forall w, In w (o_main o) -> row_matching refs qq w \/ (m <> Separate /\ joined_row refs qq w)).
Proof. intros Hqq Hids Hrun. rewrite <- (map_trim_trimmed qq Hqq) in Hrun.
  apply (run_files_readable P seeds refs qq Hsu Hms Hseeds Hrefs (fun q H => trimmed_query_read q (Hqq q H)) Hrid Hids m maxdiff o Hrun). Qed.

(* the weak form C07 asks for: the reader returns normally with one alignment per record *)
Lemma readable_total refs' q0s rows : file_readable refs' q0s rows ->
  exists xs als, mapM xrow_of rows = Ok xs /\
    xmap_read_lines (xmap_write_lines xs) (map xmap_of refs') (map xmap_of q0s) = XOk als /\ List.length als = List.length rows.
Proof. intros (xs & E & _ & _ & Er & L). exists xs. eexists. split; [exact E|]. split; [exact Er | exact L]. Qed.

Theorem run_files_read_total q0s m maxdiff o :
  (forall q0, In q0 q0s -> mshift q0 = 0 /\ ascending q0 /\ mpositions q0 <> []) -> NoDup (map mid q0s) ->
  program_run P seeds m maxdiff refs (map trim q0s) = Ok o ->
  let reads rows := exists xs als, mapM xrow_of rows = Ok xs /\
        xmap_read_lines (xmap_write_lines xs) (map xmap_of refs) (map xmap_of q0s) = XOk als /\ List.length als = List.length rows in
  reads (opt_rows (o_1 o)) /\ reads (opt_rows (o_2 o)) /\ (m = Separate -> reads (o_main o)) /\
  ((forall w, In w (o_main o) -> joined_row refs q0s w -> row_matching refs q0s w) -> reads (o_main o)).
Proof. intros Hq0s Hids Hrun reads.
  destruct (run_files_readable P seeds refs q0s Hsu Hms Hseeds Hrefs Hq0s Hrid Hids m maxdiff o Hrun) as (H1 & H2 & H3 & H4 & _).
  split; [apply readable_total, H1|]. split; [apply readable_total, H2|]. split; [intros E; apply readable_total, (H3 E)|].
  intros Hj. apply readable_total, (H4 Hj). Qed.
End Packaged.
Print Assumptions run_rows_written.
Print Assumptions run_rows_written_trimmed.
Print Assumptions run_files_readable_trimmed.
Print Assumptions run_files_read_total.

(* ------------------------------------------------------------------------------------------------ the concrete run *)
(* the query of ModesExamples as it would be read from a CMAP file whose first label sits at 1234.5 bp: trimming gives ex_query back *)
Definition rr_q0 : Pairing.omap := mkMap 7 20000000 (map (fun p => p + 12345) ex_qpos) 0.
Definition rr_refs : list Pairing.omap := [ex_ref].
Definition rr_q0s : list Pairing.omap := [rr_q0].
Lemma rr_trim : map trim rr_q0s = [ex_query].
Proof. vm_compute. reflexivity. Qed.
Lemma rr_refs_ok r : In r rr_refs -> mshift r = 0 /\ ascending r.
Proof. exact (ex_ref_ok r). Qed.
Lemma rr_q0s_ok q0 : In q0 rr_q0s -> mshift q0 = 0 /\ ascending q0 /\ mpositions q0 <> [].
Proof. intros [<-|[]]. split; [reflexivity|]. split; [apply ascb_spec; vm_compute; reflexivity | vm_compute; discriminate]. Qed.
Lemma rr_rid : NoDup (map mid rr_refs). Proof. repeat constructor. intros []. Qed.
Lemma rr_qid : NoDup (map mid rr_q0s). Proof. repeat constructor. intros []. Qed.

(* the maps the XMAP reader is given: the two CMAP files as read *)
Definition rr_R := map xmap_of rr_refs.
Definition rr_Q := map xmap_of rr_q0s.
(* one file: the fields of its data lines, and what the reader makes of the lines *)
Definition rr_file (rows : list Multi.row) :=
  match file_text rows with Ok l => Some (map (split_on TAB) l, xmap_read_lines l rr_R rr_Q) | Err => None end.
Definition rr_run (m : mode) (maxdiff : Z) :=
  match program_run ex_P ex_seeds m maxdiff rr_refs (map trim rr_q0s) with
  | Ok o => Some (rr_file (o_main o), option_map rr_file (o_1 o), option_map rr_file (o_2 o))
  | Err => None
  end.
(* the rows themselves *)
Definition rr_rows (m : mode) (maxdiff : Z) :=
  match program_run ex_P ex_seeds m maxdiff rr_refs (map trim rr_q0s) with Ok o => out_rows o | Err => [] end.
(* what C02 says the record of row w must be, from its number in the file and the two maps as read *)
Definition rr_spec (i : Z) (w : Multi.row) :=
  match cigar_runs (site_pairs (rsegs w)) with
  | Ok runs => Some (spec_fields i ex_ref rr_q0 (rrev w) (site_pairs (rsegs w)) (conf w) runs (rest w))
  | Err => None
  end.
Definition rr_text (i : Z) (w : Multi.row) :=
  match xrow_of w with Ok x => Some (split_on TAB (write_row i x)) | Err => None end.

(* what comes back from one file: number of data lines written, whether every printed record passes the boolean form of row_ok, and the
   alignments the reader returns shown as (alignmentId, queryId, referenceId, (qryStart, qryEnd, refStart, refEnd) in whole bp, reverseStrand,
   confidence in hundredths, cigarString, (qryLen, refLen) in whole bp, [(reference siteId, query siteId, distance)]); the reader was given
   the maps with positions in tenths of bp, so the distances are in tenths (the reader only looks positions up and subtracts them) *)
Definition rr_align_view (a : xalign) :=
  (a_id a, a_qid a, a_rid a, (a_qstart a, a_qend a, a_rstart a, a_rend a), a_rev a, a_conf a, a_cigar a, (a_qlen a, a_rlen a),
   map (fun x => match x with (r, _, q, _, d) => (r, q, d) end) (a_pairs a)).
Definition rr_read (rows : list Multi.row) :=
  match mapM xrow_of rows with
  | Ok xs => Some (List.length (xmap_write_lines xs), forallb (row_okb rr_R rr_Q) xs,
                   match xmap_read_lines (xmap_write_lines xs) rr_R rr_Q with XOk als => Some (map rr_align_view als) | XErr _ => None end)
  | Err => None
  end.
Definition rr_run_read (m : mode) (maxdiff : Z) :=
  match program_run ex_P ex_seeds m maxdiff rr_refs (map trim rr_q0s) with
  | Ok o => Some (rr_read (o_main o), option_map rr_read (o_1 o), option_map rr_read (o_2 o))
  | Err => None
  end.

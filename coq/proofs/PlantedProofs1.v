(* C06 (deterministic half), part 1: generic list facts and the segment builder on a score list of the shape
   [su; ...; su] ++ [x; ...; x] ++ [su; ...; su]   (unpaired labels, n equal pair scores, unpaired labels). *)
From Coq Require Import ZArith List Bool Lia Sorting.Permutation Sorting.Sorted.
Import ListNotations.
Require Import Py PyProofs Fac Psum.
Open Scope Z_scope.

(* ---------- uniqueness of sorted lists ---------- *)
Lemma sorted_unique {A} (k : A -> Z) l1 : forall l2,
  StronglySorted (fun a b => k a < k b) l1 -> StronglySorted (fun a b => k a < k b) l2 ->
  (forall x, In x l1 <-> In x l2) -> l1 = l2.
Proof.
  induction l1 as [|x t1 IH]; intros l2 H1 H2 Hin.
  - destruct l2 as [|y t2]; [reflexivity|]. exfalso. apply (proj2 (Hin y)). left. reflexivity.
  - destruct l2 as [|y t2]; [exfalso; apply (proj1 (Hin x)); left; reflexivity|].
    inversion H1 as [|? ? Ht1 Hx]; subst. inversion H2 as [|? ? Ht2 Hy]; subst. rewrite Forall_forall in Hx, Hy.
    assert (E : x = y).
    { destruct (proj1 (Hin x) (or_introl eq_refl)) as [E|Hx2]; [symmetry; exact E|].
      destruct (proj2 (Hin y) (or_introl eq_refl)) as [E|Hy1]; [exact E|].
      specialize (Hx y Hy1). specialize (Hy x Hx2). lia. }
    subst y. f_equal. apply IH; [exact Ht1 | exact Ht2 |]. intros z. split; intros Hz.
    + destruct (proj1 (Hin z) (or_intror Hz)) as [E|Hz2]; [|exact Hz2]. subst z. specialize (Hx x Hz). lia.
    + destruct (proj2 (Hin z) (or_intror Hz)) as [E|Hz1]; [|exact Hz1]. subst z. specialize (Hy x Hz). lia.
Qed.

Lemma sorted_perm_unique {A} (k : A -> Z) l2 : forall l1,
  StronglySorted (fun a b => k a <= k b) l1 -> StronglySorted (fun a b => k a < k b) l2 ->
  Permutation l1 l2 -> l1 = l2.
Proof.
  induction l2 as [|x t2 IH]; intros l1 H1 H2 Hp.
  - apply Permutation_sym, Permutation_nil in Hp. exact Hp.
  - destruct l1 as [|y t1]; [apply Permutation_nil in Hp; discriminate|].
    inversion H1 as [|? ? Ht1 Hy]; subst. inversion H2 as [|? ? Ht2 Hx]; subst. rewrite Forall_forall in Hx, Hy.
    assert (E : y = x).
    { assert (Hy2 : In y (x :: t2)) by (apply (Permutation_in _ Hp); left; reflexivity).
      assert (Hx1 : In x (y :: t1)) by (apply (Permutation_in _ (Permutation_sym Hp)); left; reflexivity).
      destruct Hy2 as [E|Hy2]; [symmetry; exact E|]. destruct Hx1 as [E|Hx1]; [exact E|].
      specialize (Hx y Hy2). specialize (Hy x Hx1). lia. }
    subst y. f_equal. apply IH; [exact Ht1 | exact Ht2 | apply (Permutation_cons_inv Hp)].
Qed.

Lemma sort_by_strict_id {A} (k : A -> Z) l : StronglySorted (fun a b => k a < k b) l -> sort_by k l = l.
Proof. intros H. apply (sorted_perm_unique k); [apply sort_by_sorted | exact H | apply sort_by_perm]. Qed.

Lemma SS_map_inv' {A B} (f : A -> B) (T : B -> B -> Prop) l : StronglySorted T (map f l) -> StronglySorted (fun a b => T (f a) (f b)) l.
Proof. induction l as [|x t IH]; intros H; [constructor|]. cbn [map] in H. inversion H as [|? ? Ht Hx]; subst.
  constructor; [apply IH; exact Ht|]. rewrite Forall_forall in *. intros y Hy. apply Hx. apply in_map. exact Hy. Qed.

Lemma SS_firstn {A} (T : A -> A -> Prop) n l : StronglySorted T l -> StronglySorted T (firstn n l).
Proof. intros H. rewrite <- (firstn_skipn n l) in H. revert H. generalize (firstn n l) (skipn n l). clear.
  induction l as [|x t IH]; intros l2 H; [constructor|]. cbn [app] in H. inversion H as [|? ? Ht Hx]; subst.
  constructor; [apply (IH l2); exact Ht|]. rewrite Forall_forall in *. intros y Hy. apply Hx. apply in_app_iff. left. exact Hy. Qed.
Lemma SS_skipn {A} (T : A -> A -> Prop) n l : StronglySorted T l -> StronglySorted T (skipn n l).
Proof. revert l; induction n as [|n IH]; intros l H; [exact H|]. destruct l as [|x t]; [constructor|]. cbn [skipn]. apply IH.
  inversion H; assumption. Qed.

Lemma SS_nth_le l : StronglySorted Z.le l -> forall i j, (i <= j < length l)%nat -> nth i l 0 <= nth j l 0.
Proof. induction 1 as [|x t Ht IH Hx]; intros i j Hij; [cbn in Hij; lia|]. rewrite Forall_forall in Hx.
  destruct i as [|i], j as [|j]; cbn [nth length] in *; [lia | | lia |].
  - apply Hx. apply nth_In. lia.
  - apply IH. lia. Qed.

Lemma nth_firstn' {A} (d : A) : forall n (l : list A) k, (k < n)%nat -> nth k (firstn n l) d = nth k l d.
Proof. induction n as [|n IH]; intros l k Hk; [lia|]. destruct l as [|x t]; [destruct k; reflexivity|]. destruct k as [|k]; [reflexivity|]. cbn [firstn nth]. apply IH. lia. Qed.
Lemma nth_skipn' {A} (d : A) : forall n (l : list A) k, nth k (skipn n l) d = nth (n + k) l d.
Proof. induction n as [|n IH]; intros l k; [reflexivity|]. destruct l as [|x t]; [destruct k; reflexivity|]. cbn [skipn Nat.add nth]. apply IH. Qed.

Lemma firstn_skipn_middle {A} (a b c : list A) : firstn (length b) (skipn (length a) (a ++ b ++ c)) = b.
Proof. rewrite skipn_app, skipn_all, Nat.sub_diag. cbn [skipn app]. rewrite firstn_app, firstn_all, Nat.sub_diag. cbn [firstn]. apply app_nil_r. Qed.

(* a list cut at two indexes *)
Lemma three_parts {A} (a n : nat) (l : list A) : l = firstn a l ++ firstn n (skipn a l) ++ skipn (a + n) l.
Proof. rewrite <- (firstn_skipn a l) at 1. f_equal. rewrite <- (firstn_skipn n (skipn a l)) at 1. f_equal.
  rewrite skipn_skipn'. f_equal. lia. Qed.

(* ---------- neighbouring gaps ---------- *)
(* consec_gt g l: every two NEIGHBOURING elements of l are more than g apart (and ascending) *)
Fixpoint consec_gt (g : Z) (l : list Z) : Prop :=
  match l with
  | x :: (y :: _) as t => x + g < y /\ consec_gt g t
  | _ => True
  end.
Lemma consec_gt_SS g l : 0 <= g -> consec_gt g l -> StronglySorted (fun x y => x + g < y) l.
Proof. intros Hg. induction l as [|x t IH]; intros H; [constructor|]. destruct t as [|y t'].
  - repeat constructor.
  - cbn [consec_gt] in H. destruct H as (Hxy & Ht). specialize (IH Ht). constructor; [exact IH|].
    inversion IH as [|? ? _ Hy]; subst. rewrite Forall_forall in *. intros z [<-|Hz]; [exact Hxy|]. specialize (Hy z Hz). lia. Qed.

Lemma consec_gt_mono g g' l : g' <= g -> consec_gt g l -> consec_gt g' l.
Proof. intros Hg. induction l as [|x t IH]; intros H; [exact I|]. destruct t as [|y t']; [exact I|].
  cbn [consec_gt] in *. destruct H as (H1 & H2). split; [lia | apply IH; exact H2]. Qed.

(* ---------- the segment builder on  su^u ++ x^n ++ su^v ---------- *)
Section FacRep.
Variables ms bs su x : Z.
Hypothesis Hms : 0 < ms.
Hypothesis Hsu : su <= 0.
Hypothesis Hx : 0 < x.
Hypothesis Hxb : 0 < x + bs.

Lemma lead_step c res : fstep ms bs (mkF c c 0 None res) su = mkF (S c) (S c) 0 None res.
Proof. unfold fstep, add_if_enough, cur_score. cbn [ext cur cend cstart fres].
  destruct (0 + su <=? Z.max 0 (0 - bs)) eqn:E; [|apply Z.leb_gt in E; lia].
  destruct (ms <=? 0) eqn:E2; [apply Z.leb_le in E2; lia|]. reflexivity. Qed.
Lemma lead_run u : forall c res, fold_left (fstep ms bs) (repeat su u) (mkF c c 0 None res) = mkF (c + u) (c + u) 0 None res.
Proof. induction u as [|u IH]; intros c res; cbn [repeat fold_left]; [rewrite Nat.add_0_r; reflexivity|].
  rewrite lead_step, IH. replace (S c + u)%nat with (c + S u)%nat by lia. reflexivity. Qed.

Definition pst (c j : nat) (res : list (nat * nat * Z)) : fst_ :=
  mkF c (c + j) (Z.of_nat j * x) (match j with O => None | S _ => Some (c, (c + j)%nat, Z.of_nat j * x) end) res.
Lemma pair_step c j res : fstep ms bs (pst c j res) x = pst c (S j) res.
Proof. unfold fstep, pst. cbn [ext cur cend cstart fres].
  assert (Ecs : cur_score (mkF c (c + j) (Z.of_nat j * x) (match j with O => None | S _ => Some (c, (c + j)%nat, Z.of_nat j * x) end) res) = Z.of_nat j * x).
  { unfold cur_score. cbn [cur]. destruct j; [reflexivity | reflexivity]. }
  rewrite Ecs. replace (Z.of_nat j * x + x) with (Z.of_nat (S j) * x) by lia.
  destruct (Z.of_nat (S j) * x <=? Z.max 0 (Z.of_nat j * x - bs)) eqn:E; [apply Z.leb_le in E; lia|].
  destruct (Z.of_nat j * x <? Z.of_nat (S j) * x) eqn:E2; [|apply Z.ltb_ge in E2; lia].
  replace (S (c + j)) with (c + S j)%nat by lia. reflexivity. Qed.
Lemma pair_run n : forall c j res, fold_left (fstep ms bs) (repeat x n) (pst c j res) = pst c (j + n) res.
Proof. induction n as [|n IH]; intros c j res; cbn [repeat fold_left]; [rewrite Nat.add_0_r; reflexivity|].
  rewrite pair_step, IH. replace (S j + n)%nat with (j + S n)%nat by lia. reflexivity. Qed.

Variables (ra rb : nat) (rx : Z).
Hypothesis Hr : ms <= rx.
Definition tail_ok (s : fst_) : Prop :=
  (cur s = Some (ra, rb, rx) /\ fres s = [] /\ ext s <= rx) \/ (cur s = None /\ fres s = [(ra, rb, rx)] /\ ext s = 0).
Lemma tail_step s : tail_ok s -> tail_ok (fstep ms bs s su).
Proof. intros [(Hc & Hf & He)|(Hc & Hf & He)]; unfold fstep, add_if_enough, cur_score; rewrite Hc.
  - destruct (ext s + su <=? Z.max 0 (rx - bs)) eqn:E.
    + destruct (ms <=? rx) eqn:E2; [|apply Z.leb_gt in E2; lia]. right. cbn [cur fres ext]. rewrite Hf. auto.
    + destruct (rx <? ext s + su) eqn:E2; [apply Z.ltb_lt in E2; lia|]. left. cbn [cur fres ext]. repeat split; [exact Hf | lia].
  - destruct (ext s + su <=? Z.max 0 (0 - bs)) eqn:E; [|apply Z.leb_gt in E; lia].
    destruct (ms <=? 0) eqn:E2; [apply Z.leb_le in E2; lia|]. right. cbn [cur fres ext]. auto. Qed.
Lemma tail_run v : forall s, tail_ok s -> tail_ok (fold_left (fstep ms bs) (repeat su v) s).
Proof. induction v as [|v IH]; intros s H; cbn [repeat fold_left]; [exact H|]. apply IH, tail_step, H. Qed.
Lemma tail_final s : tail_ok s -> fres (add_if_enough ms s) = [(ra, rb, rx)].
Proof. intros [(Hc & Hf & He)|(Hc & Hf & He)]; unfold add_if_enough, cur_score; rewrite Hc.
  - destruct (ms <=? rx) eqn:E2; [|apply Z.leb_gt in E2; lia]. cbn [fres]. rewrite Hf. reflexivity.
  - destruct (ms <=? 0) eqn:E2; [apply Z.leb_le in E2; lia|]. exact Hf. Qed.
End FacRep.

Theorem factory_three_blocks ms bs su x u n v :
  0 < ms -> su <= 0 -> 0 < x -> 0 < x + bs -> ms <= Z.of_nat n * x ->
  factory_ranges ms bs (repeat su u ++ repeat x n ++ repeat su v) = [(u, (u + n)%nat, Z.of_nat n * x)].
Proof.
  intros Hms Hsu Hx Hxb Hn. unfold factory_ranges, frun, finit. rewrite !fold_left_app.
  rewrite (lead_run ms bs su Hms Hsu u 0 []). cbn [Nat.add].
  replace (mkF u u 0 None []) with (pst x u 0 []) by (unfold pst; rewrite Nat.add_0_r; reflexivity).
  rewrite (pair_run ms bs x Hx Hxb n u 0 []). cbn [Nat.add].
  apply (tail_final ms Hms u (u + n)%nat (Z.of_nat n * x) Hn).
  apply (tail_run ms bs su Hms Hsu u (u + n)%nat (Z.of_nat n * x) Hn).
  left. unfold pst. cbn [cur fres ext]. destruct n as [|n]; [cbn in Hn; lia|]. repeat split. lia.
Qed.

Print Assumptions factory_three_blocks.

(* find_peaks, continued: the local maxima come in ascending order of position; the stable argsort is an argsort; the distance
   condition stated on the peak lists; a global maximum whose plateau does not touch the edges is found. *)
From Coq Require Import ZArith QArith List Bool Lia Sorting.Sorted Sorting.Permutation.
Import ListNotations.
Require Import Py FindPeaks DPProofs ResolverProofs1 FacProofs PairingProofs2 FindPeaksProofs1 FindPeaksProofs2.
Open Scope nat_scope.

Notation by_pos := (fun a b => fst a < fst b).

Section Order.
Context {A : Type}.
Variable leb : A -> A -> bool.
Hypothesis leb_total : forall a b, leb a b = true \/ leb b a = true.
Hypothesis leb_trans : forall a b c, leb a b = true -> leb b c = true -> leb a c = true.
Notation ltb := (ltb leb).
Notation eqb := (eqb leb).
Variable dflt : A.

(* ------------------------------------------------------------------------------------------------ ascending positions *)
Lemma lm_loop_sorted : forall fuel prev i l,
  StronglySorted by_pos (lm_loop leb fuel prev i l) /\ forall p, In p (lm_loop leb fuel prev i l) -> i <= fst p.
Proof. induction fuel as [|fuel IH]; intros prev i l; cbn [lm_loop]; [split; [constructor | intros p []]|].
  destruct l as [|xi rest]; [split; [constructor | intros p []]|]. destruct rest as [|a l0] eqn:Er; [split; [constructor | intros p []]|]. rewrite <- Er.
  assert (Hnext : StronglySorted by_pos (lm_loop leb fuel xi (S i) rest) /\ forall p, In p (lm_loop leb fuel xi (S i) rest) -> i <= fst p).
  { destruct (IH xi (S i) rest) as (H1 & H2). split; [exact H1|]. intros p Hp. specialize (H2 p Hp). lia. }
  destruct (ltb prev xi); [|exact Hnext]. destruct (skipn (ahead leb xi rest) rest) as [|xa after]; [exact Hnext|].
  destruct (ltb xa xi); [|exact Hnext]. destruct (IH xa (i + ahead leb xi rest + 2) after) as (H1 & H2). split.
  - constructor; [exact H1|]. apply Forall_forall. intros p Hp. specialize (H2 p Hp). cbn [fst]. pose proof (div2_le (ahead leb xi rest)). lia.
  - intros p [<-|Hp]; [cbn [fst]; lia|]. specialize (H2 p Hp). lia. Qed.
Theorem local_maxima_sorted x : StronglySorted by_pos (local_maxima leb x).
Proof. unfold local_maxima. destruct x as [|x0 t]; [constructor|]. apply lm_loop_sorted. Qed.
Theorem find_peaks_ord_sorted hok d pok x : StronglySorted by_pos (find_peaks_ord leb hok d pok x).
Proof. apply (SS_Sub _ _ _ (find_peaks_ord_sub leb hok d pok x) (local_maxima_sorted x)). Qed.

Lemma sorted_nth (l : list (nat * A)) : StronglySorted by_pos l -> forall a b, a < b < length (map fst l) -> nth a (map fst l) 0 < nth b (map fst l) 0.
Proof. induction 1 as [|p l Hs IH Hf]; intros a b H; [cbn in H; lia|]. cbn [map length] in H. destruct b as [|b]; [lia|]. cbn [map nth].
  destruct a as [|a]; [|apply IH; lia]. rewrite Forall_forall in Hf. change 0 with (fst (0, dflt)) at 1. rewrite map_nth.
  apply Hf. apply nth_In. rewrite map_length in H. lia. Qed.

(* ------------------------------------------------------------------------------------------------ the stable argsort is an argsort *)
Notation by_key := (fun a b : nat * A => leb (snd a) (snd b) = true).
Lemma ins_asc_perm x : forall l, Permutation (ins_asc leb x l) (x :: l).
Proof. induction l as [|y t IH]; cbn [ins_asc]; [apply Permutation_refl|]. destruct (leb (snd x) (snd y)); [apply Permutation_refl|].
  apply (Permutation_trans (perm_skip y IH)). apply perm_swap. Qed.
Lemma ins_asc_sorted x : forall l, StronglySorted by_key l -> StronglySorted by_key (ins_asc leb x l).
Proof. induction l as [|y t IH]; intros Hs; cbn [ins_asc]; [constructor; constructor|]. inversion Hs as [|? ? Hs' Hf]; subst. rewrite Forall_forall in Hf.
  destruct (leb (snd x) (snd y)) eqn:E.
  - constructor; [exact Hs|]. apply Forall_forall. intros z [<-|Hz]; [exact E | apply (leb_trans _ (snd y)); [exact E | apply Hf, Hz]].
  - constructor; [apply IH, Hs'|]. apply Forall_forall. intros z Hz. apply (Permutation_in _ (ins_asc_perm x t)) in Hz. destruct Hz as [<-|Hz]; [|apply Hf, Hz].
    destruct (leb_total (snd y) (snd x)) as [H|H]; [exact H | congruence]. Qed.
Lemma sort_asc_spec l : Permutation (fold_right (ins_asc leb) [] l) l /\ StronglySorted by_key (fold_right (ins_asc leb) [] l).
Proof. induction l as [|x t (IH1 & IH2)]; cbn [fold_right]; [split; [apply Permutation_refl | constructor]|]. split.
  - apply (Permutation_trans (ins_asc_perm x _)). apply perm_skip, IH1.
  - apply ins_asc_sorted, IH2. Qed.

Lemma combine_seq_fst : forall (ps : list A) s, map fst (combine (seq s (length ps)) ps) = seq s (length ps).
Proof. induction ps as [|a ps IH]; intros s; [reflexivity|]. cbn [length seq combine map fst]. rewrite IH. reflexivity. Qed.
Lemma combine_seq_in : forall (ps : list A) s j a, In (j, a) (combine (seq s (length ps)) ps) -> s <= j < s + length ps /\ a = nth (j - s) ps dflt.
Proof. induction ps as [|b ps IH]; intros s j a H; [destruct H|]. cbn [length seq combine] in H. destruct H as [E|H].
  - injection E as <- <-. rewrite Nat.sub_diag. cbn [length nth]. split; [lia | reflexivity].
  - destruct (IH (S s) j a H) as (H1 & H2). cbn [length]. split; [lia|]. replace (j - s) with (S (j - S s)) by lia. exact H2. Qed.

Lemma SS_impl_in {B} (R S : B -> B -> Prop) l : (forall a b, In a l -> In b l -> R a b -> S a b) -> StronglySorted R l -> StronglySorted S l.
Proof. intros H Hs. induction Hs as [|a l Hs IH Hf]; [constructor|]. constructor.
  - apply IH. intros x y Hx Hy. apply H; right; assumption.
  - rewrite Forall_forall in *. intros y Hy. apply H; [left; reflexivity | right; exact Hy | apply Hf, Hy]. Qed.
Theorem argsort_valid (pos : list nat) (ps : list A) : length pos = length ps ->
  valid_argsort leb pos (fun j => nth j ps dflt) (argsort leb ps).
Proof. intros Hl. unfold valid_argsort, argsort. rewrite Hl. destruct (sort_asc_spec (combine (seq 0 (length ps)) ps)) as (Hp & Hs). split.
  - apply (Permutation_trans (Permutation_map fst Hp)). rewrite combine_seq_fst. apply Permutation_refl.
  - apply SS_map. refine (SS_impl_in _ _ _ _ Hs). intros a b Ha Hb H.
    destruct a as [ja va], b as [jb vb]. cbn [fst snd] in *.
    destruct (combine_seq_in ps 0 ja va (Permutation_in _ Hp Ha)) as (_ & Ea). destruct (combine_seq_in ps 0 jb vb (Permutation_in _ Hp Hb)) as (_ & Eb).
    rewrite Nat.sub_0_r in Ea, Eb. rewrite <- Ea, <- Eb. exact H. Qed.

(* ------------------------------------------------------------------------------------------------ the distance condition on peak lists *)
(* kept peaks are at least d apart; a removed peak is closer than d to a kept peak of at least its own height *)
Theorem select_distance_ord_spec ord d (peaks : list (nat * A)) : StronglySorted by_pos peaks ->
  valid_argsort leb (map fst peaks) (fun j => nth j (map snd peaks) dflt) ord ->
  let kept := select_distance_ord ord d peaks in
  Sub kept peaks /\
  (forall p q, In p kept -> In q kept -> fst p < fst q -> d <= fst q - fst p) /\
  (forall p, In p peaks -> ~ In p kept ->
     exists q, In q kept /\ fst q - fst p < d /\ fst p - fst q < d /\ leb (snd p) (snd q) = true).
Proof. intros Hs Hv kept. split; [apply Sub_mask|].
  pose proof (sorted_nth peaks Hs) as Hasc.
  destruct (distance_loop_spec leb d (map fst peaks) Hasc _ ord Hv) as (Hl & HA & HB). rewrite map_length in Hl, HA, HB.
  fold (select_by_distance_ord ord peaks d) in *. set (keep := select_by_distance_ord ord peaks d) in *.
  assert (Hpos : forall k, nth k (map fst peaks) 0 = fst (nth k peaks (0, dflt))) by (intros k; change 0 with (fst (0, dflt)) at 1; apply map_nth).
  assert (Hval : forall k, nth k (map snd peaks) dflt = snd (nth k peaks (0, dflt))) by (intros k; change dflt with (snd (0, dflt)) at 1; apply map_nth).
  assert (Hmono : forall j k, j < length peaks -> k < length peaks -> fst (nth j peaks (0, dflt)) < fst (nth k peaks (0, dflt)) -> j < k).
  { intros j k Hj Hk Hlt. destruct (Nat.lt_trichotomy j k) as [L|[->|L]]; [exact L | lia|].
    pose proof (Hasc k j ltac:(rewrite map_length; lia)) as H. rewrite !Hpos in H. lia. }
  split.
  - intros p q Hp Hq Hlt. unfold kept, select_distance_ord in Hp, Hq. apply (mask_in (0, dflt)) in Hp. apply (mask_in (0, dflt)) in Hq.
    destruct Hp as (j & Hj & <- & Kj). destruct Hq as (k & Hk & <- & Kk). pose proof (Hmono j k Hj Hk Hlt) as Hjk.
    pose proof (HA j k Hj Hk ltac:(lia) Kj Kk) as Hn. unfold near in Hn. destruct (k <? j) eqn:E; [apply Nat.ltb_lt in E; lia|].
    apply Nat.ltb_ge in Hn. rewrite !Hpos in Hn. exact Hn.
  - intros p Hp Hnk. destruct (In_nth _ _ (0, dflt) Hp) as (k & Hk & Ek).
    assert (Kk : nth k keep false = false).
    { destruct (nth k keep false) eqn:E; [|reflexivity]. exfalso. apply Hnk. unfold kept, select_distance_ord. apply (mask_in (0, dflt)). exists k. repeat split; assumption. }
    destruct (HB k Hk Kk) as (j & Hj & Hne & Kj & Hnear & Hprio). exists (nth j peaks (0, dflt)). split.
    { unfold kept, select_distance_ord. apply (mask_in (0, dflt)). exists j. repeat split; assumption. }
    rewrite !Hval in Hprio. rewrite <- Ek. split; [|split; [|exact Hprio]].
    + unfold near in Hnear. rewrite !Hpos in Hnear. destruct (k <? j) eqn:E; apply Nat.ltb_lt in Hnear; [lia|]. apply Nat.ltb_ge in E.
      pose proof (Hasc j k ltac:(rewrite map_length; lia)) as H. rewrite !Hpos in H. lia.
    + unfold near in Hnear. rewrite !Hpos in Hnear. destruct (k <? j) eqn:E; apply Nat.ltb_lt in Hnear; [|lia]. apply Nat.ltb_lt in E.
      pose proof (Hasc k j ltac:(rewrite map_length; lia)) as H. rewrite !Hpos in H. lia. Qed.

(* ... in particular for the stable argsort *)
Theorem select_distance_spec d (peaks : list (nat * A)) : StronglySorted by_pos peaks ->
  let kept := select_distance leb d peaks in
  Sub kept peaks /\
  (forall p q, In p kept -> In q kept -> fst p < fst q -> d <= fst q - fst p) /\
  (forall p, In p peaks -> ~ In p kept ->
     exists q, In q kept /\ fst q - fst p < d /\ fst p - fst q < d /\ leb (snd p) (snd q) = true).
Proof. intros Hs. apply (select_distance_ord_spec (argsort leb (map snd peaks)) d peaks Hs). apply argsort_valid. rewrite !map_length. reflexivity. Qed.
End Order.

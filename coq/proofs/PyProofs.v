From Coq Require Import ZArith List Bool Lia Sorting.Permutation Sorting.Sorted.
Import ListNotations.
Require Import Py.
Open Scope Z_scope.

Section S.
Context {A : Type}.
Variable k : A -> Z.

(* ---------- sort_by ---------- *)
Lemma insert_by_perm x l : Permutation (insert_by k x l) (x :: l).
Proof. induction l as [|y t IH]; cbn [insert_by]; [reflexivity|].
  destruct (k x <=? k y); [reflexivity|]. rewrite IH. apply perm_swap. Qed.
Lemma sort_by_perm l : Permutation (sort_by k l) l.
Proof. induction l as [|x t IH]; cbn; [reflexivity|]. unfold sort_by in *. cbn [fold_right].
  rewrite insert_by_perm. constructor. exact IH. Qed.
Lemma sort_by_in x l : In x (sort_by k l) <-> In x l.
Proof. split; apply Permutation_in; [|symmetry]; apply sort_by_perm. Qed.

Definition ksorted (l : list A) : Prop := StronglySorted (fun a b => k a <= k b) l.
Lemma insert_by_sorted x l : ksorted l -> ksorted (insert_by k x l).
Proof. unfold ksorted. induction l as [|y t IH]; intros H; cbn [insert_by].
  - repeat constructor.
  - inversion H as [|? ? Ht Hy]; subst. destruct (k x <=? k y) eqn:E.
    + apply Z.leb_le in E. constructor; [exact H|]. constructor; [exact E|].
      rewrite Forall_forall in *. intros z Hz. specialize (Hy z Hz). lia.
    + apply Z.leb_gt in E. constructor; [apply IH; exact Ht|].
      rewrite Forall_forall in *. intros z Hz. apply (Permutation_in _ (insert_by_perm x t)) in Hz.
      destruct Hz as [<-|Hz]; [lia | apply Hy; exact Hz].
Qed.
Lemma sort_by_sorted l : ksorted (sort_by k l).
Proof. induction l as [|x t IH]; [constructor|]. unfold sort_by in *. cbn [fold_right]. apply insert_by_sorted, IH. Qed.

(* stability: the elements with a given key keep their original relative order *)
Lemma insert_by_filter c x l :
  filter (fun y => k y =? c) (insert_by k x l) = if k x =? c then x :: filter (fun y => k y =? c) l else filter (fun y => k y =? c) l.
Proof. induction l as [|y t IH]; cbn [insert_by filter]; [reflexivity|].
  destruct (k x <=? k y) eqn:E; cbn [filter]; [reflexivity|]. apply Z.leb_gt in E. rewrite IH.
  destruct (k y =? c) eqn:Ey, (k x =? c) eqn:Ex; try reflexivity.
  apply Z.eqb_eq in Ey, Ex. lia. Qed.
Lemma sort_by_filter c l : filter (fun y => k y =? c) (sort_by k l) = filter (fun y => k y =? c) l.
Proof. induction l as [|x t IH]; [reflexivity|]. unfold sort_by in *. cbn [fold_right]. rewrite insert_by_filter, IH. reflexivity. Qed.

(* ---------- groupby ---------- *)
Lemma groupby_concat l : concat (groupby k l) = l.
Proof. induction l as [|x t IH]; [reflexivity|]. cbn [groupby].
  destruct (groupby k t) as [|[|y g] gs] eqn:E.
  - cbn in IH. subst t. reflexivity.
  - cbn in *. subst t. reflexivity.
  - destruct (k x =? k y); cbn in *; rewrite <- IH; reflexivity. Qed.

Definition group_ok (g : list A) : Prop := g <> [] /\ forall a b, In a g -> In b g -> k a = k b.
Lemma groupby_groups l : Forall group_ok (groupby k l).
Proof. induction l as [|x t IH]; [constructor|]. cbn [groupby].
  destruct (groupby k t) as [|[|y g] gs] eqn:E.
  - repeat constructor; [congruence| intros a b [<-|[]] [<-|[]]; reflexivity].
  - inversion IH as [|? ? [Hne _] _]; congruence.
  - inversion IH as [|? ? [Hne Heq] Hgs]; subst. destruct (k x =? k y) eqn:Ek.
    + apply Z.eqb_eq in Ek. constructor; [|exact Hgs]. split; [congruence|].
      intros a b Ha Hb. assert (Hy : In y (y :: g)) by (left; reflexivity).
      destruct Ha as [<-|Ha], Hb as [<-|Hb]; try reflexivity.
      * rewrite Ek. apply Heq; assumption.
      * rewrite Ek. symmetry. apply Heq; assumption.
      * apply Heq; assumption.
    + constructor; [split; [congruence| intros a b [<-|[]] [<-|[]]; reflexivity]|]. constructor; [split; assumption | exact Hgs].
Qed.

Definition gkey (g : list A) (d : Z) : Z := match g with [] => d | x :: _ => k x end.
(* on a key-sorted list the group keys strictly increase *)
Lemma groupby_keys_sorted l : ksorted l -> StronglySorted Z.lt (map (fun g => gkey g 0) (groupby k l)).
Proof. unfold ksorted. induction l as [|x t IH]; intros H; [constructor|]. cbn [groupby].
  inversion H as [|? ? Ht Hx]; subst. specialize (IH Ht).
  pose proof (groupby_groups t) as Hok.
  destruct (groupby k t) as [|[|y g] gs] eqn:E; cbn [map gkey].
  - repeat constructor.
  - inversion Hok as [|? ? [Hne _] _]; congruence.
  - assert (Hy : In y t). { rewrite <- (groupby_concat t), E. cbn. left. reflexivity. }
    rewrite Forall_forall in Hx. pose proof (Hx y Hy) as Hxy.
    cbn [map gkey] in IH. inversion IH as [|? ? IHt IHy]; subst.
    destruct (k x =? k y) eqn:Ek; cbn [map gkey].
    + apply Z.eqb_eq in Ek. constructor; [exact IHt|]. rewrite Ek. exact IHy.
    + apply Z.eqb_neq in Ek. constructor; [exact IH|]. constructor; [lia|].
      rewrite Forall_forall in *. intros z Hz. specialize (IHy z Hz). lia.
Qed.

Lemma filter_concat (p : A -> bool) (ls : list (list A)) : filter p (concat ls) = concat (map (filter p) ls).
Proof. induction ls as [|g gs IH]; [reflexivity|]. cbn. rewrite filter_app, IH. reflexivity. Qed.
Lemma filter_all (p : A -> bool) l : (forall x, In x l -> p x = true) -> filter p l = l.
Proof. induction l as [|x t IH]; intros H; [reflexivity|]. cbn. rewrite (H x (or_introl eq_refl)). f_equal. apply IH. intros; apply H; right; assumption. Qed.
Lemma filter_none (p : A -> bool) l : (forall x, In x l -> p x = false) -> filter p l = [].
Proof. induction l as [|x t IH]; intros H; [reflexivity|]. cbn. rewrite (H x (or_introl eq_refl)). apply IH. intros; apply H; right; assumption. Qed.

Lemma later_groups_filter_nil c (gs : list (list A)) :
  Forall group_ok gs -> (forall g, In g gs -> c < gkey g 0) ->
  concat (map (filter (fun y => k y =? c)) gs) = [].
Proof.
  induction gs as [|g gs IH]; intros Hok Hlt; [reflexivity|]. cbn [map concat].
  inversion Hok as [|? ? [Hne Heq] Hoks]; subst.
  rewrite filter_none, IH; [reflexivity | exact Hoks | intros g' Hg'; apply Hlt; right; exact Hg' |].
  intros z Hz. apply Z.eqb_neq. pose proof (Hlt g (or_introl eq_refl)) as L.
  destruct g as [|w g']; [destruct Hz|]. cbn [gkey] in L. rewrite (Heq z w Hz (or_introl eq_refl)). lia.
Qed.

(* every group of groupby (on a sorted list) is the filter of the list by that group's key *)
Lemma groups_are_filters (gs : list (list A)) :
  Forall group_ok gs -> StronglySorted Z.lt (map (fun g => gkey g 0) gs) ->
  forall g, In g gs -> g = filter (fun y => k y =? gkey g 0) (concat gs).
Proof.
  induction gs as [|h gs IH]; intros Hok Hs g Hg; [destruct Hg|].
  inversion Hok as [|? ? [Hne Heq] Hoks]; subst. cbn [map] in Hs. inversion Hs as [|? ? Hss Hlt]; subst.
  cbn [concat]. rewrite filter_app. rewrite Forall_forall in Hlt.
  destruct Hg as [<-|Hg].
  - rewrite filter_all, filter_concat, later_groups_filter_nil, app_nil_r; [reflexivity | exact Hoks | |].
    + intros g' Hg'. apply Hlt. apply (in_map (fun g => gkey g 0)). exact Hg'.
    + intros z Hz. apply Z.eqb_eq. destruct h as [|w h']; [congruence|]. cbn [gkey]. apply Heq; [exact Hz | left; reflexivity].
  - rewrite filter_none.
    + cbn [app]. apply IH; assumption.
    + intros z Hz. apply Z.eqb_neq. assert (L := Hlt (gkey g 0) (in_map (fun g => gkey g 0) _ _ Hg)).
      destruct h as [|w h']; [congruence|]. cbn [gkey] in L. rewrite (Heq z w Hz (or_introl eq_refl)). lia.
Qed.

Theorem groupby_sort_by_filter l g :
  In g (groupby k (sort_by k l)) -> g <> [] /\ g = filter (fun y => k y =? gkey g 0) l.
Proof.
  intros Hg. pose proof (groupby_groups (sort_by k l)) as Hok.
  pose proof (groupby_keys_sorted _ (sort_by_sorted l)) as Hs.
  split. { rewrite Forall_forall in Hok. apply (Hok g Hg). }
  rewrite (groups_are_filters _ Hok Hs g Hg) at 1. rewrite groupby_concat, sort_by_filter. reflexivity.
Qed.

Theorem groupby_sort_by_keys l : StronglySorted Z.lt (map (fun g => gkey g 0) (groupby k (sort_by k l))).
Proof. apply groupby_keys_sorted, sort_by_sorted. Qed.

Theorem groupby_sort_by_covers l x : In x l -> exists g, In g (groupby k (sort_by k l)) /\ In x g.
Proof. intros Hx. apply sort_by_in in Hx. rewrite <- (groupby_concat (sort_by k l)) in Hx.
  apply in_concat in Hx. destruct Hx as (g & Hg & Hxg). exists g; split; assumption. Qed.
End S.

(* ---------- min_by: first minimum ---------- *)
Section M.
Context {A : Type}.
Variable k : A -> Z.
Lemma min_by_aux_spec best l :
  let m := min_by_aux k best l in
  In m (best :: l) /\ (forall y, In y (best :: l) -> k m <= k y).
Proof. revert best; induction l as [|x t IH]; intros best; cbn [min_by_aux].
  - split; [left; reflexivity| intros y [<-|[]]; lia].
  - destruct (k x <? k best) eqn:E.
    + apply Z.ltb_lt in E. destruct (IH x) as (Hin & Hmin). split.
      * destruct Hin as [<-|Hin]; [right; left; reflexivity| right; right; exact Hin].
      * intros y [<-|[<-|Hy]]; [pose proof (Hmin x (or_introl eq_refl)); lia | apply Hmin; left; reflexivity | apply Hmin; right; exact Hy].
    + apply Z.ltb_ge in E. destruct (IH best) as (Hin & Hmin). split.
      * destruct Hin as [<-|Hin]; [left; reflexivity| right; right; exact Hin].
      * intros y [<-|[<-|Hy]]; [apply Hmin; left; reflexivity | pose proof (Hmin best (or_introl eq_refl)); lia | apply Hmin; right; exact Hy].
Qed.
(* first minimum w.r.t. a secondary key s along which the list is strictly increasing *)
Variable s : A -> Z.
Lemma min_by_aux_first best l : StronglySorted (fun a b => s a < s b) (best :: l) ->
  forall y, In y (best :: l) -> k (min_by_aux k best l) = k y -> s (min_by_aux k best l) <= s y.
Proof. revert best; induction l as [|x t IH]; intros best Hs y Hy Hk; cbn [min_by_aux] in *.
  - destruct Hy as [Hy|[]]; subst; lia.
  - inversion Hs as [|? ? Hs' Hb]; subst. inversion Hs' as [|? ? Hs'' Hx]; subst. rewrite Forall_forall in Hb, Hx.
    destruct (k x <? k best) eqn:E.
    + apply Z.ltb_lt in E. destruct Hy as [Hy|Hy].
      * subst y. destruct (min_by_aux_spec x t) as (_ & Hmin). specialize (Hmin x (or_introl eq_refl)). cbn zeta in Hmin. lia.
      * apply (IH x Hs' y Hy Hk).
    + apply Z.ltb_ge in E.
      assert (Hs2 : StronglySorted (fun a b => s a < s b) (best :: t)).
      { constructor; [exact Hs''|]. rewrite Forall_forall. intros z Hz. apply Hb. right. exact Hz. }
      destruct Hy as [Hy|[Hy|Hy]].
      * subst y. apply (IH best Hs2 best (or_introl eq_refl) Hk).
      * subst y. destruct (min_by_aux_spec best t) as (Hin & Hmin). cbn zeta in *.
        assert (Hkb : k (min_by_aux k best t) = k best) by (pose proof (Hmin best (or_introl eq_refl)); lia).
        pose proof (IH best Hs2 best (or_introl eq_refl) Hkb). pose proof (Hb x (or_introl eq_refl)). lia.
      * apply (IH best Hs2 y (or_intror Hy) Hk).
Qed.
End M.

(* Witnesses for the open findings F13 / F15 (property C06): whole runs of the executable model (Seeding.program_run_full, default
   parameters, real coordinates in tenths of a base pair) on references with DIVERGED DUPLICATES of the planted window.
   Everything here is closed computation (vm_compute); harness/props/C06.py (stream planted_decoys) runs the same two inputs
   through the real program. *)
From Coq Require Import ZArith QArith List Bool Lia String.
Import ListNotations.
Require Import Py Vec Peaks Correlate SeqFast Pairing Core Multi Cigar Coordinator FindPeaks Seeding PlantedProofs1 PlantedProofs2 PlantedProofs3.
Open Scope Z_scope.

(* ---------------------------------------------------------------- F13: three duplicates with one label missing each *)
(* 77 labels, 20.0 .. 780540.0 bp; the window = labels 6..20 (0-based 5..19), first label at 56700.0 bp = 40.5 bins of 1400 bp;
   duplicates at labels 25..38 (13th window label missing), 42..55 (6th missing), 60..73 (12th missing), starting at 176, 298, 433 bins *)
Definition f13_R : list Z := [200; 23100; 239600; 346000; 452800; 567000; 769900; 843300; 934000; 1072500; 1145400; 1183700; 1268000; 1319800; 1432500; 1554500; 1749800; 1778300; 1800000; 2018200; 2069500; 2151500; 2178500; 2400300; 2464000; 2666900; 2740300; 2831000; 2969500; 3042400; 3080700; 3165000; 3216800; 3329500; 3451500; 3646800; 3697000; 3915200; 3998400; 4030600; 4146300; 4172000; 4374900; 4448300; 4539000; 4677500; 4788700; 4873000; 4924800; 5037500; 5159500; 5354800; 5383300; 5405000; 5623200; 5683200; 5806600; 5835700; 6003800; 6062000; 6264900; 6338300; 6429000; 6567500; 6640400; 6678700; 6763000; 6814800; 6927500; 7049500; 7273300; 7295000; 7513200; 7603100; 7690000; 7742300; 7805400].
Definition f13_ref : omap := mkMap 3 7855400 f13_R 0.
Definition f13_q : omap := mkMap 7 1451210 [0; 202900; 276300; 367000; 505500; 578400; 616700; 701000; 752800; 865500; 987500; 1182800; 1211300; 1233000; 1451200] 0.
(* the default seeding parameters, but every primary peak find_peaks keeps is listed (peaksCount 10 instead of 3) *)
Definition sp_all : sparams := mkSP 1400 1 20000 10 100 4 16000 (27 # 1).

Definition dist_gt (g x y : Z) : bool := g <? Z.abs (x - y).
Definition run_rows (refs qs : list omap) : list (Z * bool * Z * list (Z * Z) * Py.res string) :=
  match program_run_full default_params default_sparams Best (K * 100000) refs qs with
  | Ok o => List.map (fun w => (rid w, rrev w, conf w, pair_sites (rsegs w), cigar_string (pair_sites (rsegs w)))) (o_main o)
  | Err => []
  end.

Lemma f13_in_quantifier :
  consec_gt 19999 f13_R /\ 90000 * (Z.of_nat (List.length f13_R) - 1) <= last f13_R 0 - hd 0 f13_R /\
  planted f13_R 5 15 false f13_q /\ (4 <= 5)%nat /\ (5 + 15 + 4 <= List.length f13_R)%nat /\ nth 5 f13_R 0 = 567000.
Proof. split; [cbn; repeat split; lia|]. split; [vm_compute; discriminate|]. split; [vm_compute; repeat split; reflexivity|]. split; [lia|]. split; [cbn; lia|reflexivity]. Qed.

(* every primary peak of the forward strand, in order of position: the true lag (bin 40, 56699 bp) reaches 72/81 = 0.889, the three
   duplicates 80/81 = 0.988, 76/79 = 0.962, 78/80 = 0.975; no peak of the reverse strand exceeds 54/80 = 0.675 *)
Lemma f13_primary_peaks :
  match primary_peaks sp_all f13_ref f13_q false with Ok l => List.map (fun p => (pp_pos p, pp_height p)) l | Err => [] end
  = [(56699, 72 # 81); (247099, 80 # 81); (417899, 76 # 79); (606899, 78 # 80)] /\
  match primary_peaks sp_all f13_ref f13_q true with Ok l => List.map (fun p => Qle_bool (pp_height p) (54 # 80)) l | Err => [] end
  = repeat true 10.
Proof. split; vm_compute; reflexivity. Qed.

(* the seeds of the default parameters: three, all on the forward strand, every secondary peak more than 20 kb from the true lag
   (they are the three duplicates' diagonals 246400.0, 606200.0, 417200.0 + 48 bp) *)
Lemma f13_seeds :
  exists l, seeds_res default_sparams [f13_ref] f13_q = Ok l /\ List.length l = 3%nat /\
    forallb (fun s => negb (sd_rev s) && forallb (fun p => dist_gt (K * 20000) p 567000) (sd_peaks s)) l = true /\
    List.map sd_peaks l = [[2464480]; [6062480]; [4172480]].
Proof. eexists. split; [vm_compute; reflexivity|]. vm_compute. repeat split; reflexivity. Qed.

(* the whole run (mode best): one record, on the first duplicate (labels 25..38), 14 pairs, HitEnum 12M1I2M, confidence 13078.00 *)
Lemma f13_run :
  run_rows [f13_ref] [f13_q] =
  [(3, false, 20 * 13078, [(25,1);(26,2);(27,3);(28,4);(29,5);(30,6);(31,7);(32,8);(33,9);(34,10);(35,11);(36,12);(37,14);(38,15)], Ok "12M1I2M"%string)] /\
  true_pairs 5 15 false = [(6,1);(7,2);(8,3);(9,4);(10,5);(11,6);(12,7);(13,8);(14,9);(15,10);(16,11);(17,12);(18,13);(19,14);(20,15)].
Proof. split; vm_compute; reflexivity. Qed.

(* ---------------------------------------------------------------- F15: ONE duplicate with one extra label *)
(* 46 labels; the window = labels 7..21 (0-based 6..20), first label at 52500.0 bp; the duplicate = labels 25..40 (first label at
   238450.0 bp): the window with one label more (label 33) *)
Definition f14_R : list Z := [50000; 111300; 204400; 345600; 415700; 442000; 525000; 719700; 825500; 953100; 1147000; 1189300; 1284000; 1478100; 1650300; 1733300; 1767000; 1826200; 2076200; 2104300; 2152700; 2189400; 2215900; 2257500; 2384500; 2579200; 2685000; 2812600; 3006500; 3048800; 3143500; 3337600; 3412100; 3509800; 3592800; 3626500; 3685700; 3935700; 3963800; 4012200; 4118900; 4152100; 4181400; 4203200; 4313700; 4478700].
Definition f14_ref : omap := mkMap 3 4528700 f14_R 0.
Definition f14_q : omap := mkMap 7 1627710 [0; 194700; 300500; 428100; 622000; 664300; 759000; 953100; 1125300; 1208300; 1242000; 1301200; 1551200; 1579300; 1627700] 0.

Lemma f14_in_quantifier :
  consec_gt 19999 f14_R /\ 90000 * (Z.of_nat (List.length f14_R) - 1) <= last f14_R 0 - hd 0 f14_R /\
  planted f14_R 6 15 false f14_q /\ (4 <= 6)%nat /\ (6 + 15 + 4 <= List.length f14_R)%nat /\ nth 6 f14_R 0 = 525000.
Proof. split; [cbn; repeat split; lia|]. split; [vm_compute; discriminate|]. split; [vm_compute; repeat split; reflexivity|]. split; [lia|]. split; [cbn; lia|reflexivity]. Qed.

(* the FIRST seed is the true locus, with a single secondary peak 48 bp from the true diagonal 52500.0; the second seed is the
   duplicate, 2 bp from its diagonal 238450.0 *)
Lemma f14_seeds :
  exists rest, seeds_res default_sparams [f14_ref] f14_q = Ok (mkSeed f14_ref false [525480] :: rest) /\
    List.map (fun s => (sd_rev s, sd_peaks s)) rest = [(false, [2384480]); (true, [1574480; 1685480; 1713480])].
Proof. eexists. split; vm_compute; reflexivity. Qed.

(* the candidate of the true seed is perfect: exactly the true pairs, 15M, confidence 15 * (1000 - 48) = 14280 *)
Lemma f14_true_candidate :
  match aligner_align default_params 1 f14_ref f14_q [525480] false with
  | Ok segs => (pair_sites segs, pair_shifts segs, cigar_string (pair_sites segs), conf (row_create segs 7 3 (mlen f14_q) (mlen f14_ref) false))
  | Err => ([], [], Err, 0) end
  = (true_pairs 6 15 false, repeat 480 15, Ok "15M"%string, 20 * 14280).
Proof. vm_compute. reflexivity. Qed.

(* the whole run (mode best) reports the duplicate: labels 25..40 without 33, 8M1D7M, confidence 14720.00 *)
Lemma f14_run :
  run_rows [f14_ref] [f14_q] =
  [(3, false, 20 * 14720, [(25,1);(26,2);(27,3);(28,4);(29,5);(30,6);(31,7);(32,8);(34,9);(35,10);(36,11);(37,12);(38,13);(39,14);(40,15)], Ok "8M1D7M"%string)].
Proof. vm_compute. reflexivity. Qed.

(* ---------------------------------------------------------------- the statements of props/C06.v *)
(* every piece is a closed goal decided by vm_compute (witnesses found by unification with the computed value) *)
Lemma f13_true_peak :
  exists l t, primary_peaks sp_all f13_ref f13_q false = Ok l /\ In t l /\ pp_pos t = bin_to_bp (nth 5 (mpositions f13_ref) 0 / (K * 1400)) 1400 0 /\
    (3 <= List.length (filter (fun p => negb (Qle_bool (pp_height p) (pp_height t))) l))%nat.
Proof. eexists. eexists. split; [vm_compute; reflexivity|]. split; [left; reflexivity|]. split; [vm_compute; reflexivity|].
  apply Nat.leb_le. vm_compute. reflexivity. Qed.

Lemma f13_run_rows :
  exists o w, program_run_full default_params default_sparams Best (K * 100000) [f13_ref] [f13_q] = Ok o /\ o_main o = [w] /\
    pair_sites (rsegs w) <> true_pairs 5 15 false /\ List.length (pair_sites (rsegs w)) = 14%nat /\
    cigar_string (pair_sites (rsegs w)) = Ok "12M1I2M"%string.
Proof. eexists. eexists. split; [vm_compute; reflexivity|]. split; [vm_compute; reflexivity|]. split; [vm_compute; discriminate|].
  split; vm_compute; reflexivity. Qed.

Lemma f13_refuted :
  exists (ref q : omap) (a n : nat),
    consec_gt 19999 (mpositions ref) /\
    90000 * (Z.of_nat (List.length (mpositions ref)) - 1) <= last (mpositions ref) 0 - hd 0 (mpositions ref) /\
    planted (mpositions ref) a n false q /\ n = 15%nat /\ (4 <= a)%nat /\ (a + n + 4 <= List.length (mpositions ref))%nat /\
    (exists l t, primary_peaks sp_all ref q false = Ok l /\ In t l /\ pp_pos t = bin_to_bp (nth a (mpositions ref) 0 / (K * 1400)) 1400 0 /\
       (3 <= List.length (filter (fun p => negb (Qle_bool (pp_height p) (pp_height t))) l))%nat) /\
    (exists l, seeds_model default_sparams [ref] q = l /\ List.length l = 3%nat /\
       forall s, In s l -> sd_rev s = false /\ forall p, In p (sd_peaks s) -> K * 20000 < Z.abs (p - nth a (mpositions ref) 0)) /\
    (exists o w, program_run_full default_params default_sparams Best (K * 100000) [ref] [q] = Ok o /\ o_main o = [w] /\
       pair_sites (rsegs w) <> true_pairs a n false /\ List.length (pair_sites (rsegs w)) = 14%nat /\
       cigar_string (pair_sites (rsegs w)) = Ok "12M1I2M"%string).
Proof.
  exists f13_ref, f13_q, 5%nat, 15%nat.
  destruct f13_in_quantifier as (H1 & H2 & H3 & H4 & H5 & H6).
  split; [exact H1|]. split; [exact H2|]. split; [exact H3|]. split; [reflexivity|]. split; [exact H4|]. split; [exact H5|].
  split; [exact f13_true_peak|].
  split; [|exact f13_run_rows].
  destruct f13_seeds as (l & E & Hl & Hf & _). exists l. unfold seeds_model. rewrite E. split; [reflexivity|]. split; [exact Hl|].
  intros s Hs. rewrite forallb_forall in Hf. specialize (Hf s Hs). apply andb_prop in Hf. destruct Hf as [Hr Hp].
  split; [destruct (sd_rev s); [discriminate|reflexivity]|]. intros p Hin. rewrite forallb_forall in Hp. specialize (Hp p Hin).
  unfold dist_gt in Hp. apply Z.ltb_lt in Hp. exact Hp.
Qed.

Lemma f14_true_cand :
  exists pk segs, Z.abs (pk - nth 6 (mpositions f14_ref) 0) = K * 48 /\ aligner_align default_params 1 f14_ref f14_q [pk] false = Ok segs /\
    pair_sites segs = true_pairs 6 15 false /\ pair_shifts segs = repeat (K * 48) 15 /\ cigar_string (pair_sites segs) = Ok "15M"%string /\
    conf (row_create segs (mid f14_q) (mid f14_ref) (mlen f14_q) (mlen f14_ref) false) = 20 * 14280.
Proof. exists 525480. eexists. split; [reflexivity|]. split; [vm_compute; reflexivity|]. repeat split; vm_compute; reflexivity. Qed.

Lemma f14_run_rows :
  exists o w, program_run_full default_params default_sparams Best (K * 100000) [f14_ref] [f14_q] = Ok o /\ o_main o = [w] /\
    pair_sites (rsegs w) <> true_pairs 6 15 false /\ List.length (pair_sites (rsegs w)) = 15%nat /\
    cigar_string (pair_sites (rsegs w)) = Ok "8M1D7M"%string /\ conf w = 20 * 14720.
Proof. eexists. eexists. split; [vm_compute; reflexivity|]. split; [vm_compute; reflexivity|]. split; [vm_compute; discriminate|].
  repeat split; vm_compute; reflexivity. Qed.

Lemma f14_refuted :
  exists (ref q : omap) (a n : nat),
    consec_gt 19999 (mpositions ref) /\
    90000 * (Z.of_nat (List.length (mpositions ref)) - 1) <= last (mpositions ref) 0 - hd 0 (mpositions ref) /\
    planted (mpositions ref) a n false q /\ n = 15%nat /\ (4 <= a)%nat /\ (a + n + 4 <= List.length (mpositions ref))%nat /\
    (exists pk rest, seeds_model default_sparams [ref] q = mkSeed ref false [pk] :: rest /\ Z.abs (pk - nth a (mpositions ref) 0) = K * 48) /\
    (exists pk segs, Z.abs (pk - nth a (mpositions ref) 0) = K * 48 /\ aligner_align default_params 1 ref q [pk] false = Ok segs /\
       pair_sites segs = true_pairs a n false /\ pair_shifts segs = repeat (K * 48) n /\ cigar_string (pair_sites segs) = Ok "15M"%string /\
       conf (row_create segs (mid q) (mid ref) (mlen q) (mlen ref) false) = 20 * 14280) /\
    (exists o w, program_run_full default_params default_sparams Best (K * 100000) [ref] [q] = Ok o /\ o_main o = [w] /\
       pair_sites (rsegs w) <> true_pairs a n false /\ List.length (pair_sites (rsegs w)) = 15%nat /\
       cigar_string (pair_sites (rsegs w)) = Ok "8M1D7M"%string /\ conf w = 20 * 14720).
Proof.
  exists f14_ref, f14_q, 6%nat, 15%nat.
  destruct f14_in_quantifier as (H1 & H2 & H3 & H4 & H5 & H6).
  split; [exact H1|]. split; [exact H2|]. split; [exact H3|]. split; [reflexivity|]. split; [exact H4|]. split; [exact H5|].
  split; [|split; [exact f14_true_cand|exact f14_run_rows]].
  destruct f14_seeds as (rest & E & _). exists 525480, rest. unfold seeds_model. rewrite E. split; reflexivity.
Qed.

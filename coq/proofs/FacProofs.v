From Coq Require Import ZArith List Bool Lia Sorting.Sorted.
Import ListNotations.
Require Import Fac Psum.
Open Scope Z_scope.

Lemma SS_snoc {A} (R : A -> A -> Prop) l x : StronglySorted R l -> Forall (fun y => R y x) l -> StronglySorted R (l ++ [x]).
Proof. induction 1 as [|y t Ht IH Hy]; intros Hx; cbn; [repeat constructor|].
  inversion Hx as [|? ? Hyx Htx]; subst. constructor; [apply IH; exact Htx|].
  rewrite Forall_forall in *. intros z Hz. apply in_app_or in Hz. destruct Hz as [Hz|[<-|[]]]; [apply Hy; exact Hz | exact Hyx]. Qed.

Section F.
Variables ms bs : Z.
Hypothesis Hms : 0 < ms.

Definition rA (r : nat * nat * Z) := fst (fst r).
Definition rB (r : nat * nat * Z) := snd (fst r).
Definition rX (r : nat * nat * Z) := snd r.

(* every non-empty prefix of l[a..b) is positive and less than bs below every earlier prefix *)
Definition run_ok (l : list Z) (a b : nat) : Prop :=
  forall j, (a < j <= b)%nat -> 0 < psum l a j /\ forall i, (a < i < j)%nat -> psum l a i - bs < psum l a j.

Definition seg_ok (l : list Z) (r : nat * nat * Z) : Prop :=
  (rA r < rB r <= length l)%nat /\ rX r = psum l (rA r) (rB r) /\ ms <= rX r /\ run_ok l (rA r) (rB r) /\
  (forall j, (rA r < j < rB r)%nat -> psum l (rA r) j < rX r).

Definition seg_broken (l : list Z) (r : nat * nat * Z) : Prop :=
  exists e, (rB r <= e < length l)%nat /\ (forall j, (rB r < j <= e)%nat -> psum l (rA r) j <= rX r) /\
            psum l (rA r) (S e) <= Z.max 0 (rX r - bs).
Definition seg_max (l : list Z) (r : nat * nat * Z) : Prop :=
  seg_broken l r \/ (forall j, (rB r < j <= length l)%nat -> psum l (rA r) j <= rX r).

Record Inv (p : list Z) (s : fst_) : Prop := {
  i_end : cend s = length p;
  i_start : (cstart s <= cend s)%nat;
  i_ext : ext s = psum p (cstart s) (cend s);
  i_run : run_ok p (cstart s) (cend s);
  i_le : forall j, (cstart s < j <= cend s)%nat -> psum p (cstart s) j <= cur_score s;
  i_cur : match cur s with
          | None => cstart s = cend s
          | Some c => 0 < rX c /\
                      ((rA c = cstart s /\ (rA c < rB c <= cend s)%nat /\ rX c = psum p (rA c) (rB c) /\
                        (forall j, (rA c < j < rB c)%nat -> psum p (rA c) j < rX c))
                       \/ ((rB c <= cstart s)%nat /\ rX c < ms))
          end;
  i_res_ok : Forall (seg_ok p) (fres s);
  i_res_brk : Forall (seg_broken p) (fres s);
  i_res_ord : StronglySorted (fun r r' => (rB r < rA r')%nat) (fres s);
  i_res_bound : Forall (fun r => (rB r < cstart s)%nat) (fres s)
}.

Lemma run_ok_app p x a b : (b <= length p)%nat -> run_ok p a b -> run_ok (p ++ [x]) a b.
Proof. intros Hb H j Hj. destruct (H j Hj) as (H1 & H2). rewrite psum_app_l by lia. split; [exact H1|].
  intros i Hi. rewrite psum_app_l by lia. apply H2. exact Hi. Qed.
Lemma seg_ok_app p x r : seg_ok p r -> seg_ok (p ++ [x]) r.
Proof. intros (H1 & H2 & H3 & H4 & H5). unfold seg_ok. rewrite app_length. cbn [length].
  split; [lia|]. split; [rewrite psum_app_l by lia; exact H2|]. split; [exact H3|]. split; [apply run_ok_app; [lia | exact H4]|].
  intros j Hj. rewrite psum_app_l by lia. apply H5. exact Hj. Qed.
Lemma seg_broken_app p x r : seg_broken p r -> seg_broken (p ++ [x]) r.
Proof. intros (e & He & H1 & H2). exists e. rewrite app_length. cbn [length].
  split; [lia|]. split; [intros j Hj; rewrite psum_app_l by lia; apply H1; exact Hj|].
  rewrite psum_app_l by lia. exact H2. Qed.

Lemma inv_init : Inv [] finit.
Proof. constructor; cbn; try constructor; try reflexivity; try lia; intros j Hj; lia. Qed.

Lemma cur_score_some s c : cur s = Some c -> cur_score s = rX c.
Proof. unfold cur_score, rX. intros ->. destruct c as [[a b] x]. reflexivity. Qed.

Lemma inv_step p s x : Inv p s -> Inv (p ++ [x]) (fstep ms bs s x).
Proof.
  intros [Hend Hstart Hext Hrun Hle Hcur Hok Hbrk Hord Hbound].
  assert (Hsn : ext s + x = psum (p ++ [x]) (cstart s) (S (length p))).
  { rewrite psum_snoc by lia. rewrite Hext, Hend. reflexivity. }
  unfold fstep. cbn zeta.
  destruct (ext s + x <=? Z.max 0 (cur_score s - bs)) eqn:Ebrk.
  - (* break *)
    apply Z.leb_le in Ebrk. unfold add_if_enough.
    destruct (ms <=? cur_score s) eqn:Ems.
    + apply Z.leb_le in Ems. destruct (cur s) as [c|] eqn:Ec; [|unfold cur_score in Ems; rewrite Ec in Ems; lia].
      pose proof (cur_score_some s c Ec) as Esc. rewrite Esc in *.
      destruct Hcur as (Hpos & [(Ha & Hab & Hx & Hfirst)|(Hb & Hlt)]); [|lia].
      constructor; cbn [cstart cend ext cur fres].
      * rewrite app_length. cbn. lia.
      * lia.
      * rewrite psum_same. reflexivity.
      * intros j Hj. lia.
      * intros j Hj. lia.
      * reflexivity.
      * apply Forall_app. split; [eapply Forall_impl; [|exact Hok]; intros r; apply seg_ok_app|]. constructor; [|constructor].
        unfold seg_ok. rewrite app_length. cbn [length]. split; [lia|]. split; [rewrite psum_app_l by lia; exact Hx|]. split; [exact Ems|].
        split. { apply run_ok_app; [lia|]. intros j Hj. rewrite Ha. apply Hrun. lia. }
        intros j Hj. rewrite psum_app_l by lia. apply Hfirst. exact Hj.
      * apply Forall_app. split; [eapply Forall_impl; [|exact Hbrk]; intros r; apply seg_broken_app|]. constructor; [|constructor].
        exists (length p). rewrite app_length. cbn [length]. split; [lia|]. split.
        -- intros j Hj. rewrite psum_app_l by lia. rewrite Ha. apply Hle. lia.
        -- rewrite Ha, <- Hsn. exact Ebrk.
      * apply SS_snoc; [exact Hord|]. eapply Forall_impl; [|exact Hbound]. intros r Hr. cbn beta in *. lia.
      * apply Forall_app. split; [eapply Forall_impl; [|exact Hbound]; intros r Hr; cbn beta in *; lia|]. constructor; [lia|constructor].
    + apply Z.leb_gt in Ems. constructor; cbn [cstart cend ext cur fres].
      * rewrite app_length. cbn. lia.
      * lia.
      * rewrite psum_same. reflexivity.
      * intros j Hj. lia.
      * intros j Hj. lia.
      * destruct (cur s) as [c|] eqn:Ec; [|reflexivity]. rewrite (cur_score_some s c Ec) in Ems.
        destruct Hcur as (Hpos & [(Ha & Hab & Hx & Hfirst)|(Hb & Hlt)]); (split; [exact Hpos|right; split; [lia|lia]]).
      * eapply Forall_impl; [|exact Hok]. intros r. apply seg_ok_app.
      * eapply Forall_impl; [|exact Hbrk]. intros r. apply seg_broken_app.
      * exact Hord.
      * eapply Forall_impl; [|exact Hbound]. intros r Hr. cbn beta in *. lia.
  - (* extend *)
    apply Z.leb_gt in Ebrk.
    assert (Hrun' : run_ok (p ++ [x]) (cstart s) (S (cend s))).
    { intros j Hj. destruct (Nat.eq_dec j (S (cend s))) as [->|Hne].
      - rewrite Hend, <- Hsn. split; [lia|]. intros i Hi. rewrite psum_app_l by lia. pose proof (Hle i ltac:(lia)). lia.
      - assert (Hb : (cend s <= length p)%nat) by lia. apply (run_ok_app p x (cstart s) (cend s) Hb Hrun j). lia. }
    destruct (cur_score s <? ext s + x) eqn:Eacc.
    + apply Z.ltb_lt in Eacc. constructor; cbn [cstart cend ext cur fres].
      * rewrite app_length. cbn. lia.
      * lia.
      * rewrite Hend. exact Hsn.
      * exact Hrun'.
      * intros j Hj. unfold cur_score. cbn [cur]. destruct (Nat.eq_dec j (S (cend s))) as [->|Hne]; [rewrite Hend, <- Hsn; lia|].
        rewrite psum_app_l by lia. pose proof (Hle j ltac:(lia)). lia.
      * unfold rX, rA, rB. cbn [fst snd]. split; [lia|]. left. split; [reflexivity|]. split; [lia|]. split; [rewrite Hend; exact Hsn|].
        intros j Hj. rewrite psum_app_l by lia. pose proof (Hle j ltac:(lia)). lia.
      * eapply Forall_impl; [|exact Hok]. intros r. apply seg_ok_app.
      * eapply Forall_impl; [|exact Hbrk]. intros r. apply seg_broken_app.
      * exact Hord.
      * exact Hbound.
    + apply Z.ltb_ge in Eacc. constructor; cbn [cstart cend ext cur fres].
      * rewrite app_length. cbn. lia.
      * lia.
      * rewrite Hend. exact Hsn.
      * exact Hrun'.
      * intros j Hj. change (cur_score {| cstart := cstart s; cend := S (cend s); ext := ext s + x; cur := cur s; fres := fres s |}) with (cur_score s).
        destruct (Nat.eq_dec j (S (cend s))) as [->|Hne]; [rewrite Hend, <- Hsn; lia|].
        rewrite psum_app_l by lia. apply Hle. lia.
      * destruct (cur s) as [c|] eqn:Ec.
        -- destruct Hcur as (Hpos & [(Ha & Hab & Hx & Hfirst)|(Hb & Hlt)]); (split; [exact Hpos|]).
           ++ left. split; [exact Ha|]. split; [lia|]. split; [rewrite psum_app_l by lia; exact Hx|].
              intros j Hj. rewrite psum_app_l by lia. apply Hfirst. exact Hj.
           ++ right. split; [exact Hb | exact Hlt].
        -- unfold cur_score in Eacc, Ebrk. rewrite Ec in Eacc, Ebrk. lia.
      * eapply Forall_impl; [|exact Hok]. intros r. apply seg_ok_app.
      * eapply Forall_impl; [|exact Hbrk]. intros r. apply seg_broken_app.
      * exact Hord.
      * exact Hbound.
Qed.

Lemma inv_run l : Inv l (frun ms bs l).
Proof. unfold frun. induction l as [|x p IH] using rev_ind; [apply inv_init|].
  rewrite fold_left_app. cbn [fold_left]. apply inv_step. exact IH. Qed.

Theorem factory_spec l :
  let rs := factory_ranges ms bs l in
  Forall (seg_ok l) rs /\ Forall (seg_max l) rs /\ StronglySorted (fun r r' => (rB r < rA r')%nat) rs.
Proof.
  cbn zeta. unfold factory_ranges. destruct (inv_run l) as [Hend Hstart Hext Hrun Hle Hcur Hok Hbrk Hord Hbound].
  unfold add_if_enough. destruct (ms <=? cur_score (frun ms bs l)) eqn:Ems.
  - apply Z.leb_le in Ems. destruct (cur (frun ms bs l)) as [c|] eqn:Ec; [|unfold cur_score in Ems; rewrite Ec in Ems; lia].
    rewrite (cur_score_some _ c Ec) in *. cbn [fres].
    destruct Hcur as (Hpos & [(Ha & Hab & Hx & Hfirst)|(Hb & Hlt)]); [|lia].
    split; [|split].
    + apply Forall_app. split; [exact Hok|]. constructor; [|constructor]. unfold seg_ok.
      split; [lia|]. split; [exact Hx|]. split; [exact Ems|]. split; [|exact Hfirst].
      intros j Hj. rewrite Ha. apply Hrun. lia.
    + apply Forall_app. split; [eapply Forall_impl; [|exact Hbrk]; intros r Hr; left; exact Hr|]. constructor; [|constructor].
      right. intros j Hj. rewrite Ha. apply Hle. lia.
    + apply SS_snoc; [exact Hord|]. eapply Forall_impl; [|exact Hbound]. intros r Hr. cbn beta in *. lia.
  - split; [exact Hok|]. split; [|exact Hord]. eapply Forall_impl; [|exact Hbrk]. intros r Hr. left. exact Hr.
Qed.

(* the maximality clause in the form of the property text: an extension [a,e') with a higher sum has a
   prefix (possibly itself) that is non-positive or bs or more below an earlier prefix *)
Corollary seg_max_no_extension l r : seg_ok l r -> seg_max l r ->
  forall e', (rB r < e' <= length l)%nat -> rX r < psum l (rA r) e' ->
  exists j, (rB r < j <= e')%nat /\ (psum l (rA r) j <= 0 \/ exists i, (rA r < i < j)%nat /\ psum l (rA r) j <= psum l (rA r) i - bs).
Proof.
  intros (Hab & Hx & _ & _ & _) [ (e & He & Hbelow & Hviol) | Hall ] e' He' Hgt.
  - assert (S e <= e')%nat.
    { destruct (Nat.le_gt_cases (S e) e') as [Hle|Hlt]; [exact Hle|]. exfalso. pose proof (Hbelow e' ltac:(lia)). lia. }
    exists (S e). split; [lia|]. destruct (Z.max_spec 0 (rX r - bs)) as [[_ E]|[_ E]]; rewrite E in Hviol.
    + right. exists (rB r). split; [lia|]. rewrite <- Hx. exact Hviol.
    + left. exact Hviol.
  - pose proof (Hall e' ltac:(lia)). lia.
Qed.

Corollary seg_ends_positive l r : seg_ok l r -> 0 < nth (rA r) l 0 /\ 0 < nth (rB r - 1) l 0.
Proof.
  intros (Hab & Hx & Hms' & Hrun & Hfirst).
  assert (Hone : forall i, (i < length l)%nat -> psum l i (S i) = nth i l 0).
  { intros i Hi. unfold psum. replace (S i - i)%nat with 1%nat by lia.
    rewrite <- (firstn_skipn i l) at 2. rewrite app_nth2; rewrite firstn_length; [|lia].
    replace (i - Nat.min i (length l))%nat with O by lia. destruct (skipn i l) eqn:E; cbn; [|lia].
    exfalso. assert (length (skipn i l) = 0%nat) by (rewrite E; reflexivity). rewrite skipn_length in H. lia. }
  split.
  - rewrite <- Hone by lia. apply (Hrun (S (rA r))). lia.
  - destruct (Nat.eq_dec (rB r - 1) (rA r)) as [E|N].
    + rewrite E, <- Hone by lia. apply (Hrun (S (rA r))). lia.
    + rewrite <- Hone by lia. pose proof (Hfirst (rB r - 1)%nat ltac:(lia)).
      rewrite (psum_split l (rA r) (rB r - 1) (rB r)) in Hx by lia. replace (S (rB r - 1)) with (rB r) by lia. lia.
Qed.
End F.

Print Assumptions factory_spec.
Print Assumptions seg_max_no_extension.
Print Assumptions seg_ends_positive.

(* C12: the bridge from OpticalMap.getPositionsWithSiteIds / the reference window to Section Pairing of PairingProofs2,
   and the five clauses of C12 stated about the value returned by align_engine itself. *)
From Coq Require Import ZArith List Bool Lia Sorting.Permutation Sorting.Sorted.
Import ListNotations.
Require Import Py PyProofs Pairing PairingProofs1 PairingProofs2 PairingProofs3.
Open Scope Z_scope.

(* ---------- generic list facts ---------- *)
Lemma SS_app {A} (T : A -> A -> Prop) l1 l2 :
  StronglySorted T l1 -> StronglySorted T l2 -> (forall a b, In a l1 -> In b l2 -> T a b) -> StronglySorted T (l1 ++ l2).
Proof. induction 1 as [|x t Ht IH Hx]; intros H2 Hc; cbn [app]; [exact H2|].
  constructor; [apply IH; [exact H2 | intros a b Ha Hb; apply Hc; [right; exact Ha | exact Hb]]|].
  rewrite Forall_forall in *. intros y Hy. apply in_app_iff in Hy. destruct Hy as [Hy|Hy]; [apply Hx; exact Hy | apply Hc; [left; reflexivity | exact Hy]]. Qed.

Lemma SS_rev_le l : StronglySorted Z.le l -> StronglySorted Z.ge (rev l).
Proof. induction 1 as [|x t Ht IH Hx]; cbn [rev]; [constructor|]. rewrite Forall_forall in Hx.
  apply SS_app; [exact IH | repeat constructor |]. intros a b Ha [<-|[]]. apply in_rev in Ha. specialize (Hx a Ha). lia. Qed.

Lemma filter_split_perm {A} (f : A -> bool) l : Permutation (filter f l ++ filter (fun x => negb (f x)) l) l.
Proof. induction l as [|x t IH]; [reflexivity|]. cbn [filter]. destruct (f x); cbn [negb app].
  - constructor. exact IH.
  - rewrite <- Permutation_middle. constructor. exact IH. Qed.

Lemma SS_lt_NoDup {A} (f : A -> Z) l : StronglySorted (fun a b => f a < f b) l -> NoDup (map f l).
Proof. induction 1 as [|x t Ht IH Hx]; cbn [map]; constructor; [|exact IH]. rewrite Forall_forall in Hx.
  intros Hin. apply in_map_iff in Hin. destruct Hin as (y & E & Hy). specialize (Hx y Hy). lia. Qed.

Lemma SS_dir_NoDup {A} (f : A -> Z) dir l : StronglySorted (fun a b => 0 < dir * (f b - f a)) l -> NoDup (map f l).
Proof. induction 1 as [|x t Ht IH Hx]; cbn [map]; constructor; [|exact IH]. rewrite Forall_forall in Hx.
  intros Hin. apply in_map_iff in Hin. destruct Hin as (y & E & Hy). specialize (Hx y Hy). rewrite E in Hx. lia. Qed.

(* a stable sort of a list that is in T-order leaves every class of equal keys in T-order *)
Lemma SS_ties {A} (k : A -> Z) (T : A -> A -> Prop) l :
  ksorted k l -> (forall c, StronglySorted T (filter (fun y => k y =? c) l)) ->
  StronglySorted (fun a b => k a <= k b /\ (k a = k b -> T a b)) l.
Proof. unfold ksorted. induction 1 as [|x t Ht IH Hx]; intros Hc; [constructor|]. constructor.
  - apply IH. intros c. specialize (Hc c). cbn [filter] in Hc. destruct (k x =? c); [inversion Hc; assumption | exact Hc].
  - rewrite Forall_forall in *. intros y Hy. split; [apply Hx; exact Hy|]. intros E.
    specialize (Hc (k x)). cbn [filter] in Hc. rewrite Z.eqb_refl in Hc. inversion Hc as [|? ? _ Hall]; subst.
    rewrite Forall_forall in Hall. apply Hall. apply filter_In. split; [exact Hy | apply Z.eqb_eq; lia]. Qed.

Theorem sort_by_stable_SS {A} (k : A -> Z) (T : A -> A -> Prop) l :
  StronglySorted T l -> StronglySorted (fun a b => k a <= k b /\ (k a = k b -> T a b)) (sort_by k l).
Proof. intros H. apply SS_ties; [apply sort_by_sorted|]. intros c. rewrite sort_by_filter. apply SS_filter. exact H. Qed.

Lemma SS_app_inv {A} (T : A -> A -> Prop) l1 l2 : StronglySorted T (l1 ++ l2) -> StronglySorted T l1 /\ StronglySorted T l2.
Proof. induction l1 as [|x t IH]; cbn [app]; intros H; [split; [constructor | exact H]|].
  inversion H as [|? ? Ht Hx]; subst. destruct (IH Ht) as (H1 & H2). split; [|exact H2].
  constructor; [exact H1|]. rewrite Forall_forall in *. intros y Hy. apply Hx. apply in_app_iff. left. exact Hy. Qed.

(* the filtered image of a contiguous sub-run is a contiguous piece of the filtered list, hence sorted when that is *)
Lemma SS_filter_subrun {A} (T : A -> A -> Prop) (f : A -> bool) l m n :
  StronglySorted T (filter f l) -> StronglySorted T (filter f (firstn n (skipn m l))).
Proof. intros H. rewrite <- (firstn_skipn m l), filter_app in H. apply SS_app_inv in H. destruct H as (_ & H).
  rewrite <- (firstn_skipn n (skipn m l)), filter_app in H. apply SS_app_inv in H. apply H. Qed.

Lemma mem_site_in s l : mem_site s l = true <-> In s l.
Proof. unfold mem_site. rewrite existsb_exists. split.
  - intros (x & Hx & E). apply Z.eqb_eq in E. subst. exact Hx.
  - intros H. exists s. split; [exact H | apply Z.eqb_refl]. Qed.
Lemma mem_site_not_in s l : negb (mem_site s l) = true <-> ~ In s l.
Proof. rewrite negb_true_iff, <- mem_site_in. destruct (mem_site s l); split; congruence. Qed.

(* ---------- label numbering of getPositionsWithSiteIds ---------- *)
Lemma number_up_nth i l n : nth_error (number_up i l) n = option_map (fun p => mkLabel (i + Z.of_nat n) p) (nth_error l n).
Proof. revert i n; induction l as [|p t IH]; intros i [|n]; cbn [number_up nth_error option_map]; try reflexivity.
  - rewrite Z.add_0_r. reflexivity.
  - rewrite IH. replace (i + 1 + Z.of_nat n) with (i + Z.of_nat (S n)) by lia. reflexivity. Qed.

Lemma number_down_app i e a b : number_down i e (a ++ b) = number_down i e a ++ number_down (i - Z.of_nat (length a)) e b.
Proof. revert i; induction a as [|p t IH]; intros i; cbn [app number_down length]; [rewrite Z.sub_0_r; reflexivity|].
  rewrite IH, Nat2Z.inj_succ. replace (i - Z.succ (Z.of_nat (length t))) with (i - 1 - Z.of_nat (length t)) by lia. reflexivity. Qed.

Definition mirror (e : Z) (x : label) : label := mkLabel (site x) (e - lpos x).
Lemma number_down_rev s e l :
  number_down (Z.of_nat (length l) + s) e (rev l) = rev (map (mirror e) (number_up (1 + s) l)).
Proof. revert s; induction l as [|p t IH]; intros s; [reflexivity|]. cbn [rev length number_up map].
  rewrite number_down_app, rev_length. replace (Z.of_nat (S (length t)) + s) with (Z.of_nat (length t) + (s + 1)) by lia.
  rewrite IH. replace (1 + (s + 1)) with (1 + s + 1) by lia. f_equal. cbn [number_down]. unfold mirror. cbn [site lpos]. replace (Z.of_nat (length t) + (s + 1) - Z.of_nat (length t)) with (1 + s) by lia. reflexivity. Qed.

(* forward: the n-th label (0-based) carries site n + 1 + shift and its own position *)
Theorem labels_forward m n :
  nth_error (positions_with_ids m false) n = option_map (fun p => mkLabel (Z.of_nat n + 1 + mshift m) p) (nth_error (mpositions m) n).
Proof. unfold positions_with_ids. rewrite number_up_nth. destruct (nth_error (mpositions m) n); cbn [option_map]; [|reflexivity].
  replace (1 + mshift m + Z.of_nat n) with (Z.of_nat n + 1 + mshift m) by lia. reflexivity. Qed.
(* reverse: the same labels with the same site numbers, positions mirrored about length - 1, in opposite order *)
Theorem labels_reverse m :
  positions_with_ids m true = rev (map (mirror (mlen m - K)) (positions_with_ids m false)).
Proof. unfold positions_with_ids. apply number_down_rev. Qed.

(* ---------- bridge to the hypotheses of Section Pairing ---------- *)
Definition dirz (reverse : bool) : Z := if reverse then -1 else 1.

(* the search window: the reference labels with start - d <= position <= stop + d *)
Definition window (d start stop : Z) (reference : omap) : list label :=
  filter (inrange (start - d) (stop + d)) (positions_with_ids reference false).

Lemma window_in d start stop reference r :
  In r (window d start stop reference) <-> In r (positions_with_ids reference false) /\ start - d <= lpos r <= stop + d.
Proof. unfold window, inrange. rewrite filter_In, andb_true_iff, !Z.leb_le. tauto. Qed.

Lemma labels_sorted m reverse : StronglySorted Z.le (mpositions m) ->
  StronglySorted (fun a b => 0 < dirz reverse * (site b - site a) /\ lpos a <= lpos b) (positions_with_ids m reverse).
Proof. intros H. unfold positions_with_ids, dirz. destruct reverse.
  - apply number_down_sorted. apply SS_rev_le. exact H.
  - apply (SS_weaken (fun a b => site a < site b /\ lpos a <= lpos b)); [intros a b (H1 & H2); split; lia|].
    apply number_up_sorted. exact H. Qed.

Lemma ref_labels_sorted m : StronglySorted Z.le (mpositions m) ->
  StronglySorted (fun a b => site a < site b /\ lpos a <= lpos b) (positions_with_ids m false).
Proof. intros H. apply number_up_sorted. exact H. Qed.

Lemma window_is_takewhile d start stop reference : StronglySorted Z.le (mpositions reference) ->
  takewhile (fun x => lpos x <=? stop + d) (dropwhile (fun x => lpos x <? start - d) (positions_with_ids reference false))
  = window d start stop reference.
Proof. intros H. apply range_filter. apply (SS_weaken _ _ _ (fun a b H => proj2 H) (ref_labels_sorted reference H)). Qed.

Lemma window_sorted d start stop reference : StronglySorted Z.le (mpositions reference) ->
  StronglySorted (fun a b => site a < site b /\ lpos a <= lpos b) (window d start stop reference).
Proof. intros H. apply SS_filter. apply ref_labels_sorted. exact H. Qed.

(* ---------- projections of the returned list ---------- *)
Definition ref_labels (out : list apos) : list label :=
  flat_map (fun a => match a with Pair r _ _ _ => [r] | URef r => [r] | UQry _ _ => [] end) out.
Definition qry_labels (out : list apos) : list label :=
  flat_map (fun a => match a with Pair _ q _ _ => [q] | UQry q _ => [q] | URef _ => [] end) out.
Definition kind (a : apos) : Z := match a with Pair _ _ _ _ => 0 | URef _ => 1 | UQry _ _ => 2 end.
(* order among positions with equal absolutePosition: pairs (by reference site), then unpaired reference labels
   (by site), then unpaired query labels (in the order of the query label list) *)
Definition tie_order (dir : Z) (a b : apos) : Prop :=
  match a, b with
  | Pair r1 _ _ _, Pair r2 _ _ _ => site r1 < site r2
  | URef r1, URef r2 => site r1 < site r2
  | UQry q1 _, UQry q2 _ => 0 < dir * (site q2 - site q1)
  | _, _ => kind a < kind b
  end.

Definition is_pair_apos (a : apos) : bool := match a with Pair _ _ _ _ => true | _ => false end.
(* order between two pairs: reference sites ascend, query sites ascend (dir = 1) / descend (dir = -1),
   reference positions do not descend, query positions (as seen by the pairing, i.e. mirrored on the reverse strand) ascend *)
Definition pair_order (dir : Z) (a b : apos) : Prop :=
  match a, b with
  | Pair r1 q1 _ _, Pair r2 q2 _ _ => site r1 < site r2 /\ dir * site q1 < dir * site q2 /\ lpos r1 <= lpos r2 /\ lpos q1 < lpos q2
  | _, _ => False
  end.

Section Engine.
Variables (d iteration : Z) (reference query : omap) (start stop : Z) (reverse : bool).
Hypothesis Href : StronglySorted Z.le (mpositions reference).
Hypothesis Hqry : StronglySorted Z.le (mpositions query).

Definition eR := window d start stop reference.
Definition eQ := positions_with_ids query reverse.
Definition eP := P d start eR eQ.
Definition mkpair (c : cand) : apos := Pair (cr c) (cq c) (cshift c) iteration.
Definition epre : list apos :=
  map mkpair eP ++ map URef (filter (fun r => negb (mem_site (site r) (map rsite eP))) eR)
                ++ map (fun q => UQry q start) (filter (fun q => negb (mem_site (site q) (map qsite eP))) eQ).
Definition eout := align_engine d iteration reference query start stop reverse.

Lemma HR : StronglySorted (fun a b => site a < site b /\ lpos a <= lpos b) eR.
Proof. apply window_sorted. exact Href. Qed.
Lemma HQ : StronglySorted (fun a b => 0 < dirz reverse * (site b - site a) /\ lpos a <= lpos b) eQ.
Proof. apply labels_sorted. exact Hqry. Qed.

Lemma engine_unfold : eout = sort_by abs_pos epre.
Proof. unfold eout, align_engine. rewrite (window_is_takewhile d start stop reference Href). reflexivity. Qed.

Lemma eout_in a : In a eout <-> In a epre.
Proof. rewrite engine_unfold. apply sort_by_in. Qed.

Lemma epre_cases a : In a epre <->
  (exists c, a = mkpair c /\ In c eP) \/
  (exists r, a = URef r /\ In r eR /\ ~ In (site r) (map rsite eP)) \/
  (exists q, a = UQry q start /\ In q eQ /\ ~ In (site q) (map qsite eP)).
Proof. unfold epre. rewrite !in_app_iff. split.
  - intros [H|[H|H]]; apply in_map_iff in H; destruct H as (x & <- & Hx).
    + left. exists x. auto.
    + right; left. exists x. apply filter_In in Hx. rewrite mem_site_not_in in Hx. auto.
    + right; right. exists x. apply filter_In in Hx. rewrite mem_site_not_in in Hx. auto.
  - intros [(c & -> & Hc)|[(r & -> & H1 & H2)|(q & -> & H1 & H2)]].
    + left. apply in_map. exact Hc.
    + right; left. apply in_map. apply filter_In. rewrite mem_site_not_in. auto.
    + right; right. apply (in_map (fun q => UQry q start)). apply filter_In. rewrite mem_site_not_in. auto. Qed.
Lemma epre_pair r q s src : In (Pair r q s src) epre <-> src = iteration /\ In (mkCand r q s) eP.
Proof. rewrite epre_cases. split.
  - intros [(c & E & Hc)|[(x & E & _)|(x & E & _)]]; try discriminate. unfold mkpair in E. inversion E; subst. destruct c; cbn. auto.
  - intros (-> & Hc). left. exists (mkCand r q s). split; [reflexivity | exact Hc]. Qed.
Lemma epre_uref r : In (URef r) epre <-> In r eR /\ ~ In (site r) (map rsite eP).
Proof. rewrite epre_cases. split.
  - intros [(c & E & _)|[(x & E & Hx)|(x & E & _)]]; try discriminate. inversion E; subst. exact Hx.
  - intros H. right; left. exists r. auto. Qed.
Lemma epre_uqry q s : In (UQry q s) epre <-> s = start /\ In q eQ /\ ~ In (site q) (map qsite eP).
Proof. rewrite epre_cases. split.
  - intros [(c & E & _)|[(x & E & _)|(x & E & Hx)]]; try discriminate. inversion E; subst. auto.
  - intros (-> & H). right; right. exists q. auto. Qed.

(* ---------- the kept pairs: one-to-one, monotone ---------- *)
Lemma eP_r_inj c1 c2 : In c1 eP -> In c2 eP -> rsite c1 = rsite c2 -> c1 = c2.
Proof. intros H1 H2 E. destruct (SS_in_cases _ eP c1 c2 (P_rsorted d start eR eQ) H1 H2) as [H|[H|H]]; [exact H | lia | lia]. Qed.
Lemma eP_q_inj c1 c2 : In c1 eP -> In c2 eP -> qsite c1 = qsite c2 -> c1 = c2.
Proof. intros H1 H2 E. apply P_in_P1 in H1, H2.
  destruct (SS_in_cases _ _ c1 c2 (P1_qsorted d start eR eQ) H1 H2) as [H|[H|H]]; [exact H | lia | lia]. Qed.

Lemma eP_monotone c1 c2 : In c1 eP -> In c2 eP ->
  (rsite c1 < rsite c2 <-> 0 < dirz reverse * (qsite c2 - qsite c1)) /\
  (rsite c1 < rsite c2 -> lpos (cr c1) <= lpos (cr c2) /\ lpos (cq c1) < lpos (cq c2)).
Proof. intros H1 H2. split; [split|].
  - apply (P_monotone_site d start (dirz reverse) eR eQ HR HQ c1 c2 H1 H2).
  - intros Hq. destruct (Z.lt_trichotomy (rsite c1) (rsite c2)) as [L|[E|G]]; [exact L | |].
    + rewrite (eP_r_inj c1 c2 H1 H2 E) in Hq. lia.
    + pose proof (P_monotone_site d start (dirz reverse) eR eQ HR HQ c2 c1 H2 H1 G). lia.
  - intros L. split; [|apply (P_monotone_pos d start (dirz reverse) eR eQ HR HQ c1 c2 H1 H2 L)].
    destruct (P_within d start (dirz reverse) eR eQ HQ c1 H1) as (Hr1 & _). destruct (P_within d start (dirz reverse) eR eQ HQ c2 H2) as (Hr2 & _).
    apply (R_order eR HR _ _ Hr1 Hr2 L). Qed.

Lemma eP_qsorted : StronglySorted (fun a b => 0 < dirz reverse * (qsite b - qsite a)) eP.
Proof. pose proof (P_rsorted d start eR eQ) as Hs. fold eP in Hs.
  assert (G : forall l, (forall c, In c l -> In c eP) -> StronglySorted (fun a b => rsite a < rsite b) l ->
               StronglySorted (fun a b => 0 < dirz reverse * (qsite b - qsite a)) l).
  { induction l as [|x t IH]; intros Hin H; [constructor|]. inversion H as [|? ? Ht Hx]; subst. constructor.
    - apply IH; [intros c Hc; apply Hin; right; exact Hc | exact Ht].
    - rewrite Forall_forall in *. intros y Hy. apply (eP_monotone x y); [apply Hin; left; reflexivity | apply Hin; right; exact Hy | apply Hx; exact Hy]. }
  apply G; [auto | exact Hs]. Qed.

(* ---------- partition ---------- *)
Lemma ref_labels_pre : ref_labels epre = map cr eP ++ filter (fun r => negb (mem_site (site r) (map rsite eP))) eR.
Proof. unfold ref_labels, epre. rewrite !flat_map_app.
  assert (E1 : forall l, flat_map (fun a => match a with Pair r _ _ _ => [r] | URef r => [r] | UQry _ _ => [] end) (map mkpair l) = map cr l)
    by (induction l as [|x t IH]; cbn; [|rewrite IH]; reflexivity).
  assert (E2 : forall l, flat_map (fun a => match a with Pair r _ _ _ => [r] | URef r => [r] | UQry _ _ => [] end) (map URef l) = l)
    by (induction l as [|x t IH]; cbn; [|rewrite IH]; reflexivity).
  assert (E3 : forall l, flat_map (fun a => match a with Pair r _ _ _ => [r] | URef r => [r] | UQry _ _ => [] end) (map (fun q => UQry q start) l) = [])
    by (induction l as [|x t IH]; cbn; [|rewrite IH]; reflexivity).
  rewrite E1, E2, E3, app_nil_r. reflexivity. Qed.
Lemma qry_labels_pre : qry_labels epre = map cq eP ++ filter (fun q => negb (mem_site (site q) (map qsite eP))) eQ.
Proof. unfold qry_labels, epre. rewrite !flat_map_app.
  assert (E1 : forall l, flat_map (fun a => match a with Pair _ q _ _ => [q] | UQry q _ => [q] | URef _ => [] end) (map mkpair l) = map cq l)
    by (induction l as [|x t IH]; cbn; [|rewrite IH]; reflexivity).
  assert (E2 : forall l, flat_map (fun a => match a with Pair _ q _ _ => [q] | UQry q _ => [q] | URef _ => [] end) (map URef l) = [])
    by (induction l as [|x t IH]; cbn; [|rewrite IH]; reflexivity).
  assert (E3 : forall l, flat_map (fun a => match a with Pair _ q _ _ => [q] | UQry q _ => [q] | URef _ => [] end) (map (fun q => UQry q start) l) = l)
    by (induction l as [|x t IH]; cbn; [|rewrite IH]; reflexivity).
  rewrite E1, E2, E3. reflexivity. Qed.

Lemma NoDup_R : NoDup eR.
Proof. apply (NoDup_map_inv site). apply SS_lt_NoDup. apply (SS_weaken _ _ _ (fun a b H => proj1 H) HR). Qed.
Lemma NoDup_Q : NoDup eQ.
Proof. apply (NoDup_map_inv site). apply (SS_dir_NoDup site (dirz reverse)). apply (SS_weaken _ _ _ (fun a b H => proj1 H) HQ). Qed.

Lemma paired_refs_perm : Permutation (map cr eP) (filter (fun r => mem_site (site r) (map rsite eP)) eR).
Proof. apply NoDup_Permutation.
  - apply (NoDup_map_inv site). rewrite map_map. apply (SS_lt_NoDup rsite). apply P_rsorted.
  - apply NoDup_filter, NoDup_R.
  - intros x. rewrite filter_In, mem_site_in, !in_map_iff. split.
    + intros (c & <- & Hc). split; [apply (P_within d start (dirz reverse) eR eQ HQ c Hc) | exists c; split; [reflexivity | exact Hc]].
    + intros (Hx & c & E & Hc). exists c. split; [|exact Hc].
      apply (R_site_inj eR HR); [apply (P_within d start (dirz reverse) eR eQ HQ c Hc) | exact Hx | exact E]. Qed.
Lemma paired_qrys_perm : Permutation (map cq eP) (filter (fun q => mem_site (site q) (map qsite eP)) eQ).
Proof. apply NoDup_Permutation.
  - apply (NoDup_map_inv site). rewrite map_map. apply (SS_dir_NoDup qsite (dirz reverse)). apply eP_qsorted.
  - apply NoDup_filter, NoDup_Q.
  - intros x. rewrite filter_In, mem_site_in, !in_map_iff. split.
    + intros (c & <- & Hc). split; [apply (P_within d start (dirz reverse) eR eQ HQ c Hc) | exists c; split; [reflexivity | exact Hc]].
    + intros (Hx & c & E & Hc). exists c. split; [|exact Hc].
      apply (Q_site_inj (dirz reverse) eQ HQ); [apply (P_within d start (dirz reverse) eR eQ HQ c Hc) | exact Hx | exact E]. Qed.

Theorem engine_partition :
  Permutation (ref_labels eout) (window d start stop reference) /\
  Permutation (qry_labels eout) (positions_with_ids query reverse) /\
  NoDup (map site (ref_labels eout)) /\ NoDup (map site (qry_labels eout)) /\
  (forall q s, In (UQry q s) eout -> s = start) /\
  (forall r q s src, In (Pair r q s src) eout -> src = iteration).
Proof.
  assert (PR : Permutation (ref_labels eout) eR).
  { rewrite engine_unfold. unfold ref_labels at 1. rewrite (Permutation_flat_map _ (sort_by_perm abs_pos epre)).
    fold (ref_labels epre). rewrite ref_labels_pre, paired_refs_perm. apply filter_split_perm. }
  assert (PQ : Permutation (qry_labels eout) eQ).
  { rewrite engine_unfold. unfold qry_labels at 1. rewrite (Permutation_flat_map _ (sort_by_perm abs_pos epre)).
    fold (qry_labels epre). rewrite qry_labels_pre, paired_qrys_perm. apply filter_split_perm. }
  repeat split.
  - exact PR.
  - exact PQ.
  - apply (Permutation_NoDup (Permutation_map site (Permutation_sym PR))). apply SS_lt_NoDup. apply (SS_weaken _ _ _ (fun a b H => proj1 H) HR).
  - apply (Permutation_NoDup (Permutation_map site (Permutation_sym PQ))). apply (SS_dir_NoDup site (dirz reverse)). apply (SS_weaken _ _ _ (fun a b H => proj1 H) HQ).
  - intros q s H. apply eout_in, epre_uqry in H. tauto.
  - intros r q s src H. apply eout_in, epre_pair in H. tauto.
Qed.

(* ---------- order of the returned list ---------- *)
Lemma epre_tie_sorted : StronglySorted (tie_order (dirz reverse)) epre.
Proof. unfold epre. apply SS_app; [|apply SS_app|].
  - apply SS_map. cbn. apply P_rsorted.
  - apply SS_map. cbn. apply SS_filter. apply (SS_weaken _ _ _ (fun a b H => proj1 H) HR).
  - apply SS_map. cbn. apply SS_filter. apply (SS_weaken _ _ _ (fun a b H => proj1 H) HQ).
  - intros a b Ha Hb. apply in_map_iff in Ha, Hb. destruct Ha as (x & <- & _), Hb as (y & <- & _). cbn. lia.
  - intros a b Ha Hb. apply in_map_iff in Ha. destruct Ha as (x & <- & _). apply in_app_iff in Hb.
    destruct Hb as [Hb|Hb]; apply in_map_iff in Hb; destruct Hb as (y & <- & _); cbn; lia. Qed.

Theorem engine_sorted :
  StronglySorted (fun a b => abs_pos a <= abs_pos b /\ (abs_pos a = abs_pos b -> tie_order (dirz reverse) a b)) eout.
Proof. rewrite engine_unfold. apply sort_by_stable_SS. exact epre_tie_sorted. Qed.

(* ---------- pairs ---------- *)
Theorem engine_within r q s src : In (Pair r q s src) eout ->
  In r (window d start stop reference) /\ In q (positions_with_ids query reverse) /\
  s = lpos q - (lpos r - start) /\ Z.abs s <= d /\ src = iteration.
Proof. intros H. apply eout_in, epre_pair in H. destruct H as (-> & Hc).
  destruct (P_within d start (dirz reverse) eR eQ HQ _ Hc) as (H1 & H2 & H3 & H4). cbn in *. auto. Qed.

Theorem engine_one_to_one_monotone r1 q1 s1 src1 r2 q2 s2 src2 :
  In (Pair r1 q1 s1 src1) eout -> In (Pair r2 q2 s2 src2) eout ->
  (site r1 < site r2 <-> if reverse then site q2 < site q1 else site q1 < site q2) /\
  (site r1 < site r2 -> lpos r1 <= lpos r2 /\ lpos q1 < lpos q2) /\
  (site r1 = site r2 <-> site q1 = site q2) /\
  (site r1 = site r2 -> Pair r1 q1 s1 src1 = Pair r2 q2 s2 src2).
Proof. intros H1 H2. apply eout_in, epre_pair in H1, H2. destruct H1 as (-> & H1), H2 as (-> & H2).
  destruct (eP_monotone _ _ H1 H2) as (M1 & M2). unfold rsite, qsite in M1, M2. cbn in M1, M2.
  assert (Er : site r1 = site r2 -> mkCand r1 q1 s1 = mkCand r2 q2 s2) by (intros E; apply (eP_r_inj _ _ H1 H2 E)).
  assert (Eq : site q1 = site q2 -> mkCand r1 q1 s1 = mkCand r2 q2 s2) by (intros E; apply (eP_q_inj _ _ H1 H2 E)).
  repeat split.
  - intros L. apply M1 in L. unfold dirz in L. destruct reverse; lia.
  - intros L. apply M1. unfold dirz. destruct reverse; lia.
  - apply M2; assumption.
  - apply M2; assumption.
  - intros E. specialize (Er E). congruence.
  - intros E. specialize (Eq E). congruence.
  - intros E. specialize (Er E). congruence.
Qed.

Definition pair_refs (out : list apos) : list Z := flat_map (fun a => match a with Pair r _ _ _ => [site r] | _ => [] end) out.
Definition pair_qrys (out : list apos) : list Z := flat_map (fun a => match a with Pair _ q _ _ => [site q] | _ => [] end) out.

Lemma pair_refs_pre : pair_refs epre = map rsite eP.
Proof. unfold pair_refs, epre. rewrite !flat_map_app.
  assert (E1 : forall l, flat_map (fun a => match a with Pair r _ _ _ => [site r] | _ => [] end) (map mkpair l) = map rsite l)
    by (induction l as [|x t IH]; cbn; [|rewrite IH]; reflexivity).
  assert (E2 : forall l, flat_map (fun a => match a with Pair r _ _ _ => [site r] | _ => [] end) (map URef l) = [])
    by (induction l as [|x t IH]; cbn; [|rewrite IH]; reflexivity).
  assert (E3 : forall l, flat_map (fun a => match a with Pair r _ _ _ => [site r] | _ => [] end) (map (fun q => UQry q start) l) = [])
    by (induction l as [|x t IH]; cbn; [|rewrite IH]; reflexivity).
  rewrite E1, E2, E3, !app_nil_r. reflexivity. Qed.
Lemma pair_qrys_pre : pair_qrys epre = map qsite eP.
Proof. unfold pair_qrys, epre. rewrite !flat_map_app.
  assert (E1 : forall l, flat_map (fun a => match a with Pair _ q _ _ => [site q] | _ => [] end) (map mkpair l) = map qsite l)
    by (induction l as [|x t IH]; cbn; [|rewrite IH]; reflexivity).
  assert (E2 : forall l, flat_map (fun a => match a with Pair _ q _ _ => [site q] | _ => [] end) (map URef l) = [])
    by (induction l as [|x t IH]; cbn; [|rewrite IH]; reflexivity).
  assert (E3 : forall l, flat_map (fun a => match a with Pair _ q _ _ => [site q] | _ => [] end) (map (fun q => UQry q start) l) = [])
    by (induction l as [|x t IH]; cbn; [|rewrite IH]; reflexivity).
  rewrite E1, E2, E3, !app_nil_r. reflexivity. Qed.

Theorem engine_pair_sites_nodup : NoDup (pair_refs eout) /\ NoDup (pair_qrys eout).
Proof. rewrite engine_unfold. split.
  - apply (Permutation_NoDup (l := pair_refs epre)); [symmetry; apply (Permutation_flat_map _ (sort_by_perm abs_pos epre))|].
    rewrite pair_refs_pre. apply (SS_lt_NoDup rsite). apply P_rsorted.
  - apply (Permutation_NoDup (l := pair_qrys epre)); [symmetry; apply (Permutation_flat_map _ (sort_by_perm abs_pos epre))|].
    rewrite pair_qrys_pre. apply (SS_dir_NoDup qsite (dirz reverse)). apply eP_qsorted. Qed.

Theorem engine_mutual_nearest r q :
  In r (window d start stop reference) -> In q (positions_with_ids query reverse) ->
  Z.abs (lpos q - (lpos r - start)) <= d ->
  (forall q', In q' (positions_with_ids query reverse) -> q' <> q ->
     Z.abs (lpos q - (lpos r - start)) < Z.abs (lpos q' - (lpos r - start))) ->
  (forall r', In r' (window d start stop reference) -> r' <> r ->
     Z.abs (lpos q - (lpos r - start)) < Z.abs (lpos q - (lpos r' - start))) ->
  In (Pair r q (lpos q - (lpos r - start)) iteration) eout.
Proof. intros Hr Hq Hw Hnq Hnr. apply eout_in, epre_pair. split; [reflexivity|].
  apply (P_mutual_nearest d start (dirz reverse) eR eQ HR HQ r q Hr Hq Hw Hnq Hnr). Qed.
(* ---------- the Pair entries in output order ---------- *)
Lemma filter_pairs_pre : filter is_pair_apos epre = map mkpair eP.
Proof. unfold epre. rewrite !filter_app.
  assert (E1 : forall l, filter is_pair_apos (map mkpair l) = map mkpair l) by (induction l as [|x t IH]; cbn; [|rewrite IH]; reflexivity).
  assert (E2 : forall l, filter is_pair_apos (map URef l) = []) by (induction l as [|x t IH]; cbn; [|rewrite IH]; reflexivity).
  assert (E3 : forall l, filter is_pair_apos (map (fun q => UQry q start) l) = []) by (induction l as [|x t IH]; cbn; [|rewrite IH]; reflexivity).
  rewrite E1, E2, E3, !app_nil_r. reflexivity. Qed.

Lemma eP_pair_order : StronglySorted (pair_order (dirz reverse)) (map mkpair eP).
Proof. pose proof (P_rsorted d start eR eQ) as Hs. fold eP in Hs. apply SS_map.
  assert (G : forall l, (forall c, In c l -> In c eP) -> StronglySorted (fun a b => rsite a < rsite b) l ->
               StronglySorted (fun a b => pair_order (dirz reverse) (mkpair a) (mkpair b)) l).
  { induction l as [|x t IH]; intros Hin H; [constructor|]. inversion H as [|? ? Ht Hx]; subst. constructor.
    - apply IH; [intros c Hc; apply Hin; right; exact Hc | exact Ht].
    - rewrite Forall_forall in *. intros y Hy. specialize (Hx y Hy).
      destruct (eP_monotone x y (Hin x (or_introl eq_refl)) (Hin y (or_intror Hy))) as (M1 & M2).
      apply M1 in Hx as Hq. destruct (M2 Hx) as (M3 & M4). unfold rsite, qsite in *. cbn [pair_order mkpair].
      repeat split; try assumption. unfold dirz in *. destruct reverse; lia. }
  apply G; [auto | exact Hs]. Qed.

(* the stable final sort leaves the kept pairs in the order deduplicate produced them (ascending reference site) *)
Theorem engine_pairs_eq : filter is_pair_apos eout = map mkpair eP.
Proof. rewrite engine_unfold, sort_by_filter_sorted; [apply filter_pairs_pre|]. rewrite filter_pairs_pre.
  apply (SS_weaken (pair_order (dirz reverse))); [|exact eP_pair_order].
  intros [r1 q1 s1 c1|r1|q1 s1] [r2 q2 s2 c2|r2|q2 s2]; cbn; tauto. Qed.

Theorem engine_pairs_in_order : StronglySorted (pair_order (dirz reverse)) (filter is_pair_apos eout).
Proof. rewrite engine_pairs_eq. exact eP_pair_order. Qed.

Theorem engine_pairs_in_order_subrun m n : StronglySorted (pair_order (dirz reverse)) (filter is_pair_apos (firstn n (skipn m eout))).
Proof. apply SS_filter_subrun. exact engine_pairs_in_order. Qed.
End Engine.

(* Lemmas for C17, part 1: generic list facts and the closed form of cmap_read.
   cmap_read rows ids = read_spec rows ids, where read_spec walks the strictly ascending list of the ids present in the file,
   keeps the selected ones and builds each molecule from the label rows / end-marker rows of that id. *)
From Coq Require Import ZArith List Bool Lia Sorting.Permutation Sorting.Sorted.
Import ListNotations.
Require Import Py Pairing Cmap PyProofs.
Open Scope Z_scope.

(* ---------------------------------------------------------------- generic list facts *)
Section G.
Context {A : Type}.

Lemma filter_filter' (f g : A -> bool) l : filter f (filter g l) = filter (fun x => g x && f x) l.
Proof. induction l as [|x t IH]; [reflexivity|]. cbn [filter]. destruct (g x); cbn [filter andb]; [destruct (f x)|]; rewrite IH; reflexivity. Qed.

Lemma filter_ext_in' (f g : A -> bool) l : (forall x, In x l -> f x = g x) -> filter f l = filter g l.
Proof. induction l as [|x t IH]; intros H; [reflexivity|]. cbn [filter]. rewrite (H x (or_introl eq_refl)), IH; [reflexivity|].
  intros; apply H; right; assumption. Qed.

Lemma filter_perm' (f : A -> bool) l l' : Permutation l l' -> Permutation (filter f l) (filter f l').
Proof. induction 1 as [|x l l' _ IH|x y l|l l' l'' _ IH1 _ IH2]; cbn [filter].
  - constructor.
  - destruct (f x); [constructor|]; exact IH.
  - destruct (f x), (f y); try reflexivity. apply perm_swap.
  - etransitivity; eassumption. Qed.

Lemma sorted_filter (R : A -> A -> Prop) (p : A -> bool) l : StronglySorted R l -> StronglySorted R (filter p l).
Proof. induction 1 as [|x l Hs IH Hx]; cbn [filter]; [constructor|]. destruct (p x); [|exact IH].
  constructor; [exact IH|]. rewrite Forall_forall in *. intros y Hy. apply filter_In in Hy. apply Hx, Hy. Qed.

Lemma last_map' {B} (f : A -> B) l d d' : l <> [] -> last (map f l) d' = f (last l d).
Proof. induction l as [|x t IH]; intros H; [congruence|]. destruct t as [|y t']; [reflexivity|].
  change (last (map f (y :: t')) d' = f (last (y :: t') d)). apply IH. congruence. Qed.

Lemma in_notnull (l : list (option A)) a : In a (notnull l) <-> In (Some a) l.
Proof. induction l as [|[b|] t IH]; cbn [notnull In].
  - tauto.
  - rewrite IH. split; intros [H|H]; auto; left; congruence.
  - rewrite IH. split; [auto|]. intros [H|H]; [discriminate|exact H]. Qed.
End G.

(* a strictly ascending list is determined by its set of members *)
Lemma sorted_lt_unique l1 : forall l2, StronglySorted Z.lt l1 -> StronglySorted Z.lt l2 -> (forall x, In x l1 <-> In x l2) -> l1 = l2.
Proof.
  induction l1 as [|a t IH]; intros l2 H1 H2 Hin.
  - destruct l2 as [|b u]; [reflexivity|]. destruct (proj2 (Hin b) (or_introl eq_refl)).
  - destruct l2 as [|b u]; [destruct (proj1 (Hin a) (or_introl eq_refl))|].
    inversion H1 as [|? ? H1t H1a]; inversion H2 as [|? ? H2t H2b]; subst. rewrite Forall_forall in H1a, H2b.
    assert (a = b).
    { destruct (proj1 (Hin a) (or_introl eq_refl)) as [E|Ha]; [congruence|].
      destruct (proj2 (Hin b) (or_introl eq_refl)) as [E|Hb]; [congruence|].
      specialize (H1a b Hb). specialize (H2b a Ha). lia. }
    subst b. f_equal. apply IH; [assumption|assumption|]. intros x. split; intros Hx.
    + destruct (proj1 (Hin x) (or_intror Hx)) as [E|Hx']; [|exact Hx']. subst x. specialize (H1a a Hx). lia.
    + destruct (proj2 (Hin x) (or_intror Hx)) as [E|Hx']; [|exact Hx']. subst x. specialize (H2b a Hx). lia.
Qed.

(* an ascending list is determined by its multiset of members *)
Lemma sorted_le_perm_eq l1 : forall l2, StronglySorted Z.le l1 -> StronglySorted Z.le l2 -> Permutation l1 l2 -> l1 = l2.
Proof.
  induction l1 as [|a t IH]; intros l2 H1 H2 P.
  - apply Permutation_nil in P. congruence.
  - destruct l2 as [|b u]; [symmetry in P; apply Permutation_nil in P; discriminate|].
    inversion H1 as [|? ? H1t H1a]; inversion H2 as [|? ? H2t H2b]; subst. rewrite Forall_forall in H1a, H2b.
    assert (a = b).
    { pose proof (Permutation_in a P (or_introl eq_refl)) as [E|Ha]; [congruence|].
      pose proof (Permutation_in b (Permutation_sym P) (or_introl eq_refl)) as [E|Hb]; [congruence|].
      specialize (H1a b Hb). specialize (H2b a Ha). lia. }
    subst b. f_equal. apply IH; [assumption|assumption|]. eapply Permutation_cons_inv; exact P.
Qed.

Lemma sort_values_perm l : Permutation (sort_values l) l.
Proof. apply sort_by_perm. Qed.
Lemma sort_values_sorted l : StronglySorted Z.le (sort_values l).
Proof. exact (sort_by_sorted (fun p : Z => p) l). Qed.
Lemma sort_values_perm_eq l l' : Permutation l l' -> sort_values l = sort_values l'.
Proof. intros P. apply sorted_le_perm_eq; try apply sort_values_sorted.
  rewrite !sort_values_perm. exact P. Qed.
Lemma sort_values_nil l : sort_values l = [] <-> l = [].
Proof. split; intros H; [|subst; reflexivity]. pose proof (sort_values_perm l) as P. rewrite H in P. apply Permutation_nil in P. exact P. Qed.

(* ---------------------------------------------------------------- mapM *)
Section M.
Context {A B : Type}.
Lemma mapM_map {C} (f : A -> res B) (g : C -> A) l : mapM f (map g l) = mapM (fun x => f (g x)) l.
Proof. induction l as [|x t IH]; [reflexivity|]. cbn [map mapM]. rewrite IH. reflexivity. Qed.
Lemma mapM_ext_in (f g : A -> res B) l : (forall x, In x l -> f x = g x) -> mapM f l = mapM g l.
Proof. induction l as [|x t IH]; intros H; [reflexivity|]. cbn [mapM]. rewrite (H x (or_introl eq_refl)), IH; [reflexivity|].
  intros; apply H; right; assumption. Qed.
Lemma mapM_ok (f : A -> res B) (g : A -> B) l : (forall x, In x l -> f x = Ok (g x)) -> mapM f l = Ok (map g l).
Proof. induction l as [|x t IH]; intros H; [reflexivity|]. cbn [mapM map]. rewrite (H x (or_introl eq_refl)), IH; [reflexivity|].
  intros; apply H; right; assumption. Qed.
Lemma mapM_err (f : A -> res B) l : mapM f l = Err <-> exists x, In x l /\ f x = Err.
Proof. induction l as [|x t IH]; cbn [mapM].
  - split; [discriminate| intros (x & [] & _)].
  - destruct (f x) as [y|] eqn:E; cbn [bind].
    + destruct (mapM f t) as [ys|] eqn:Et; cbn [bind].
      * split; [discriminate|]. intros (z & [<-|Hz] & Ez); [congruence|]. apply proj2 in IH. discriminate IH. exists z; auto.
      * split; [|reflexivity]. intros _. destruct (proj1 IH eq_refl) as (z & Hz & Ez). exists z; split; [right|]; assumption.
    + split; [|reflexivity]. intros _. exists x; split; [left; reflexivity|exact E]. Qed.
End M.

(* ---------------------------------------------------------------- vocabulary of the statements *)
(* `if moleculeIds:` an empty filter selects everything *)
Definition sel (ids : list Z) (i : Z) : Prop := ids = [] \/ In i ids.
Definition selected (ids : list Z) (i : Z) : bool := match ids with [] => true | _ :: _ => mem_id i ids end.
(* positions of the label rows / of the end-marker rows of molecule i, in file order *)
Definition labels_of (rows : list row) (i : Z) : list Z := map rpos (filter (fun r => (rid r =? i) && negb (rch r =? 0)) rows).
Definition markers_of (rows : list row) (i : Z) : list Z := map rpos (filter (fun r => (rid r =? i) && (rch r =? 0)) rows).

Lemma mem_id_In i ids : mem_id i ids = true <-> In i ids.
Proof. unfold mem_id. rewrite existsb_exists. split.
  - intros (x & Hx & E). apply Z.eqb_eq in E. subst. exact Hx.
  - intros H. exists i. split; [exact H | apply Z.eqb_refl]. Qed.
Lemma selected_sel ids i : selected ids i = true <-> sel ids i.
Proof. unfold sel. destruct ids as [|a t]; cbn [selected].
  - split; auto.
  - rewrite mem_id_In. split; [auto|]. intros [H|H]; [discriminate|exact H]. Qed.

(* ---------------------------------------------------------------- pandas groupby as "one filter per key" *)
Definition keys (maps : list row) : list Z := map (fun g => gkey rid g 0) (groupby rid (sort_by rid maps)).

Lemma keys_sorted maps : StronglySorted Z.lt (keys maps).
Proof. apply groupby_sort_by_keys. Qed.

Lemma groups_as_filters maps : groupby rid (sort_by rid maps) = map (fun i => filter (fun r => rid r =? i) maps) (keys maps).
Proof. unfold keys. rewrite map_map. rewrite <- (map_id (groupby rid (sort_by rid maps))) at 1.
  apply map_ext_in. intros g Hg. apply (groupby_sort_by_filter rid maps g Hg). Qed.

Lemma keys_in maps i : In i (keys maps) <-> exists r, In r maps /\ rid r = i.
Proof. unfold keys. rewrite in_map_iff. split.
  - intros (g & <- & Hg). destruct (groupby_sort_by_filter rid maps g Hg) as (Hne & Hf).
    destruct g as [|r g']; [congruence|]. exists r. split; [|reflexivity].
    assert (Hr : In r (r :: g')) by (left; reflexivity). rewrite Hf in Hr. apply filter_In in Hr. apply Hr.
  - intros (r & Hr & <-). destruct (groupby_sort_by_covers rid maps r Hr) as (g & Hg & Hrg). exists g. split; [|exact Hg].
    destruct (groupby_sort_by_filter rid maps g Hg) as (Hne & Hf). rewrite Hf in Hrg. apply filter_In in Hrg.
    destruct Hrg as (_ & E). apply Z.eqb_eq in E. symmetry. exact E. Qed.

(* what __parseCmapRowsGroup returns for the group of id i *)
Definition parse_id (rows : list row) (i : Z) : res (option omap) :=
  match markers_of rows i with
  | [] => Err
  | p :: _ => Ok (match sort_values (labels_of rows i) with [] => None | ps => Some (mkMap i (trunc_bp p) ps 0) end)
  end.

Lemma parse_group_filter maps i : filter (fun r => rid r =? i) maps <> [] ->
  parse_group (filter (fun r => rid r =? i) maps) = parse_id maps i.
Proof.
  intros Hne. unfold parse_group, parse_id, markers_of, labels_of.
  destruct (filter (fun r => rid r =? i) maps) as [|r0 g] eqn:E; [congruence|].
  assert (H0 : rid r0 = i).
  { assert (Hr : In r0 (r0 :: g)) by (left; reflexivity). rewrite <- E in Hr. apply filter_In in Hr. apply Z.eqb_eq, Hr. }
  rewrite <- E, !filter_filter'.
  destruct (filter (fun x => (rid x =? i) && (rch x =? 0)) maps) as [|mk t]; cbn [map]; [reflexivity|].
  rewrite H0. destruct (sort_values _); reflexivity.
Qed.

Definition maps_of (rows : list row) (ids : list Z) : list row := filter (fun r => selected ids (rid r)) rows.

Lemma cmap_read_parse_id rows ids :
  cmap_read rows ids = do rs <- mapM (parse_id (maps_of rows ids)) (keys (maps_of rows ids)); Ok (notnull rs).
Proof.
  unfold cmap_read.
  assert (E : match ids with [] => rows | _ :: _ => filter (fun r => mem_id (rid r) ids) rows end = maps_of rows ids).
  { unfold maps_of. destruct ids; [|reflexivity]. symmetry. apply filter_all. reflexivity. }
  rewrite E. set (maps := maps_of rows ids). rewrite groups_as_filters, mapM_map.
  rewrite (mapM_ext_in _ (parse_id maps)); [reflexivity|].
  intros i Hi. apply parse_group_filter. apply keys_in in Hi. destruct Hi as (r & Hr & Hi).
  intros F. assert (Hin : In r (filter (fun r => rid r =? i) maps)) by (apply filter_In; split; [exact Hr | apply Z.eqb_eq, Hi]).
  rewrite F in Hin. destruct Hin.
Qed.

(* the selection only removes whole molecules *)
Lemma labels_of_maps rows ids i : selected ids i = true -> labels_of (maps_of rows ids) i = labels_of rows i.
Proof. intros H. unfold labels_of, maps_of. rewrite filter_filter'. f_equal. apply filter_ext_in'. intros r _.
  destruct (rid r =? i) eqn:E; [|rewrite andb_false_r; reflexivity]. apply Z.eqb_eq in E. rewrite E, H. reflexivity. Qed.
Lemma markers_of_maps rows ids i : selected ids i = true -> markers_of (maps_of rows ids) i = markers_of rows i.
Proof. intros H. unfold markers_of, maps_of. rewrite filter_filter'. f_equal. apply filter_ext_in'. intros r _.
  destruct (rid r =? i) eqn:E; [|rewrite andb_false_r; reflexivity]. apply Z.eqb_eq in E. rewrite E, H. reflexivity. Qed.

Lemma keys_maps rows ids : keys (maps_of rows ids) = filter (selected ids) (keys rows).
Proof. apply sorted_lt_unique; [apply keys_sorted | apply sorted_filter, keys_sorted |].
  intros i. rewrite filter_In, !keys_in. unfold maps_of. split.
  - intros (r & Hr & <-). apply filter_In in Hr. split; [exists r; split; [apply Hr | reflexivity] | apply Hr].
  - intros ((r & Hr & <-) & Hs). exists r. split; [|reflexivity]. apply filter_In. split; assumption. Qed.

(* ---------------------------------------------------------------- closed form *)
Definition read_spec (rows : list row) (ids : list Z) : res (list omap) :=
  do rs <- mapM (parse_id rows) (filter (selected ids) (keys rows)); Ok (notnull rs).

Theorem cmap_read_spec rows ids : cmap_read rows ids = read_spec rows ids.
Proof. rewrite cmap_read_parse_id. unfold read_spec. rewrite keys_maps.
  rewrite (mapM_ext_in _ (parse_id rows)); [reflexivity|].
  intros i Hi. apply filter_In in Hi. destruct Hi as (_ & Hs). unfold parse_id.
  rewrite labels_of_maps, markers_of_maps by exact Hs. reflexivity. Qed.

(* every id in the file has a label row or an end-marker row *)
Lemma key_has_row rows i : In i (keys rows) -> labels_of rows i <> [] \/ markers_of rows i <> [].
Proof. intros Hi. apply keys_in in Hi. destruct Hi as (r & Hr & E). unfold labels_of, markers_of.
  destruct (rch r =? 0) eqn:C; [right|left]; intros F; apply map_eq_nil in F.
  - assert (Hin : In r (filter (fun r => (rid r =? i) && (rch r =? 0)) rows)).
    { apply filter_In. split; [exact Hr|]. rewrite C, (proj2 (Z.eqb_eq _ _) E). reflexivity. }
    rewrite F in Hin. destruct Hin.
  - assert (Hin : In r (filter (fun r => (rid r =? i) && negb (rch r =? 0)) rows)).
    { apply filter_In. split; [exact Hr|]. rewrite C, (proj2 (Z.eqb_eq _ _) E). reflexivity. }
    rewrite F in Hin. destruct Hin. Qed.
Lemma labels_key rows i : labels_of rows i <> [] -> In i (keys rows).
Proof. intros H. apply keys_in. unfold labels_of in H. destruct (filter _ rows) as [|r t] eqn:E; [exfalso; apply H; reflexivity|].
  assert (Hr : In r (r :: t)) by (left; reflexivity). rewrite <- E in Hr. apply filter_In in Hr. destruct Hr as (Hr & C).
  apply andb_true_iff in C. exists r. split; [exact Hr | apply Z.eqb_eq, C]. Qed.

(* C02, part 3: the text of a record: which value lands in which column, XmapEntryID = position in the file. *)
From Coq Require Import ZArith List Bool Lia String Ascii.
Import ListNotations.
Require Import Py Pairing Core Multi Cigar Xmap XmapProofs1 XmapProofs2 Record.
Open Scope Z_scope.
Local Open Scope string_scope.

(* the fifteen tab separated fields of a data line, recovered by splitting the line at the tabs *)
Theorem write_row_fields i r :
  split_on TAB (write_row i r) =
  [ print_int i; print_int (x_qid r); print_int (x_rid r);
    print_tenths (x_qstart r); print_tenths (x_qend r); print_tenths (x_rstart r); print_tenths (x_rend r);
    (if x_rev r then "-" else "+"); print_hundredths (x_conf r); render (x_runs r);
    print_tenths (x_qlen r); print_tenths (x_rlen r); (if x_rest r then "True" else "False"); "1"; print_pairs (x_pairs r) ].
Proof.
  unfold write_row. apply split_join; [discriminate|].
  repeat apply Forall_cons; try apply Forall_nil.
  1-3: apply (no_tab_of INTC); [reflexivity | apply print_int_chars].
  1-4,8-9: apply (no_tab_of NUM); [reflexivity | apply print_tenths_chars].
  - destruct (x_rev r); reflexivity.
  - apply (no_tab_of NUM); [reflexivity | apply print_hundredths_chars].
  - apply (no_tab_of CIG); [reflexivity | apply render_chars].
  - destruct (x_rest r); reflexivity.
  - reflexivity.
  - apply (no_tab_of PAIRC); [reflexivity | apply print_pairs_chars].
Qed.

(* the k-th data line (0-based) is the line of the k-th row with XmapEntryID k + 1; there is one line per row *)
Lemma write_from_nth rows : forall i k, nth_error (write_from i rows) k = option_map (write_row (i + Z.of_nat k)) (nth_error rows k).
Proof. induction rows as [|r t IH]; intros i k; [destruct k; reflexivity|]. destruct k as [|k]; cbn [write_from nth_error option_map].
  - rewrite Z.add_0_r. reflexivity.
  - rewrite IH. replace (i + 1 + Z.of_nat k) with (i + Z.of_nat (S k)) by lia. reflexivity. Qed.
Theorem entry_ids rows k : nth_error (xmap_write_lines rows) k = option_map (write_row (Z.of_nat k + 1)) (nth_error rows k).
Proof. unfold xmap_write_lines. rewrite write_from_nth. replace (1 + Z.of_nat k) with (Z.of_nat k + 1) by lia. reflexivity. Qed.
Theorem entry_count rows : List.length (xmap_write_lines rows) = List.length rows.
Proof. apply write_from_length. Qed.

(* the first field of the k-th line reads back as k + 1, the orientation field is "+" or "-" *)
Theorem entry_id_text rows k line : nth_error (xmap_write_lines rows) k = Some line ->
  exists r rest, nth_error rows k = Some r /\ split_on TAB line = print_int (Z.of_nat k + 1) :: rest /\ parse_int (print_int (Z.of_nat k + 1)) = Some (Z.of_nat k + 1) /\
                 nth_error rest 6 = Some (if x_rev r then "-" else "+").
Proof. rewrite entry_ids. destruct (nth_error rows k) as [r|]; [|discriminate]. cbn [option_map]. intros E; injection E as <-.
  exists r. eexists. split; [reflexivity|]. rewrite write_row_fields. split; [reflexivity|]. split; [apply parse_print_int | reflexivity]. Qed.

(* a row of the model printed through xrow_of_row: attribute -> column *)
Theorem record_fields i (w : Multi.row) runs :
  split_on TAB (write_row i (xrow_of_row w runs)) =
  [ print_int i; print_int (qid w); print_int (Multi.rid w);
    print_tenths (qs w); print_tenths (qe w); print_tenths (rs w); print_tenths (re w);
    (if rrev w then "-" else "+"); print_hundredths (5 * conf w); render runs;
    print_tenths (qlen w); print_tenths (rlen w); (if rest w then "True" else "False"); "1"; print_pairs (site_pairs (rsegs w)) ].
Proof. rewrite write_row_fields. reflexivity. Qed.

(* setAlignedRest changes the AlignedRest column only *)
Lemma set_aligned_rest_fields (w : Multi.row) b :
  let w' := set_aligned_rest w b in
  rsegs w' = rsegs w /\ qid w' = qid w /\ Multi.rid w' = Multi.rid w /\ qlen w' = qlen w /\ rlen w' = rlen w /\ qs w' = qs w /\ qe w' = qe w /\
  rs w' = rs w /\ re w' = re w /\ rrev w' = rrev w /\ conf w' = conf w /\ rest w' = b.
Proof. cbn. repeat split; reflexivity. Qed.

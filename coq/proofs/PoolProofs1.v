(* C09, part 1: rows and everything built from rows commute with the erasure of AlignedPair.source.
   The segment-level half (pairing, scoring, factory, chainer, resolver) is proofs/SrcErase.v (er_ap/er_sp/er_seg are the same
   functions as Pool.erase_apos/erase_spos/erase_segment, by conversion). *)
From Coq Require Import ZArith QArith List Bool Lia.
Import ListNotations.
Require Import Py Pairing Core Multi Coordinator Pool SrcErase.
Open Scope Z_scope.

Lemma ES_er : erase_segment = er_seg. Proof. reflexivity. Qed.
Lemma E_er : erase_spos = er_sp. Proof. reflexivity. Qed.
Lemma EA_er : erase_apos = er_ap. Proof. reflexivity. Qed.
Lemma map_res_rmap {A B} (f : A -> B) x : map_res f x = rmap f x. Proof. reflexivity. Qed.

(* ---------- list plumbing ---------- *)
Lemma groupby_map {A B} (f : A -> B) (k : B -> Z) l : groupby k (map f l) = map (map f) (groupby (fun y => k (f y)) l).
Proof. induction l as [|x t IH]; [reflexivity|]. cbn [map groupby]. rewrite IH.
  destruct (groupby (fun y => k (f y)) t) as [|g gs]; [reflexivity|]. cbn [map].
  destruct g as [|y g']; [reflexivity|]. cbn [map]. destruct (k (f x) =? k (f y)); reflexivity. Qed.
Lemma sort_by_map_key {A B} (f : A -> B) (k' : B -> Z) (k : A -> Z) l :
  (forall y, k' (f y) = k y) -> sort_by k' (map f l) = map f (sort_by k l).
Proof. intros H. rewrite sort_by_map. f_equal. apply sort_by_ext. exact H. Qed.
Lemma groupby_ext {A} (k k' : A -> Z) l : (forall x, k x = k' x) -> groupby k l = groupby k' l.
Proof. intros H. induction l as [|x t IH]; [reflexivity|]. cbn [groupby]. rewrite IH.
  destruct (groupby k' t) as [|[|y g] gs]; try reflexivity. rewrite !H. reflexivity. Qed.
Lemma groupby_map_key {A B} (f : A -> B) (k' : B -> Z) (k : A -> Z) l :
  (forall y, k' (f y) = k y) -> groupby k' (map f l) = map (map f) (groupby k l).
Proof. intros H. rewrite groupby_map. f_equal. apply groupby_ext. exact H. Qed.
Lemma filter_map_key {A B} (f : A -> B) (p' : B -> bool) (p : A -> bool) l :
  (forall y, p' (f y) = p y) -> filter p' (map f l) = map f (filter p l).
Proof. intros H. rewrite filter_map_comm. f_equal. apply filter_ext. exact H. Qed.

(* ---------- rows ---------- *)
Lemma row_pairs_E segs : row_pairs (map erase_segment segs) = map erase_spos (row_pairs segs).
Proof. unfold row_pairs. induction segs as [|s t IH]; [reflexivity|]. cbn [map flat_map]. rewrite map_app, IH.
  rewrite ES_er, er_aligned. reflexivity. Qed.
Lemma pair_rpos_E p : pair_rpos (erase_spos p) = pair_rpos p.
Proof. unfold pair_rpos. rewrite E_er, er_pv_of. reflexivity. Qed.
Lemma hd_pv_E l : match map erase_spos l with [] => null_pv | p :: _ => pv_of p end = match l with [] => null_pv | p :: _ => pv_of p end.
Proof. destruct l as [|p t]; [reflexivity|]. cbn [map]. rewrite E_er, er_pv_of. reflexivity. Qed.
Lemma sorted_pairs_E segs :
  sort_by pair_rpos (row_pairs (map erase_segment segs)) = map erase_spos (sort_by pair_rpos (row_pairs segs)).
Proof. rewrite row_pairs_E. apply sort_by_map_key. exact pair_rpos_E. Qed.
Lemma conf_E segs : forall a, fold_left (fun a s => a + sscore s) (map erase_segment segs) a = fold_left (fun a s => a + sscore s) segs a.
Proof. induction segs as [|s t IH]; intros a; [reflexivity|]. cbn [map fold_left]. rewrite IH. reflexivity. Qed.

Lemma row_create_E segs q r ql rl rv : row_create (map erase_segment segs) q r ql rl rv = erase_row (row_create segs q r ql rl rv).
Proof. unfold row_create. cbv zeta. rewrite sorted_pairs_E, conf_E, <- map_rev, !hd_pv_E. reflexivity. Qed.

Lemma site_pairs_E segs : site_pairs (map erase_segment segs) = site_pairs segs.
Proof. unfold site_pairs. rewrite row_pairs_E, map_map. apply map_ext. intros p. rewrite E_er, er_pv_of. reflexivity. Qed.
Lemma row_has_pairs_E w : row_has_pairs (erase_row w) = row_has_pairs w.
Proof. unfold row_has_pairs. cbn [erase_row rsegs]. rewrite row_pairs_E. destruct (row_pairs (rsegs w)); reflexivity. Qed.
Lemma set_rest_E w : set_rest (erase_row w) = erase_row (set_rest w). Proof. reflexivity. Qed.
Lemma check_overlap_E a b m : check_overlap (erase_row a) (erase_row b) m = check_overlap a b m. Proof. reflexivity. Qed.

(* ---------- Aligner.align and the candidate rows ---------- *)
Lemma aligner_align_NI P it1 it2 r q peaks rv :
  map_res (map erase_segment) (aligner_align P it1 r q peaks rv) = map_res (map erase_segment) (aligner_align P it2 r q peaks rv).
Proof. exact (aligner_align_it P it1 it2 r q peaks rv). Qed.

Definition rows_of (r : list row * Z) : list row := map erase_row (fst r).
Lemma candidate_rows_NI P q sds : forall it1 it2,
  map_res rows_of (candidate_rows P q sds it1) = map_res rows_of (candidate_rows P q sds it2).
Proof. induction sds as [|sd t IH]; intros it1 it2; [reflexivity|]. cbn [candidate_rows].
  pose proof (aligner_align_NI P it1 it2 (sd_ref sd) q (sd_peaks sd) (sd_rev sd)) as H.
  destruct (aligner_align P it1 _ _ _ _) as [s1|], (aligner_align P it2 _ _ _ _) as [s2|]; cbn in H; try discriminate; [|reflexivity].
  injection H as H. cbn [bind].
  specialize (IH (it1 + Z.of_nat (length (sd_peaks sd))) (it2 + Z.of_nat (length (sd_peaks sd)))).
  destruct (candidate_rows P q t _) as [r1|], (candidate_rows P q t _) as [r2|]; cbn in IH; try discriminate; [|reflexivity].
  injection IH as IH. cbn [bind map_res]. unfold rows_of in *. cbn [fst map]. rewrite IH, <- !row_create_E, H. reflexivity. Qed.

Definition cost_sds (sds : list cseed) : Z := fold_right (fun sd a => Z.of_nat (length (sd_peaks sd)) + a) 0 sds.
Lemma candidate_rows_counter P q sds : forall it r, candidate_rows P q sds it = Ok r -> snd r = it + cost_sds sds.
Proof. induction sds as [|sd t IH]; intros it r H; cbn in H.
  - injection H as <-. cbn. lia.
  - destruct (aligner_align P it _ _ _ _); cbn in H; [|discriminate].
    destruct (candidate_rows P q t _) as [r'|] eqn:E; cbn in H; [|discriminate].
    injection H as <-. cbn [snd cost_sds fold_right]. rewrite (IH _ _ E). unfold cost_sds. lia. Qed.

Lemma best_alignment_E rows : best_alignment (map erase_row rows) = option_map erase_row (best_alignment rows).
Proof. unfold best_alignment. rewrite (sort_by_map_key erase_row _ (fun w => - conf w)) by reflexivity.
  destruct (sort_by _ rows); reflexivity. Qed.

Definition best_of (r : option row * Z) : option row := option_map erase_row (fst r).
Lemma align_query_NI P seeds refs q it1 it2 :
  map_res best_of (align_query P seeds refs q it1) = map_res best_of (align_query P seeds refs q it2).
Proof. unfold align_query. destruct (seeds refs q) as [|sd sds]; [reflexivity|].
  pose proof (candidate_rows_NI P q (sd :: sds) it1 it2) as H.
  destruct (candidate_rows P q (sd :: sds) it1) as [r1|], (candidate_rows P q (sd :: sds) it2) as [r2|]; cbn in H; try discriminate; [|reflexivity].
  injection H as H. cbn [bind map_res]. unfold best_of, rows_of in *. cbn [fst]. rewrite <- !best_alignment_E, H. reflexivity. Qed.
Lemma align_query_counter P seeds refs q it r : align_query P seeds refs q it = Ok r -> snd r = it + task_cost seeds refs q.
Proof. unfold align_query, task_cost. destruct (seeds refs q) as [|sd sds] eqn:E.
  - intros H. injection H as <-. cbn. lia.
  - destruct (candidate_rows P q (sd :: sds) it) as [r'|] eqn:E'; cbn; [|discriminate].
    intros H. injection H as <-. cbn [snd]. exact (candidate_rows_counter P q _ _ _ E'). Qed.

(* ---------- the pool ---------- *)
Lemma pool_results_NI P seeds refs qs : forall its1 its2,
  map_res (map (option_map erase_row)) (pool_results P seeds refs qs its1) =
  map_res (map (option_map erase_row)) (pool_results P seeds refs qs its2).
Proof. induction qs as [|q t IH]; intros its1 its2; [reflexivity|]. cbn [pool_results].
  pose proof (align_query_NI P seeds refs q (its1 0%nat) (its2 0%nat)) as H.
  destruct (align_query P seeds refs q (its1 0%nat)) as [r1|], (align_query P seeds refs q (its2 0%nat)) as [r2|]; cbn in H; try discriminate; [|reflexivity].
  injection H as H. cbn [bind]. specialize (IH (fun k => its1 (S k)) (fun k => its2 (S k))).
  destruct (pool_results P seeds refs t _) as [l1|], (pool_results P seeds refs t _) as [l2|]; cbn in IH; try discriminate; [|reflexivity].
  injection IH as IH. cbn [bind map_res map]. unfold best_of in H. rewrite H, IH. reflexivity. Qed.

Lemma keep_rows_E l : keep_rows (map (option_map erase_row) l) = map erase_row (keep_rows l).
Proof. unfold keep_rows. induction l as [|[w|] t IH]; [reflexivity| |exact IH]. cbn [map option_map flat_map].
  rewrite row_has_pairs_E, IH. destruct (row_has_pairs w); reflexivity. Qed.

Lemma pool_execute_NI P seeds refs qs its1 its2 :
  map_res (map erase_row) (pool_execute P seeds refs qs its1) = map_res (map erase_row) (pool_execute P seeds refs qs its2).
Proof. unfold pool_execute. pose proof (pool_results_NI P seeds refs qs its1 its2) as H.
  destruct (pool_results P seeds refs qs its1) as [l1|], (pool_results P seeds refs qs its2) as [l2|]; cbn in H; try discriminate; [|reflexivity].
  injection H as H. cbn [bind map_res]. rewrite <- !keep_rows_E, H. reflexivity. Qed.

(* Coordinator.execute is the pool with the sequential schedule *)
Lemma execute_is_pool P seeds refs qs : forall it,
  map_res fst (execute P seeds refs qs it) = pool_execute P seeds refs qs (seq_its seeds refs qs it).
Proof. unfold pool_execute. induction qs as [|q t IH]; intros it; [reflexivity|]. cbn [execute pool_results seq_its].
  destruct (align_query P seeds refs q it) as [r|] eqn:E; cbn [bind map_res]; [|reflexivity].
  rewrite (align_query_counter _ _ _ _ _ _ E). specialize (IH (it + task_cost seeds refs q)).
  change (fun k => seq_its seeds refs t (it + task_cost seeds refs q) k) with (seq_its seeds refs t (it + task_cost seeds refs q)).
  destruct (execute P seeds refs t _) as [rest|]; destruct (pool_results P seeds refs t _) as [l|]; cbn in IH; try discriminate; [|reflexivity].
  injection IH as IH. cbn [bind map_res fst keep_rows flat_map]. fold (keep_rows l). rewrite <- IH.
  destruct (fst r) as [w|]; [destruct (row_has_pairs w)|]; reflexivity. Qed.
Lemma execute_counter P seeds refs qs : forall it r, execute P seeds refs qs it = Ok r ->
  snd r = it + fold_right (fun q a => task_cost seeds refs q + a) 0 qs.
Proof. induction qs as [|q t IH]; intros it r H; cbn in H.
  - injection H as <-. cbn. lia.
  - destruct (align_query P seeds refs q it) as [r0|] eqn:E; cbn in H; [|discriminate].
    destruct (execute P seeds refs t (snd r0)) as [rest|] eqn:E'; cbn in H; [|discriminate].
    injection H as <-. cbn [snd fold_right]. rewrite (IH _ _ E'), (align_query_counter _ _ _ _ _ _ E). lia. Qed.
(* one worker that starts from `it` is the sequential schedule *)
Lemma worker_its_one seeds refs qs : forall start k,
  worker_its seeds refs qs (fun _ => 0%nat) start k = seq_its seeds refs qs (start 0%nat) k.
Proof. induction qs as [|q t IH]; intros start k; destruct k as [|k]; try reflexivity. cbn [worker_its seq_its].
  rewrite IH. reflexivity. Qed.

(* C05 — At most one record per query: the best-scoring candidate, in query-id order.
   Models: model/Coordinator.v (best_alignment = __getBestAlignment, candidate_rows/align_query = __align, execute,
   multi_execute = _MultiPassWorkflowCoordinator.execute, program_run = Program.run with the final AlignmentResults.create
   filter), model/Multi.v (filter_subsequent = filterOutSubsequentAlignmentsForSingleQuery, results_resolve = resolve).
   Every theorem holds for EVERY seeding function `seeds`, all parameters P, every maxdiff, all reference and query lists.
   Units: confidence Z in 1/20, positions Z in 1/10 bp.

   first_best rows x  :=  rows = l1 ++ x :: l2  where every row of x's query in l1 has confidence <  conf x
                                               and every row of x's query in l2 has confidence <= conf x
                          (x is the FIRST maximum-confidence row of its query, in input order);
   first_max  rows w  :=  the same over all rows of the list (no query restriction);
   cands_spec P q sds it cands  :=  cands has one row per seed of sds, in seed order: the i-th is
                          row_create (aligner_align P it_i ref_i q peaks_i strand_i) (mid q) (mid ref_i) ..., where it_i is the
                          iteration counter advanced by the number of secondary peaks of the earlier seeds;
   keep o             :=  [w] if o = Some w and w has aligned pairs, [] otherwise (what `execute` keeps of a query's result). *)
From Coq Require Import ZArith QArith List Bool Sorting.Permutation Sorting.Sorted.
Import ListNotations.
Require Import Py Pairing Core Multi Coordinator Peaks BestProofs1 BestProofs2 BestProofs3 BestProofs4 BestProofs5 FreshProofs.
Open Scope Z_scope.

(* ---- filterOutSubsequentAlignmentsForSingleQuery ---- *)
(* strictly ascending query ids (hence at most one row per query); the same set of query ids as the input; every kept row is
   the first maximum-confidence row of its query; the result is a sub-multiset of the input; the filter is idempotent *)
Theorem C05_filter_unique rows :
  let f := filter_subsequent rows in
  StronglySorted Z.lt (map qid f) /\
  (forall c, In c (map qid rows) <-> In c (map qid f)) /\
  (forall x, In x f <-> first_best rows x) /\
  (exists dropped, Permutation rows (f ++ dropped)) /\
  filter_subsequent f = f.
Proof. exact (conj (fs_sorted rows) (conj (fs_ids rows) (conj (fun x => conj (fs_first_best rows x) (first_best_fs rows x))
              (conj (fs_submultiset rows) (fs_idempotent rows))))). Qed.
(* the first maximum of a query is unique, so "the" row of a query in the output is determined *)
Theorem C05_filter_first_best_unique rows x x' : first_best rows x -> first_best rows x' -> qid x = qid x' -> x = x'.
Proof. exact (first_best_unique rows x x'). Qed.
(* on a list that already has strictly ascending query ids the filter changes nothing *)
Theorem C05_filter_fixpoint rows : StronglySorted Z.lt (map qid rows) -> filter_subsequent rows = rows.
Proof. exact (fs_id rows). Qed.

(* ---- at most one record per query, ascending, in every file the property names ---- *)
(* main of every mode; _1 of 'separate' (second pass); _1 and _2 of 'all' (first and second pass).
   NOT claimed by the property and NOT true of _1 of 'joined' (the rows that were not joined): a query can have two rows
   there, its first-pass and its second-pass row; what holds: at most one with AlignedRest = False, at most one with
   AlignedRest = True, so at most two per query. *)
Theorem C05_unique_query P (seeds : seeding) refs m maxdiff qs o : program_run P seeds m maxdiff refs qs = Ok o ->
  StronglySorted Z.lt (map qid (o_main o)) /\
  match m with
  | Best => o_1 o = None /\ o_2 o = None
  | Separate => exists f2, o_1 o = Some f2 /\ o_2 o = None /\ StronglySorted Z.lt (map qid f2)
  | All_ => exists f1 f2, o_1 o = Some f1 /\ o_2 o = Some f2 /\ StronglySorted Z.lt (map qid f1) /\ StronglySorted Z.lt (map qid f2)
  | Joined => exists sep, o_1 o = Some sep /\ o_2 o = None /\
                NoDup (map qid (filter (fun w => negb (rest w)) sep)) /\ NoDup (map qid (filter rest sep)) /\
                forall c, (count_occ Z.eq_dec (map qid sep) c <= 2)%nat
  end.
Proof. exact (unique_query P seeds refs m maxdiff qs o). Qed.

(* ---- the best candidate ---- *)
(* __getBestAlignment: None only for no candidates, otherwise the first maximum-confidence candidate *)
Theorem C05_best_alignment rows :
  (best_alignment rows = None <-> rows = []) /\ (forall w, best_alignment rows = Some w -> first_max rows w).
Proof. exact (conj (best_alignment_none rows) (best_alignment_some rows)). Qed.
(* __align: no seed -> no row; otherwise one candidate per seed (via aligner_align / row_create, in seed order) and the
   returned row is a candidate, has maximal confidence among them and is the first such in seed order *)
Theorem C05_best_candidate P (seeds : seeding) refs q it ow it' : align_query P seeds refs q it = Ok (ow, it') ->
  match seeds refs q with
  | [] => ow = None /\ it' = it
  | sds => exists cands, candidate_rows P q sds it = Ok (cands, it') /\ cands_spec P q sds it cands /\
             length cands = length sds /\
             exists w, ow = Some w /\ In w cands /\ (forall y, In y cands -> conf y <= conf w) /\ first_max cands w
  end.
Proof. exact (align_query_best P seeds refs q it ow it'). Qed.
(* every candidate carries the query's id and AlignedRest = False, and comes from one of the seeds *)
Theorem C05_candidates P q sds it cands : cands_spec P q sds it cands ->
  forall w, In w cands -> qid w = mid q /\ rest w = false /\ exists sd it', In sd sds /\ cand_of P q sd it' w.
Proof. exact (cands_spec_all P q sds it cands). Qed.
(* at most peaksCount candidates when the seeds are built from PeaksSelector.selectPeaks (one seed per selected peak) *)
Corollary C05_at_most_count P (seeds : seeding) refs q it ow it' cands count ls (mk : peak -> cseed) :
  seeds refs q = map mk (select_peaks count ls) -> candidate_rows P q (seeds refs q) it = Ok (cands, it') ->
  align_query P seeds refs q it = Ok (ow, it') -> (length cands <= count)%nat.
Proof. exact (at_most_count P seeds refs q it ow it' cands count ls mk). Qed.

(* execute: the run decomposes at every query into the rows of the queries before, what is kept of this query's best
   candidate (the row iff it has pairs: pair-less rows and None are dropped AFTER the best candidate was chosen), and the
   rows of the queries after *)
Theorem C05_execute_split P (seeds : seeding) refs qa q qb it rows it' : execute P seeds refs (qa ++ q :: qb) it = Ok (rows, it') ->
  exists rows_a ita ow itb rows_b,
    execute P seeds refs qa it = Ok (rows_a, ita) /\ align_query P seeds refs q ita = Ok (ow, itb) /\
    execute P seeds refs qb itb = Ok (rows_b, it') /\ rows = rows_a ++ keep ow ++ rows_b.
Proof. exact (execute_split P seeds refs qa q qb it rows it'). Qed.
Theorem C05_execute_rows P (seeds : seeding) refs qs it rows it' : execute P seeds refs qs it = Ok (rows, it') ->
  forall w, In w rows -> row_has_pairs w = true /\ rest w = false /\ In (qid w) (map mid qs).
Proof. exact (execute_rows P seeds refs qs it rows it'). Qed.

(* the first-pass file (main of 'separate', _1 of 'all') is the filter of the first-pass rows ... *)
Theorem C05_first_pass_rows P (seeds : seeding) refs m maxdiff qs o f : program_run P seeds m maxdiff refs qs = Ok o ->
  first_pass_file m o = Some f -> exists rows1 it1, execute P seeds refs qs 1 = Ok (rows1, it1) /\ f = filter_subsequent rows1.
Proof. exact (first_pass_rows P seeds refs m maxdiff qs o f). Qed.
(* ... so, for input queries with pairwise distinct ids, the records of query q in that file are exactly: the best candidate
   of q if it has pairs, nothing otherwise *)
Theorem C05_first_pass_record P (seeds : seeding) refs m maxdiff qa q qb o f :
  program_run P seeds m maxdiff refs (qa ++ q :: qb) = Ok o -> first_pass_file m o = Some f -> NoDup (map mid (qa ++ q :: qb)) ->
  exists itq ow itq', align_query P seeds refs q itq = Ok (ow, itq') /\ filter (fun w => qid w =? mid q) f = keep ow.
Proof. exact (first_pass_record P seeds refs m maxdiff qa q qb o f). Qed.

(* ---- 'best' mode ---- *)
(* PROVIDED the run succeeds (results_resolve returns): the query ids of the main file are exactly the ids for which the first
   pass (rows1) OR the second pass (rows2) produced a row with pairs, each exactly once, ascending; and every record is either
   the best row of its query over both passes (a member of f1) or the join of that row x with the query's best second-pass
   row y (same reference, overlapping; the joined row has at least one pair — joined_ok, repair F9: a join without any pair is not
   reported, its parts stay).  After repair F12 (`row not in filteredFirstPassRows`) x and y are different rows: x is a first-pass row
   (AlignedRest False), y a second-pass row (AlignedRest True); see C05_best_mode_no_self_join below. *)
Theorem C05_best_mode_total P (seeds : seeding) refs maxdiff qs o : program_run P seeds Best maxdiff refs qs = Ok o ->
  exists rows1 it1 frags rows2 it2,
    execute P seeds refs qs 1 = Ok (rows1, it1) /\ all_fragments rows1 qs = Ok frags /\
    execute P seeds refs frags it1 = Ok (rows2, it2) /\
    StronglySorted Z.lt (map qid (o_main o)) /\
    (forall c, In c (map qid (o_main o)) <-> In c (map qid rows1) \/ In c (map qid rows2)) /\
    let f1 := filter_subsequent (rows1 ++ map set_rest rows2) in
    let f2 := filter_subsequent (map set_rest rows2) in
    forall w, In w (o_main o) ->
      In w f1 \/ exists x y, In x f1 /\ In y f2 /\ x <> y /\ rest x = false /\ rest y = true /\
                             qid x = qid w /\ qid y = qid w /\ rid x = rid y /\
                             check_overlap x y maxdiff = true /\ join_rows x y = Ok w /\ joined_ok w = true.
Proof. exact (best_mode_total P seeds refs maxdiff qs o). Qed.

(* no self-join (repair F12).  In 'best' mode first-pass and second-pass rows are concatenated BEFORE the filter, so when a query's
   best row x over both passes is a second-pass row (AlignedRest = True) it is ALSO the query's row of the second-pass list f2.
   resolve receives f1 ++ [row for row in f2 if row not in f1]: x is handed over ONCE — it is the only row of its query in that
   list, its (reference, query) group is [x] — and the record of that query in the main file is x itself, the best candidate over
   both passes.  (resolve_groups_of rows = the groups AlignmentResults.resolve forms, by reference id then query id.) *)
Theorem C05_best_mode_no_self_join P (seeds : seeding) refs maxdiff qs o : program_run P seeds Best maxdiff refs qs = Ok o ->
  exists rows1 it1 frags rows2 it2,
    execute P seeds refs qs 1 = Ok (rows1, it1) /\ all_fragments rows1 qs = Ok frags /\
    execute P seeds refs frags it1 = Ok (rows2, it2) /\
    let f1 := filter_subsequent (rows1 ++ map set_rest rows2) in
    let f2 := filter_subsequent (map set_rest rows2) in
    let handed := f1 ++ filter (fun w => negb (row_in w f1)) f2 in
    forall x, In x f1 -> rest x = true ->
      In x f2 /\
      filter (fun w => qid w =? qid x) handed = [x] /\
      (forall g, In g (resolve_groups_of handed) -> In x g -> g = [x]) /\
      filter (fun w => qid w =? qid x) (o_main o) = [x].
Proof. exact (best_mode_no_self_join P seeds refs maxdiff qs o). Qed.

(* ---- regression statements about the code BEFORE repair F12 ----
   program_run_before_F12 (proofs/BestProofs3.v) is program_run with the old call `resolve(filteredFirstPassRows + filteredSecondPassRows)`;
   outside 'best' mode it coincides with program_run.  There, such a row x was in both lists: resolve saw the group [x; x];
   check_overlap x x only asks whether x's own reference span is <= maxdiff, and x.resolve(x) pairs the FIRST segment of x with
   itself and drops every other segment of x. *)
Theorem C05_before_F12_other_modes P (seeds : seeding) refs m maxdiff qs : m <> Best ->
  program_run_before_F12 P seeds m maxdiff refs qs = program_run P seeds m maxdiff refs qs.
Proof. exact (before_F12_same P seeds refs m maxdiff qs). Qed.
Theorem C05_best_mode_self_join_before_F12 P (seeds : seeding) refs maxdiff qs o :
  program_run_before_F12 P seeds Best maxdiff refs qs = Ok o ->
  exists rows1 it1 frags rows2 it2 joined sep,
    execute P seeds refs qs 1 = Ok (rows1, it1) /\ all_fragments rows1 qs = Ok frags /\
    execute P seeds refs frags it1 = Ok (rows2, it2) /\
    let f1 := filter_subsequent (rows1 ++ map set_rest rows2) in
    let f2 := filter_subsequent (map set_rest rows2) in
    results_resolve (f1 ++ f2) maxdiff = Ok (joined, sep) /\
    o = mkOut (filter_subsequent (sort_by qid (joined ++ filter (fun w => negb (mem_z (qid w) (map qid joined))) f1))) None None /\
    forall x, In x f1 -> rest x = true ->
      In x f2 /\ filter (fun w => qid w =? qid x) (f1 ++ f2) = [x; x] /\ In [x; x] (resolve_groups_of (f1 ++ f2)).
Proof. exact (best_mode_self_join_before_F12 P seeds refs maxdiff qs o). Qed.
Theorem C05_self_join_shape_before_F12 a d :
  check_overlap a a d = (Z.abs (rs a - re a) <=? d) /\
  join_rows a a = (do _ <- first_pair_rpos a; do s <- seg0 a; do r <- resolve_pair s s;
                   Ok (row_create [fst r; snd r] (qid a) (rid a) (qlen a) (rlen a) (rrev a))).
Proof. exact (conj (check_overlap_self a d) (join_rows_self a)). Qed.

(* ---- non-vacuity (vm_compute) ---- *)
Definition P0 := mkP 20000 2 (-5000) 20000 24000 15000 (inject_Z 20) 0.
Definition xr1 := mkMap 1 1200000 [10000; 30000; 60000; 100000; 150000] 0.
Definition xr2 := mkMap 2 1200000 [10000; 30000; 60000; 100000; 150000] 0.
Definition xq5 := mkMap 5 50010 [0; 20000; 50000] 0.
Definition xq3 := mkMap 3 70010 [0; 30000; 70000] 0.
(* query 5: two candidates (reference 1, reference 2) with EQUAL confidence; query 3: three candidates, the 2nd and 3rd tie *)
Definition xseeds (refs : list omap) (q : omap) : list cseed :=
  match refs with
  | a :: b :: _ => if mid q =? 5 then [mkSeed a false [10000]; mkSeed b false [10000]]
                   else [mkSeed a false [10000]; mkSeed b false [30000]; mkSeed a false [30000]]
  | _ => [] end.
Definition xshow (w : row) := (qid w, rid w, conf w, rest w, map (fun p => let v := pv_of p in (site (pr v), site (pq v))) (row_pairs (rsegs w))).
Definition xshowo (r : res outputs) :=
  match r with Ok o => Some (map xshow (o_main o), option_map (map xshow) (o_1 o), option_map (map xshow) (o_2 o)) | Err => None end.
Example C05_candidates_tie :
  (match candidate_rows P0 xq5 (xseeds [xr1; xr2] xq5) 1 with Ok (l, _) => map xshow l | Err => [] end) =
    [(5, 1, 60000, false, [(1, 1); (2, 2); (3, 3)]); (5, 2, 60000, false, [(1, 1); (2, 2); (3, 3)])] /\
  (match candidate_rows P0 xq3 (xseeds [xr1; xr2] xq3) 1 with Ok (l, _) => map xshow l | Err => [] end) =
    [(3, 1, 20000, false, [(1, 1)]); (3, 2, 60000, false, [(2, 1); (3, 2); (4, 3)]); (3, 1, 60000, false, [(2, 1); (3, 2); (4, 3)])].
Proof. vm_compute. split; reflexivity. Qed.
(* the tie goes to the FIRST candidate (reference 1 for query 5, reference 2 for query 3); input order [5; 3], output ascending *)
Example C05_run_separate : xshowo (program_run P0 xseeds Separate 1000000 [xr1; xr2] [xq5; xq3]) =
  Some ([(3, 2, 60000, false, [(2, 1); (3, 2); (4, 3)]); (5, 1, 60000, false, [(1, 1); (2, 2); (3, 3)])], Some [], None).
Proof. vm_compute. reflexivity. Qed.
Example C05_run_best : xshowo (program_run P0 xseeds Best 1000000 [xr1; xr2] [xq5; xq3]) =
  Some ([(3, 2, 60000, false, [(2, 1); (3, 2); (4, 3)]); (5, 1, 60000, false, [(1, 1); (2, 2); (3, 3)])], None, None).
Proof. vm_compute. reflexivity. Qed.
(* the filter on synthetic rows: ties inside a query resolved by input order, ids sorted *)
Definition xrow (q r c : Z) := mkRow [] q r 0 0 0 0 0 0 false c false.
Example C05_filter_example :
  map (fun w => (qid w, rid w, conf w)) (filter_subsequent [xrow 7 1 5; xrow 3 1 9; xrow 7 2 8; xrow 3 2 9; xrow 7 3 8; xrow 1 1 0]) =
  [(1, 1, 0); (3, 1, 9); (7, 2, 8)].
Proof. vm_compute. reflexivity. Qed.

(* finding F12 on a concrete run (one reference, one query of 8 labels, window 500 bp): the first pass aligns labels 5-7
   (confidence 60000 = 3000.00), the second pass aligns the fragment of the first 7 labels in TWO segments (labels 1-4 and 5-7,
   confidence 140000 = 7000.00), which is the query's best row over both passes.  BEFORE the repair, with a reference span of
   10600 bp <= maxdiff, it was joined WITH ITSELF: the 'best' record kept only its first segment (confidence 80000 = 4000.00,
   4 pairs).  AFTER the repair the record is the best row itself, whatever maxdiff. *)
Example C05_self_join_separate : xshowo (program_run sP sseeds Separate 1000000 [sr1] [sq9]) =
  Some ([(9, 1, 60000, false, [(5, 5); (6, 6); (7, 7)])],
        Some [(9, 1, 140000, true, [(1, 1); (2, 2); (3, 3); (4, 4); (5, 5); (6, 6); (7, 7)])], None).
Proof. vm_compute. reflexivity. Qed.
Example C05_self_join_best_before_F12 : xshowo (program_run_before_F12 sP sseeds Best 1000000 [sr1] [sq9]) =
  Some ([(9, 1, 80000, false, [(1, 1); (2, 2); (3, 3); (4, 4)])], None, None).
Proof. vm_compute. reflexivity. Qed.
Example C05_no_self_join_best : xshowo (program_run sP sseeds Best 1000000 [sr1] [sq9]) =
  Some ([(9, 1, 140000, true, [(1, 1); (2, 2); (3, 3); (4, 4); (5, 5); (6, 6); (7, 7)])], None, None).
Proof. vm_compute. reflexivity. Qed.
Example C05_no_self_join_best_small_maxdiff : xshowo (program_run sP sseeds Best 100000 [sr1] [sq9]) =
  Some ([(9, 1, 140000, true, [(1, 1); (2, 2); (3, 3); (4, 4); (5, 5); (6, 6); (7, 7)])], None, None).
Proof. vm_compute. reflexivity. Qed.
(* regression witness: BEFORE the repair the statement "the 'best' record of a query is its best row over both passes, or a join with
   at least that confidence" was false of the code (found on real runs too, see harness/props/C05.py) ... *)
Theorem C05_self_join_witness_before_F12 : exists P (seeds : seeding) refs qs maxdiff o rows1 it1 frags rows2 it2 w x,
  program_run_before_F12 P seeds Best maxdiff refs qs = Ok o /\ execute P seeds refs qs 1 = Ok (rows1, it1) /\
  all_fragments rows1 qs = Ok frags /\ execute P seeds refs frags it1 = Ok (rows2, it2) /\
  o_main o = [w] /\ In x (map set_rest rows2) /\ qid x = qid w /\ conf w < conf x /\
  join_rows x x = Ok w.
Proof. exact best_record_is_best_refuted_before_F12. Qed.
(* ... and on the same data the repaired code reports the second-pass row x itself, which beats every first-pass row *)
Theorem C05_no_self_join_witness : exists rows1 it1 frags rows2 it2 o x,
  execute sP sseeds [sr1] [sq9] 1 = Ok (rows1, it1) /\ all_fragments rows1 [sq9] = Ok frags /\
  execute sP sseeds [sr1] frags it1 = Ok (rows2, it2) /\
  program_run sP sseeds Best 1000000 [sr1] [sq9] = Ok o /\
  map set_rest rows2 = [x] /\ o_main o = [x] /\ (forall y, In y rows1 -> conf y < conf x).
Proof. exact best_record_is_best_witness. Qed.

Print Assumptions C05_filter_unique.
Print Assumptions C05_filter_first_best_unique.
Print Assumptions C05_filter_fixpoint.
Print Assumptions C05_unique_query.
Print Assumptions C05_best_alignment.
Print Assumptions C05_best_candidate.
Print Assumptions C05_candidates.
Print Assumptions C05_at_most_count.
Print Assumptions C05_execute_split.
Print Assumptions C05_execute_rows.
Print Assumptions C05_first_pass_rows.
Print Assumptions C05_first_pass_record.
Print Assumptions C05_best_mode_total.
Print Assumptions C05_best_mode_no_self_join.
Print Assumptions C05_before_F12_other_modes.
Print Assumptions C05_best_mode_self_join_before_F12.
Print Assumptions C05_self_join_shape_before_F12.
Print Assumptions C05_self_join_witness_before_F12.
Print Assumptions C05_no_self_join_witness.

(* ==================================================================================================================================
   APPENDED: THE WHOLE PROGRAM (model/Program.v: program_files cl ref_rows qry_rows = the data lines of every XMAP file from the rows of the two
   CMAP files and the command line; proofs/ProgramProofs2.v).  NO hypothesis on the files or the command line: whenever the program returns,
     line_qid line        := the second tab-separated field of the data line, read as an integer (QryContigID as an independent reader takes it)
     qids_ascending lines := the QryContigID fields of the lines are integers in STRICTLY ascending order (hence: at most one record per query)
   hold for the main file of every mode, for _1 of `separate` (second pass), for _1 and _2 of `all` (first / second pass) — exactly the files
   C05_unique_query names.  _1 of `joined` (the rows that were not joined) is not ascending and is not claimed to be: at most two records per query.
   C05_program_file_names: which files a mode writes. *)
From Coq Require Import String.
Require Import Wiring Cmap Xmap Program ProgramProofs1 ProgramProofs2.
Require ProgramExamples.

Theorem C05_program_ids_ascending cl rr qr files : program_files cl rr qr = Ok files ->
  (forall lines, In (""%string, lines) files -> qids_ascending lines) /\
  (cl_mode cl = Separate \/ cl_mode cl = All_ -> forall sfx lines, In (sfx, lines) files -> qids_ascending lines) /\
  (cl_mode cl = Joined -> forall lines, In ("_1"%string, lines) files ->
     exists ids, map line_qid lines = map Some ids /\ forall c, (count_occ Z.eq_dec ids c <= 2)%nat).
Proof. exact (program_ids_ascending cl rr qr files). Qed.

Theorem C05_program_file_names cl rr qr files : cmap_ok (cl_rids cl) rr -> cmap_ok (cl_qids cl) qr -> program_files cl rr qr = Ok files ->
  map fst files = match cl_mode cl with Best => [""] | Separate => [""; "_1"] | Joined => [""; "_1"] | All_ => [""; "_1"; "_2"] end%string.
Proof. exact (fun H1 H2 => program_file_names cl rr qr H1 H2 files). Qed.

(* non-vacuity: the run of proofs/ProgramExamples.v (query molecules 7, 9 (no label), 3 in this order in the file): the QryContigID column of
   every file of every mode; `best` and `separate` list molecule 3 before molecule 7 *)
Example C05_program_nonvacuous :
  let ids m := match program_files (ProgramExamples.px_cl m) ProgramExamples.px_rr ProgramExamples.px_qr with
               | Ok files => Some (map (fun f => (fst f, map line_qid (snd f))) files) | Err => None end in
  ids Best = Some [(""%string, [Some 3; Some 7])] /\
  ids Separate = Some [(""%string, [Some 3; Some 7]); ("_1"%string, [Some 7])] /\
  ids Joined = Some [(""%string, [Some 7]); ("_1"%string, [Some 3])] /\
  ids All_ = Some [(""%string, [Some 7]); ("_1"%string, [Some 3; Some 7]); ("_2"%string, [Some 7])].
Proof. destruct ProgramExamples.px_files as (E1 & E2 & E3 & E4). cbv beta zeta. rewrite E1, E2, E3, E4. vm_compute. repeat split; reflexivity. Qed.
Print Assumptions C05_program_ids_ascending.
Print Assumptions C05_program_file_names.

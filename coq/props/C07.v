(* C07 — Well-formed input never aborts the run; unalignable queries just yield no record.            (PARTIAL, see below)

   "For any syntactically valid reference and query CMAP files COMA terminates normally and writes a well-formed XMAP file (header plus
    zero or more records); a query that cannot be placed produces no record and does not affect the others.  Every XMAP file COMA
    writes, including one with zero records, can be read back by the project's own XMAP reader."

   What a Gallina model can say about this, and what it cannot.
   The model represents every Python exception site of the GLUE code as `Err` (Core.v: startPosition/endPosition of a non-empty
   segment without aligned pair, the trimming loop of AlignmentSegment.slice popping its list to empty, list indexing; Multi.v:
   list.index, alignedPairs[0], segments[0]; Cigar.v: hits[0], next() on an exhausted iterator; Xmap.v: the reader's exceptions by type).
   The theorems below are statements "the model returns Ok".  OUTSIDE any such model, and therefore not covered by a theorem:
   exceptions raised inside numpy / scipy / pandas (cross-correlation, find_peaks — e.g. minPeakDistance below primaryResolution is
   rejected by scipy —, DataFrame parsing), memory exhaustion, signals, the process pool of p_imap, the file system.  Those parts are
   exercised only by the end-to-end oracle of harness/props/C07.py (real CLI runs on degenerate data sets, every output mode, every
   file read back with the project's reader).

   Run-level glue NOT modelled here: the per-query loop of _WorkflowCoordinator.execute/__align (peak selection, the unconditional zip-unpacking of the
   candidate rows — the site of repair a237a4e —, best-candidate choice), the second pass of _MultiPassWorkflowCoordinator
   (which rows go to which file in the four output modes) and Program.run.  A run-level model (model/Coordinator.v, model/MultiPass.v)
   is being written separately and is not part of this development yet.
   TODO C07_run_total (to be stated over that model, not provable here): for all well-formed maps, all modes and all parameter sets
   with SU <= 0 < MS,  run refs queries = Ok files  /\  every file of `files` satisfies the hypothesis of C07_reader_total.

   Units: positions in tenths of bp, scores in 1/20 (Core.v).  P : params with SU = 20*unmatchedPenalty, MS = 20*minScore.
   The only parameter hypotheses are SU P <= 0 (the code raises ValueError("penalty should be negative") for a positive
   unmatchedPenalty, on purpose) and 0 < MS P.

   Findings recorded with this property (both exhibited on the unchanged code, in process):
   F8  AlignmentResultRow.resolve -> AlignmentSegment.slice -> __trimNotAlignedPositionsFromEnd raises IndexError  (C07_join_refuted);
   F9  AlignmentResultRow.resolve returns a row without any aligned pair, which is written as a record the reader cannot read
       (C07_pairless_join_refuted, C07_pairless_record_unreadable).
   F11 a reference whose labels end before the query's extent (e.g. one label) aborts the run inside InitialAlignment.refine
       (scipy.signal.correlate on an empty reference slice) — in numpy/scipy territory, outside this model; real-file witness with default
       parameters in harness/props/C07.py (data set f11_short_labelled_reference).
   This file contains only statements; every proof is `exact <lemma>`. *)
From Coq Require Import ZArith QArith List Bool String Sorting.Sorted.
Import ListNotations.
Require Import Py Pairing Core Multi Cigar CigarProofs Xmap XmapProofs2 ChainCore ConflictProofs TotalProofs1 TotalProofs2 TotalProofs3.
Open Scope Z_scope.

(* ================================================================== 1. segment factory, ordering key, chain: never raise ========== *)
(* first_is_pair l / last_is_pair l: l is empty or its first / last element is an aligned pair (proofs/ConflictProofs.v).
   Every segment the factory returns for scored engine output begins and ends with an aligned pair: it begins and ends on a
   positive score (C13) and an unpaired label scores SU <= 0. *)
Theorem C07_factory_segments_have_pairs P ps peak s : SU P <= 0 -> 0 < MS P ->
  In s (get_segments P (map (score_pos P) ps) peak) -> first_is_pair (positions s) /\ last_is_pair (positions s).
Proof. exact (factory_segment_ends P ps peak s). Qed.

(* hence on every segment Aligner.align builds (any maps, any peaks, both strands) startPosition, endPosition and the chain's
   ordering key are defined (seg_defined s := s non-empty -> s has an aligned pair) ... *)
Theorem C07_segment_accessors_total P it reference query peaks rev_ s : SU P <= 0 -> 0 < MS P ->
  In s (segs_for_peaks P it reference query peaks rev_) ->
  seg_defined s /\ (exists a e, start_position s = Ok a /\ end_position s = Ok e) /\ order_key s = Ok (okey s).
Proof. exact (aligner_segments_defined P it reference query peaks rev_ s). Qed.
(* ... and SegmentChainer.chain does not raise on them (with C14: it raises iff some non-empty segment has no aligned pair) *)
Theorem C07_chain_total P it reference query peaks rev_ : SU P <= 0 -> 0 < MS P ->
  exists c, chain P (segs_for_peaks P it reference query peaks rev_) = Ok c.
Proof. exact (aligner_chain_total P it reference query peaks rev_). Qed.

(* ================================================================== 2. conflict resolution: where it can raise ====================== *)
(* window s st en = the positions slice keeps before trimming (dropwhile lessOnBoth(start), takewhile not-a-pair-or-lessOrEqualOnAny(end));
   loose en p = p is not a pair and not lessOrEqualOnAnySequence(en), i.e. the trimming loop pops it.
   AlignmentSegment.slice raises (IndexError, positions[-1] of the emptied list) EXACTLY when the window is non-empty and all loose. *)
Theorem C07_slice_raises_iff s st en : slice s st en = Err <-> window s st en <> [] /\ forallb (loose en) (window s st en) = true.
Proof. exact (slice_err_iff s st en). Qed.

(* one resolution step on two segments with defined ends raises only there *)
Theorem C07_resolve_pair_raises_only_in_slice a b : seg_defined a -> seg_defined b -> resolve_pair a b = Err ->
  seg_empty a = false /\ end_overlaps a b = Ok true /\
  exists cs ce, start_position b = Ok cs /\ end_position a = Ok ce /\ (slice a cs ce = Err \/ slice b cs ce = Err).
Proof. exact (resolve_pair_g_err slice a b). Qed.

(* C07_resolve_pair_total, as far as it is true: a left member that ends with a pair and whose pairs are all
   lessOrEqualOnAnySequence(its last pair), and a right member that begins with a pair, resolve without raising ... *)
Theorem C07_resolve_pair_total a b :
  first_is_pair (positions a) -> last_is_pair (positions a) -> pairs_le_end a -> first_is_pair (positions b) ->
  exists r, resolve_pair a b = Ok r.
Proof. exact (resolve_pair_fresh_total a b). Qed.
(* ... which holds for ANY two segments Aligner.align builds from maps with ascending positions (ties allowed): the first resolution
   step of every pair never raises.  (It is false for segments already trimmed by an earlier step: C07_join_refuted.) *)
Theorem C07_first_resolution_total P it reference query peaks rev_ a b :
  StronglySorted Z.le (mpositions reference) -> StronglySorted Z.le (mpositions query) -> SU P <= 0 -> 0 < MS P ->
  In a (segs_for_peaks P it reference query peaks rev_) -> In b (segs_for_peaks P it reference query peaks rev_) ->
  exists r, resolve_pair a b = Ok r.
Proof. exact (first_resolution_total P it reference query peaks rev_ a b). Qed.

(* ================================================================== 3. Aligner.align ============================================== *)
(* FULL STATEMENT (not proved, not refuted for the code as it is):
     forall P it reference query peaks rev_, sorted reference -> sorted query -> SU P <= 0 -> 0 < MS P ->
       exists segs, aligner_align P it reference query peaks rev_ = Ok segs.
   What is missing: an invariant of the resolution loop for members that were already trimmed by an earlier step (a left member may
   then end with unpaired labels, C07_slice_raises_iff says such a slice can raise).  No input on which Aligner.align itself raises was
   found (2.5 million generated cases incl. dense lattices, 3-6 peaks, duplicate positions); the crash is reached through the
   multi-pass join instead (section 4).
   Proved instead:
   (a) PARTIAL, the code as it is: segments, ordering key and chain never raise; if Aligner.align raises, then it is the IndexError of
       slice inside the resolution loop over a chain built from at least two segments, and the repaired loop does not raise there. *)
Theorem C07_aligner_total_partial P it reference query peaks rev_ : SU P <= 0 -> 0 < MS P ->
  aligner_align P it reference query peaks rev_ = Err ->
  exists ch, chain P (segs_for_peaks P it reference query peaks rev_) = Ok ch /\
             (2 <= List.length (segs_for_peaks P it reference query peaks rev_))%nat /\
             resolve_loop (List.length ch) 0 ch [] = Err /\ exists r, resolve_loop_g slice_fix (List.length ch) 0 ch [] = Ok r.
Proof. exact (aligner_err_only_in_loop P it reference query peaks rev_). Qed.
(* (b) FULL for the repaired trimming loop (`while positions and not isinstance(positions[-1], AlignedPair) and ...`, modelled by
       slice_fix = slice with `trim_rev [] = Ok []`; aligner_align_g sl = the model with sl in place of slice):
       Aligner.align never raises — for all maps (sorted or not), all peak lists, both strands, all parameters with SU <= 0 < MS. *)
Theorem C07_aligner_total_repaired P it reference query peaks rev_ : SU P <= 0 -> 0 < MS P ->
  exists segs, aligner_align_g slice_fix P it reference query peaks rev_ = Ok segs.
Proof. exact (aligner_fix_total P it reference query peaks rev_). Qed.
(* the generic loop instantiated with the code's slice IS the model, and the repair changes nothing where the code does not raise *)
Theorem C07_generic_is_model P it reference query peaks rev_ :
  aligner_align_g slice P it reference query peaks rev_ = aligner_align P it reference query peaks rev_.
Proof. exact (aligner_align_g_slice P it reference query peaks rev_). Qed.
Theorem C07_repair_conservative P it reference query peaks rev_ segs :
  aligner_align P it reference query peaks rev_ = Ok segs -> aligner_align_g slice_fix P it reference query peaks rev_ = Ok segs.
Proof. exact (aligner_fix_agree P it reference query peaks rev_ segs). Qed.
Theorem C07_slice_repaired s st en :
  (exists r, slice_fix s st en = Ok r) /\ (forall r, slice s st en = Ok r -> slice_fix s st en = Ok r) /\
  (slice s st en = Err -> slice_fix s st en = Ok (seg_create [] (speak s))).
Proof. exact (conj (slice_fix_total s st en) (conj (slice_fix_agree s st en) (slice_fix_err s st en))). Qed.

(* ================================================================== 4. multi-pass glue on rows ==================================== *)
(* getUnalignedFragments: list.index(queryStartPosition / queryEndPosition) is the only raising operation, on the '+' strand only;
   it does not raise when both coordinates are positions of the query (they are positions of paired query labels) *)
Theorem C07_fragments_total w qpos : (rrev w = false -> In (qs w) qpos /\ In (qe w) qpos) -> exists r, unaligned_fragments w qpos = Ok r.
Proof. exact (unaligned_fragments_total w qpos). Qed.

(* AlignmentResultRow.resolve.  FULL STATEMENT: for rows a, b built by Aligner.align (with at least one pair each) join_rows a b = Ok _.
   REFUTED for the code as it is: concrete maps, parameters and seed peaks (units in the comment of proofs/TotalProofs3.v: reference
   labels at 10, 14, 18 bp, query labels at 0, 5, 6, 10 bp, first pass from peaks 11 and 12, second pass from peak 7) on which both
   passes succeed, the fragment is recomputed without error, the two rows overlap, and the join raises. *)
Theorem C07_join_refuted : exists P reference query peaks1 peaks2 segs1 segs2 frag,
  StronglySorted Z.le (mpositions reference) /\ StronglySorted Z.le (mpositions query) /\ SU P <= 0 /\ 0 < MS P /\
  aligner_align P 1 reference query peaks1 false = Ok segs1 /\
  (let w1 := row_create segs1 (mid query) (mid reference) (mlen query) (mlen reference) false in
   unaligned_fragments w1 (mpositions query) = Ok [frag] /\
   aligner_align P 3 reference frag peaks2 false = Ok segs2 /\
   let w2 := row_create segs2 (mid query) (mid reference) (mlen query) (mlen reference) false in
   row_pairs (rsegs w1) <> [] /\ row_pairs (rsegs w2) <> [] /\ check_overlap w1 w2 1000000 = true /\
   join_rows w1 w2 = Err /\ results_resolve [w1; w2] 1000000 = Err).
Proof. exact f8_join_refuted. Qed.
(* PARTIAL for the repaired trimming loop: the join does not raise when both parts have a pair and the FIRST segment of each part is
   empty or has an aligned pair (missing: that Aligner.align never returns a row whose first segment is non-empty without pair) *)
Theorem C07_join_total_repaired_partial a b : row_pairs (rsegs a) <> [] -> row_pairs (rsegs b) <> [] ->
  (forall s, seg0 a = Ok s -> seg_defined s) -> (forall s, seg0 b = Ok s -> seg_defined s) ->
  exists r, join_rows_g slice_fix a b = Ok r.
Proof. exact (join_rows_g_total slice_fix a b slice_fix_total). Qed.
(* on the witness of C07_join_refuted the repaired join returns the row (1,1) (2,3) (3,4) *)
Example C07_join_repaired_on_witness :
  option_map site_pairs_of (match join_rows_g slice_fix f8_row1 f8_row2 with Ok w => Some w | Err => None end) = Some [(1, 1); (2, 3); (3, 4)].
Proof. exact f8_repaired. Qed.

(* "does not raise" is not yet "can be read back": the join of two rows whose FIRST segments were emptied by conflict resolution is a
   row without any aligned pair (reference labels at 0, 6, 14 bp, query labels at 0, 2, 9 bp, peaks 0 and 6, then -2 and -1) ... *)
Theorem C07_pairless_join_refuted :
  aligner_align f9_P 1 f9_ref f9_qry [0; 60] false = Ok f9_segs1 /\ map seg_empty f9_segs1 = [true; false] /\
  site_pairs_of f9_row1 = [(2, 1); (3, 3)] /\
  unaligned_fragments f9_row1 (mpositions f9_qry) = Ok [f9_qry] /\
  aligner_align f9_P 3 f9_ref f9_qry [-20; -10] false = Ok f9_segs2 /\ map seg_empty f9_segs2 = [true; false] /\
  site_pairs_of f9_row2 = [(1, 2); (2, 3)] /\
  exists j, results_resolve [f9_row1; f9_row2] 1000000 = Ok ([j], []) /\ site_pairs_of j = [] /\ conf j = 0.
Proof. exact f9_witness. Qed.

(* ================================================================== 5. HitEnum ==================================================== *)
(* cigarString of a valid matching (C01: strictly ascending reference labels, strictly monotone query labels) never raises *)
Theorem C07_cigar_total dir ps : dir = 1 \/ dir = -1 -> valid dir ps -> exists s, cigar_string ps = Ok s.
Proof. exact (cigar_total dir ps). Qed.

(* ================================================================== 6. every written file can be read back ======================== *)
(* re-export of C18: the reader returns normally, with one alignment per record, on every file the writer produces from well-formed
   rows (row_ok: maps present, site ids within their maps, at least one pair and one HitEnum run) — any number of records, zero included *)
Theorem C07_reader_total refs qrys rows : Forall (row_ok refs qrys) rows ->
  exists als, xmap_read_lines (xmap_write_lines rows) refs qrys = XOk als /\ List.length als = List.length rows.
Proof. exact (reader_total refs qrys rows). Qed.
Example C07_zero_records refs qrys : xmap_read_lines (xmap_write_lines []) refs qrys = XOk [].
Proof. reflexivity. Qed.
(* ... and the row of C07_pairless_join_refuted (no pair, empty HitEnum) is outside row_ok: its record cannot be read back (TypeError) *)
Definition f9_record : xrow :=
  {| x_qid := 7; x_rid := 1; x_qstart := 0; x_qend := 0; x_rstart := 0; x_rend := 0; x_rev := false; x_conf := 0; x_runs := [];
     x_qlen := 440; x_rlen := 150; x_rest := false; x_pairs := [] |}.
Example C07_pairless_record_unreadable :
  xmap_read_lines (xmap_write_lines [f9_record]) [(1, [0; 60; 140])] [(7, [0; 20; 90])] = XErr EType.
Proof. vm_compute. reflexivity. Qed.

(* ================================================================== non-vacuity =================================================== *)
(* sp 1000, dp 1, su -250, ms 1000, bs 1200, d 1500, sj 0.1: a query of 6 labels with a 1.6 kb insertion after the third label, one
   seed peak per diagonal; sorted maps, the hypotheses hold, two non-empty segments are built, chained and resolved without error *)
Definition ex_P := mkP 20000 2 (-5000) 20000 24000 15000 (inject_Z 2) 0.
Definition ex_ref := mkMap 1 300010 [10000; 50000; 90000; 140000; 200000; 260000] 0.
Definition ex_qry := mkMap 7 266010 [0; 40000; 80000; 146000; 206000; 266000] 0.
Example C07_nonvacuous :
  StronglySorted Z.le (mpositions ex_ref) /\ StronglySorted Z.le (mpositions ex_qry) /\ SU ex_P <= 0 /\ 0 < MS ex_P /\
  map (fun s => List.length (positions s)) (segs_for_peaks ex_P 1 ex_ref ex_qry [10000; -6000] false) = [3%nat; 3%nat] /\
  exists segs, aligner_align ex_P 1 ex_ref ex_qry [10000; -6000] false = Ok segs /\ List.length segs = 2%nat /\
               site_pairs_of (row_create segs 7 1 266010 300010 false) = [(1, 1); (2, 2); (3, 3); (4, 4); (5, 5); (6, 6)].
Proof. split; [|split]; [repeat (apply SSorted_cons || apply SSorted_nil || apply Forall_cons || apply Forall_nil); discriminate ..|].
  split; [discriminate|]. split; [reflexivity|]. split; [vm_compute; reflexivity|]. eexists. split; [vm_compute; reflexivity|]. split; vm_compute; reflexivity. Qed.

Print Assumptions C07_factory_segments_have_pairs.
Print Assumptions C07_segment_accessors_total.
Print Assumptions C07_chain_total.
Print Assumptions C07_slice_raises_iff.
Print Assumptions C07_resolve_pair_raises_only_in_slice.
Print Assumptions C07_resolve_pair_total.
Print Assumptions C07_first_resolution_total.
Print Assumptions C07_aligner_total_partial.
Print Assumptions C07_aligner_total_repaired.
Print Assumptions C07_generic_is_model.
Print Assumptions C07_repair_conservative.
Print Assumptions C07_slice_repaired.
Print Assumptions C07_fragments_total.
Print Assumptions C07_join_refuted.
Print Assumptions C07_join_total_repaired_partial.
Print Assumptions C07_pairless_join_refuted.
Print Assumptions C07_cigar_total.
Print Assumptions C07_reader_total.

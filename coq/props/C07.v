(* C07 — Well-formed input never aborts the run; unalignable queries just yield no record.            (PARTIAL, see below)

   "For any syntactically valid reference and query CMAP files COMA terminates normally and writes a well-formed XMAP file (header plus
    zero or more records); a query that cannot be placed produces no record and does not affect the others.  Every XMAP file COMA
    writes, including one with zero records, can be read back by the project's own XMAP reader."

   What a Gallina model can say about this, and what it cannot.
   The model represents every Python exception site of the GLUE code as `Err` (Core.v: startPosition/endPosition of a non-empty
   segment without aligned pair, list indexing — the trimming loop of AlignmentSegment.slice no longer raises, repair F8 —; Multi.v:
   list.index, alignedPairs[0], segments[0]; Cigar.v: hits[0], next() on an exhausted iterator; Xmap.v: the reader's exceptions by type).
   The theorems below are statements "the model returns Ok".  OUTSIDE any such model, and therefore not covered by a theorem:
   exceptions raised inside numpy / scipy / pandas (cross-correlation, find_peaks — e.g. minPeakDistance below primaryResolution is
   rejected by scipy —, DataFrame parsing), memory exhaustion, signals, the process pool of p_imap, the file system.  Those parts are
   exercised only by the end-to-end oracle of harness/props/C07.py (real CLI runs on degenerate data sets, every output mode, every
   file read back with the project's reader).

   Run-level glue (section 7, added): the per-query loop of _WorkflowCoordinator.execute/__align (candidate rows, best-candidate choice,
   pair-less rows dropped), the second pass of _MultiPassWorkflowCoordinator (getUnalignedFragments for every first-pass row, second
   execute, AlignmentResults.resolve, which rows go to which file in the four output modes) and Program.run are modelled in
   model/Coordinator.v over an ABSTRACT seeding function `seeds` (reference, strand and secondary peaks of every selected primary peak:
   the numpy/scipy part).  C07_run_total: for SU <= 0 < MS, trimmed queries with distinct ids, strictly ascending references, ANY
   seeding function that proposes only maps it was given (seeds_ok), ANY mode and maxDifference, program_run returns Ok: the modelled
   glue never raises.  The one step that was open — AlignmentResultRow.resolve reads startPosition/endPosition of segments[0] of both
   parts, which raise IndexError on a non-empty segment without aligned pair — is closed by C07_aligner_first_segment_defined:
   segments[0] of a row Aligner.align returns is empty or still contains the first pair of the first chain member (no witness exists:
   the first pair of the first chain member is less-on-both-sequences than the start of every later member, because an admissible join
   starts at or after the middle of its predecessor, so no conflict region ever contains it).  Hence C07_join_total (full, in place of
   C07_join_total_partial).  NOT covered by section 7: that every written file satisfies the hypothesis of C07_reader_total (for the
   non-joined rows see C01_run_rows_valid; joined rows: open finding F10), queries with equal ids, maps with coincident labels.

   Units: positions in tenths of bp, scores in 1/20 (Core.v).  P : params with SU = 20*unmatchedPenalty, MS = 20*minScore.
   The only parameter hypotheses are SU P <= 0 (the code raises ValueError("penalty should be negative") for a positive
   unmatchedPenalty, on purpose) and 0 < MS P.

   Findings recorded with this property — all three are REPAIRED in the code this model transliterates; their witnesses are kept below
   as regressions over explicit variants of the old code (TotalProofs1.slice_gen false = slice before repair F8,
   TotalProofs3.results_resolve_gen f8 f9 = AlignmentResults.resolve with / without the repairs; (true, true) is the model), next to
   theorems saying that the current model does not have the defect on the same inputs:
   F8  (repaired: `while positions and not isinstance(positions[-1], AlignedPair) and ...`; Core.trim_rev [] = Ok [])
       AlignmentResultRow.resolve -> AlignmentSegment.slice -> __trimNotAlignedPositionsFromEnd raised IndexError on the emptied list
       (C07_slice_raises_iff_before_F8, C07_join_refuted_before_F8; now: C07_slice_total, C07_aligner_total, C07_join_ok_on_F8_witness);
   F9  (repaired: `if resolved and resolved.alignedPairs` in AlignmentResults.resolve; Multi.resolve_groups tests joined_ok)
       AlignmentResultRow.resolve can return a row without any aligned pair; it used to replace its two parts and was written as a
       record the reader cannot read (C07_pairless_join_before_F9, C07_pairless_record_unreadable; now the two parts stay un-joined:
       C07_pairless_join_not_reported_on_F9_witness);
   F11 (repaired) a reference whose labels end before the query's extent (e.g. one label) aborted the run inside
       InitialAlignment.refine (IndexError around scipy.signal.correlate on an empty reference window) — in the seeding stage, in
       numpy/scipy territory, outside this model; real-file data set f11_short_labelled_reference in harness/props/C07.py.
   This file contains only statements; every proof is `exact <lemma>`. *)
From Coq Require Import ZArith QArith List Bool String Sorting.Sorted.
Import ListNotations.
Require Import Py Pairing Core Multi Cigar CigarProofs Xmap XmapProofs2 ChainCore Checkers ConflictProofs TotalProofs1 TotalProofs2 TotalProofs3.
Require Import Coordinator ResolverProofs10 RunProofs1 RunProofs2.
Require ModesExamples RunProofs4.
Open Scope Z_scope.

(* ================================================================== 1. segment factory, ordering key, chain: never raise ========== *)
(* first_is_pair l / last_is_pair l: l is empty or its first / last element is an aligned pair (proofs/ConflictProofs.v).
   Every segment the factory returns for scored engine output begins and ends with an aligned pair: it begins and ends on a
   positive score (C13) and an unpaired label scores SU <= 0. *)
Theorem C07_factory_segments_have_pairs P ps peak s : SU P <= 0 -> 0 < MS P ->
  In s (get_segments P (map (score_pos P) ps) peak) -> first_is_pair (positions s) /\ last_is_pair (positions s).
Proof. exact (factory_segment_ends P ps peak s). Qed.

(* hence on every segment Aligner.align builds (any maps, any peaks, both strands) startPosition, endPosition and the chain's
   ordering key are defined (seg_defined s := s non-empty -> s has an aligned pair) ... *)
Theorem C07_segment_accessors_total P it reference query peaks rev_ s : SU P <= 0 -> 0 < MS P ->
  In s (segs_for_peaks P it reference query peaks rev_) ->
  seg_defined s /\ (exists a e, start_position s = Ok a /\ end_position s = Ok e) /\ order_key s = Ok (okey s).
Proof. exact (aligner_segments_defined P it reference query peaks rev_ s). Qed.
(* ... and SegmentChainer.chain does not raise on them (with C14: it raises iff some non-empty segment has no aligned pair) *)
Theorem C07_chain_total P it reference query peaks rev_ : SU P <= 0 -> 0 < MS P ->
  exists c, chain P (segs_for_peaks P it reference query peaks rev_) = Ok c.
Proof. exact (aligner_chain_total P it reference query peaks rev_). Qed.

(* ================================================================== 2. conflict resolution: never raises (where it did) ========== *)
(* window s st en = the positions slice keeps before trimming (dropwhile lessOnBoth(start), takewhile not-a-pair-or-lessOrEqualOnAny(end));
   loose en p = p is not a pair and not lessOrEqualOnAnySequence(en), i.e. the trimming loop pops it.
   AlignmentSegment.slice never raises: the trimming loop stops on the emptied list (repair F8). *)
Theorem C07_slice_total s st en : exists r, slice s st en = Ok r.
Proof. exact (slice_total s st en). Qed.
(* REGRESSION (F8).  slice_gen fixed = slice over Core.trim_rev_gen fixed; slice_gen true is the model's slice, slice_gen false the code
   before the repair, which raised (IndexError, positions[-1] of the emptied list) EXACTLY when the window is non-empty and all loose;
   there the code now returns the empty segment, everywhere else it returns what it returned before. *)
Theorem C07_slice_gen_is_model s st en : slice_gen true s st en = slice s st en.
Proof. exact (slice_gen_true s st en). Qed.
Theorem C07_slice_raises_iff_before_F8 s st en :
  slice_gen false s st en = Err <-> window s st en <> [] /\ forallb (loose en) (window s st en) = true.
Proof. exact (slice_old_err_iff s st en). Qed.
Theorem C07_slice_repaired s st en :
  (exists r, slice s st en = Ok r) /\ (forall r, slice_gen false s st en = Ok r -> slice s st en = Ok r) /\
  (slice_gen false s st en = Err -> slice s st en = Ok (seg_create [] (speak s))).
Proof. exact (conj (slice_total s st en) (conj (slice_old_agree s st en) (slice_old_err_now s st en))). Qed.

(* one resolution step on two segments with defined ends (empty, or with an aligned pair) never raises ... *)
Theorem C07_resolve_pair_total_defined a b : seg_defined a -> seg_defined b -> exists r, resolve_pair a b = Ok r.
Proof. exact (resolve_pair_total a b). Qed.
(* ... REGRESSION (F8): before the repair it raised only inside slice (resolve_pair_g sl = resolve_pair with sl in place of slice) *)
Theorem C07_resolve_pair_raises_only_in_slice_before_F8 a b : seg_defined a -> seg_defined b -> resolve_pair_g (slice_gen false) a b = Err ->
  seg_empty a = false /\ end_overlaps a b = Ok true /\
  exists cs ce, start_position b = Ok cs /\ end_position a = Ok ce /\ (slice_gen false a cs ce = Err \/ slice_gen false b cs ce = Err).
Proof. exact (resolve_pair_g_err (slice_gen false) a b). Qed.

(* (statements from before the repair, still true, now instances of C07_resolve_pair_total_defined)
   a left member that ends with a pair and whose pairs are all lessOrEqualOnAnySequence(its last pair), and a right member that begins
   with a pair, resolve without raising ... *)
Theorem C07_resolve_pair_total a b :
  first_is_pair (positions a) -> last_is_pair (positions a) -> pairs_le_end a -> first_is_pair (positions b) ->
  exists r, resolve_pair a b = Ok r.
Proof. exact (resolve_pair_fresh_total a b). Qed.
(* ... which holds for ANY two segments Aligner.align builds from maps with ascending positions (ties allowed): the first resolution
   step of every pair never raises. *)
Theorem C07_first_resolution_total P it reference query peaks rev_ a b :
  StronglySorted Z.le (mpositions reference) -> StronglySorted Z.le (mpositions query) -> SU P <= 0 -> 0 < MS P ->
  In a (segs_for_peaks P it reference query peaks rev_) -> In b (segs_for_peaks P it reference query peaks rev_) ->
  exists r, resolve_pair a b = Ok r.
Proof. exact (first_resolution_total P it reference query peaks rev_ a b). Qed.

(* ================================================================== 3. Aligner.align ============================================== *)
(* FULL: Aligner.align never raises — for all maps (sorted or not: the statement asked for sorted maps only), all peak lists, both
   strands, every iteration counter, all parameters with SU <= 0 < MS.  (Segments, ordering key and chain never raise, section 1; the
   resolution loop keeps on its stack only members that still have a pair, and one step on such members raises only inside slice,
   which is total after repair F8.) *)
Theorem C07_aligner_total P it reference query peaks rev_ : SU P <= 0 -> 0 < MS P ->
  exists segs, aligner_align P it reference query peaks rev_ = Ok segs.
Proof. exact (aligner_total P it reference query peaks rev_). Qed.
(* aligner_align_g sl = the model with sl in place of slice: instantiated with the model's slice it IS the model ... *)
Theorem C07_generic_is_model P it reference query peaks rev_ :
  aligner_align_g slice P it reference query peaks rev_ = aligner_align P it reference query peaks rev_.
Proof. exact (aligner_align_g_slice P it reference query peaks rev_). Qed.
(* ... REGRESSION (F8), the code before the repair = aligner_align_g (slice_gen false): the repair changed nothing where that did not
   raise; if it raised, it was the IndexError of slice inside the resolution loop over a chain built from at least two segments,
   and the loop as it is now does not raise there.  (No input on which the old Aligner.align itself raised was ever found; the crash
   was reached through the multi-pass join, section 4.) *)
Theorem C07_repair_conservative P it reference query peaks rev_ segs :
  aligner_align_g (slice_gen false) P it reference query peaks rev_ = Ok segs -> aligner_align P it reference query peaks rev_ = Ok segs.
Proof. exact (aligner_old_agree P it reference query peaks rev_ segs). Qed.
Theorem C07_aligner_raises_only_in_loop_before_F8 P it reference query peaks rev_ : SU P <= 0 -> 0 < MS P ->
  aligner_align_g (slice_gen false) P it reference query peaks rev_ = Err ->
  exists ch, chain P (segs_for_peaks P it reference query peaks rev_) = Ok ch /\
             (2 <= List.length (segs_for_peaks P it reference query peaks rev_))%nat /\
             resolve_loop_g (slice_gen false) (List.length ch) 0 ch [] = Err /\ exists r, resolve_loop (List.length ch) 0 ch [] = Ok r.
Proof. exact (aligner_old_err_only_in_loop P it reference query peaks rev_). Qed.

(* ================================================================== 4. multi-pass glue on rows ==================================== *)
(* getUnalignedFragments: list.index(queryStartPosition / queryEndPosition) is the only raising operation, on the '+' strand only;
   it does not raise when both coordinates are positions of the query (they are positions of paired query labels) *)
Theorem C07_fragments_total w qpos : (rrev w = false -> In (qs w) qpos /\ In (qe w) qpos) -> exists r, unaligned_fragments w qpos = Ok r.
Proof. exact (unaligned_fragments_total w qpos). Qed.

(* AlignmentResultRow.resolve.  FULL STATEMENT: for rows a, b built by Aligner.align (with at least one pair each) join_rows a b = Ok _.
   PARTIAL: the join does not raise when both parts have a pair and the FIRST segment of each part is empty or has an aligned pair
   (missing HERE: that Aligner.align never returns a row whose first segment is non-empty without pair; now proved,
   C07_aligner_first_segment_defined, and the full statement is C07_join_total in section 7) *)
Theorem C07_join_total_partial a b : row_pairs (rsegs a) <> [] -> row_pairs (rsegs b) <> [] ->
  (forall s, seg0 a = Ok s -> seg_defined s) -> (forall s, seg0 b = Ok s -> seg_defined s) ->
  exists r, join_rows a b = Ok r.
Proof. exact (join_rows_total a b). Qed.
(* join_rows_g sl = join_rows with sl in place of slice; results_resolve_gen f8 f9 = AlignmentResults.resolve with (true) / without
   (false) the repairs F8 / F9: with both it is the model *)
Theorem C07_generic_join_is_model a b : join_rows_g slice a b = join_rows a b.
Proof. exact (join_rows_g_slice a b). Qed.
Theorem C07_generic_resolve_is_model rows maxdiff : results_resolve_gen true true rows maxdiff = results_resolve rows maxdiff.
Proof. exact (results_resolve_gen_model rows maxdiff). Qed.
(* REGRESSION (F8): the full statement was REFUTED for the code before the repair: concrete maps, parameters and seed peaks (units in
   the comment of proofs/TotalProofs3.v: reference labels at 10, 14, 18 bp, query labels at 0, 5, 6, 10 bp, first pass from peaks 11 and
   12, second pass from peak 7) on which both passes succeed, the fragment is recomputed without error, the two rows overlap, and the
   join raised. *)
Theorem C07_join_refuted_before_F8 : exists P reference query peaks1 peaks2 segs1 segs2 frag,
  StronglySorted Z.le (mpositions reference) /\ StronglySorted Z.le (mpositions query) /\ SU P <= 0 /\ 0 < MS P /\
  aligner_align_g (slice_gen false) P 1 reference query peaks1 false = Ok segs1 /\
  (let w1 := row_create segs1 (mid query) (mid reference) (mlen query) (mlen reference) false in
   unaligned_fragments w1 (mpositions query) = Ok [frag] /\
   aligner_align_g (slice_gen false) P 3 reference frag peaks2 false = Ok segs2 /\
   let w2 := row_create segs2 (mid query) (mid reference) (mlen query) (mlen reference) false in
   row_pairs (rsegs w1) <> [] /\ row_pairs (rsegs w2) <> [] /\ check_overlap w1 w2 1000000 = true /\
   join_rows_g (slice_gen false) w1 w2 = Err /\ results_resolve_gen false false [w1; w2] 1000000 = Err).
Proof. exact f8_join_refuted_before. Qed.
Example C07_join_raises_on_F8_witness_before_F8 :
  aligner_align_g (slice_gen false) f8_P 1 f8_ref f8_qry [110; 120] false = Ok f8_segs1 /\ map kinds f8_segs1 = [[0; 1; 2]; [0]] /\
  unaligned_fragments f8_row1 (mpositions f8_qry) = Ok [f8_qry] /\
  aligner_align_g (slice_gen false) f8_P 3 f8_ref f8_qry [70] false = Ok f8_segs2 /\ map kinds f8_segs2 = [[0; 0]] /\
  check_overlap f8_row1 f8_row2 1000000 = true /\
  join_rows_g (slice_gen false) f8_row1 f8_row2 = Err /\
  results_resolve_gen false false [f8_row1; f8_row2] 1000000 = Err /\ results_resolve_gen false true [f8_row1; f8_row2] 1000000 = Err.
Proof. exact f8_witness_before. Qed.
(* the current model on the same witness: the same passes return the same segments, the join returns the row (1,1) (2,3) (3,4) — a valid
   matching of the 3 reference and 4 query labels —, and AlignmentResults.resolve reports it in place of its two parts *)
Theorem C07_join_ok_on_F8_witness :
  aligner_align f8_P 1 f8_ref f8_qry [110; 120] false = Ok f8_segs1 /\
  aligner_align f8_P 3 f8_ref f8_qry [70] false = Ok f8_segs2 /\
  exists j, join_rows f8_row1 f8_row2 = Ok j /\ site_pairs_of j = [(1, 1); (2, 3); (3, 4)] /\
    results_resolve [f8_row1; f8_row2] 1000000 = Ok ([j], []).
Proof. exact f8_witness_now. Qed.
Example C07_joined_row_valid_on_F8_witness :
  option_map (fun j => valid_rowb 3 1 4 false (site_pairs_of j)) (match join_rows f8_row1 f8_row2 with Ok j => Some j | Err => None end) = Some true.
Proof. vm_compute. reflexivity. Qed.

(* REGRESSION (F9).  "does not raise" is not yet "can be read back": the join of two rows whose FIRST segments were emptied by conflict
   resolution is a row without any aligned pair (reference labels at 0, 6, 14 bp, query labels at 0, 2, 9 bp, peaks 0 and 6, then -2
   and -1); before repair F9 (with or without repair F8) AlignmentResults.resolve reported it in place of its two parts ... *)
Theorem C07_pairless_join_before_F9 :
  aligner_align_g (slice_gen false) f9_P 1 f9_ref f9_qry [0; 60] false = Ok f9_segs1 /\ map seg_empty f9_segs1 = [true; false] /\
  site_pairs_of f9_row1 = [(2, 1); (3, 3)] /\
  unaligned_fragments f9_row1 (mpositions f9_qry) = Ok [f9_qry] /\
  aligner_align_g (slice_gen false) f9_P 3 f9_ref f9_qry [-20; -10] false = Ok f9_segs2 /\ map seg_empty f9_segs2 = [true; false] /\
  site_pairs_of f9_row2 = [(1, 2); (2, 3)] /\
  exists j, results_resolve_gen false false [f9_row1; f9_row2] 1000000 = Ok ([j], []) /\
            results_resolve_gen true false [f9_row1; f9_row2] 1000000 = Ok ([j], []) /\ site_pairs_of j = [] /\ conf j = 0.
Proof. exact f9_witness_before. Qed.
(* ... the current model on the same witness: same passes, same rows, the guard holds and the join of the two first segments is still
   a row without any pair, but AlignmentResults.resolve no longer reports it: both parts stay un-joined.  In general every joined row
   AlignmentResults.resolve reports has a pair: C08_join_guard, C08_partition (conjunct joined_ok j = true). *)
Theorem C07_pairless_join_not_reported_on_F9_witness :
  aligner_align f9_P 1 f9_ref f9_qry [0; 60] false = Ok f9_segs1 /\
  aligner_align f9_P 3 f9_ref f9_qry [-20; -10] false = Ok f9_segs2 /\
  check_overlap f9_row1 f9_row2 1000000 = true /\
  (exists j, join_rows f9_row1 f9_row2 = Ok j /\ site_pairs_of j = [] /\ joined_ok j = false) /\
  results_resolve [f9_row1; f9_row2] 1000000 = Ok ([], [f9_row1; f9_row2]).
Proof. exact f9_witness_now. Qed.

(* ================================================================== 5. HitEnum ==================================================== *)
(* cigarString of a valid matching (C01: strictly ascending reference labels, strictly monotone query labels) never raises *)
Theorem C07_cigar_total dir ps : dir = 1 \/ dir = -1 -> valid dir ps -> exists s, cigar_string ps = Ok s.
Proof. exact (cigar_total dir ps). Qed.

(* ================================================================== 6. every written file can be read back ======================== *)
(* re-export of C18: the reader returns normally, with one alignment per record, on every file the writer produces from well-formed
   rows (row_ok: maps present, site ids within their maps, at least one pair and one HitEnum run) — any number of records, zero included *)
Theorem C07_reader_total refs qrys rows : Forall (row_ok refs qrys) rows ->
  exists als, xmap_read_lines (xmap_write_lines rows) refs qrys = XOk als /\ List.length als = List.length rows.
Proof. exact (reader_total refs qrys rows). Qed.
Example C07_zero_records refs qrys : xmap_read_lines (xmap_write_lines []) refs qrys = XOk [].
Proof. reflexivity. Qed.
(* ... and the row of C07_pairless_join_before_F9 (no pair, empty HitEnum), which is no longer written, is outside row_ok: its record
   could not be read back (TypeError) *)
Definition f9_record : xrow :=
  {| x_qid := 7; x_rid := 1; x_qstart := 0; x_qend := 0; x_rstart := 0; x_rend := 0; x_rev := false; x_conf := 0; x_runs := [];
     x_qlen := 440; x_rlen := 150; x_rest := false; x_pairs := [] |}.
Example C07_pairless_record_unreadable :
  xmap_read_lines (xmap_write_lines [f9_record]) [(1, [0; 60; 140])] [(7, [0; 20; 90])] = XErr EType.
Proof. vm_compute. reflexivity. Qed.

(* ================================================================== non-vacuity =================================================== *)
(* sp 1000, dp 1, su -250, ms 1000, bs 1200, d 1500, sj 0.1: a query of 6 labels with a 1.6 kb insertion after the third label, one
   seed peak per diagonal; sorted maps, the hypotheses hold, two non-empty segments are built, chained and resolved without error *)
Definition ex_P := mkP 20000 2 (-5000) 20000 24000 15000 (inject_Z 2) 0.
Definition ex_ref := mkMap 1 300010 [10000; 50000; 90000; 140000; 200000; 260000] 0.
Definition ex_qry := mkMap 7 266010 [0; 40000; 80000; 146000; 206000; 266000] 0.
Example C07_nonvacuous :
  StronglySorted Z.le (mpositions ex_ref) /\ StronglySorted Z.le (mpositions ex_qry) /\ SU ex_P <= 0 /\ 0 < MS ex_P /\
  map (fun s => List.length (positions s)) (segs_for_peaks ex_P 1 ex_ref ex_qry [10000; -6000] false) = [3%nat; 3%nat] /\
  exists segs, aligner_align ex_P 1 ex_ref ex_qry [10000; -6000] false = Ok segs /\ List.length segs = 2%nat /\
               site_pairs_of (row_create segs 7 1 266010 300010 false) = [(1, 1); (2, 2); (3, 3); (4, 4); (5, 5); (6, 6)].
Proof. split; [|split]; [repeat (apply SSorted_cons || apply SSorted_nil || apply Forall_cons || apply Forall_nil); discriminate ..|].
  split; [discriminate|]. split; [reflexivity|]. split; [vm_compute; reflexivity|]. eexists. split; [vm_compute; reflexivity|]. split; vm_compute; reflexivity. Qed.

(* ================================================================== 7. the whole run (model/Coordinator.v) ======================= *)
(* engine_ok P reference query := 0 <= DMAX P /\ 0 < MS P /\ SU P <= 0 /\ both position lists strictly ascending (ResolverProofs10).
   segments[0] of every row Aligner.align returns is empty or has an aligned pair: its startPosition / endPosition never raise *)
Theorem C07_aligner_first_segment_defined P it reference query peaks rev_ segs s0 t : engine_ok P reference query ->
  aligner_align P it reference query peaks rev_ = Ok segs -> segs = s0 :: t ->
  seg_defined s0 /\ exists a e, start_position s0 = Ok a /\ end_position s0 = Ok e.
Proof. exact (fun Hok H E => let D := aligner_head_defined P it reference query peaks rev_ segs s0 t Hok H E in conj D (seg_defined_positions s0 D)). Qed.
(* with a negative maxPairDistance no pair is ever built (such rows are dropped by execute) *)
Theorem C07_negative_distance_no_pairs P it reference query peaks rev_ segs : SU P <= 0 -> 0 < MS P -> DMAX P < 0 ->
  aligner_align P it reference query peaks rev_ = Ok segs -> row_pairs segs = [].
Proof. exact (aligner_neg_no_pairs P it reference query peaks rev_ segs). Qed.
(* FULL statement of C07_join_total_partial: AlignmentResultRow.resolve never raises on two rows built by Aligner.align (any two calls:
   whole query / fragment, any references, any peaks) that have at least one pair each *)
Theorem C07_join_total P it1 ref1 q1 peaks1 rev1 segs1 it2 ref2 q2 peaks2 rev2 segs2 a b :
  engine_ok P ref1 q1 -> engine_ok P ref2 q2 ->
  aligner_align P it1 ref1 q1 peaks1 rev1 = Ok segs1 -> aligner_align P it2 ref2 q2 peaks2 rev2 = Ok segs2 ->
  rsegs a = segs1 -> rsegs b = segs2 -> row_pairs (rsegs a) <> [] -> row_pairs (rsegs b) <> [] ->
  exists r, join_rows a b = Ok r.
Proof. exact (join_rows_aligner_total P it1 ref1 q1 peaks1 rev1 segs1 it2 ref2 q2 peaks2 rev2 segs2 a b). Qed.

(* seeds_ok refs seeds := forall q sd, In sd (seeds refs q) -> In (sd_ref sd) refs      (the seeding stage proposes only maps it was given)
   ascending m        := StronglySorted Z.lt (mpositions m)
   trimmed q          := mshift q = 0 /\ ascending q /\ mpositions q <> [] /\ hd 0 (mpositions q) = 0 /\ mlen q = last (mpositions q) 0 + K
   Each pass: every candidate row is built (C07_aligner_total), the best one chosen, pair-less rows dropped ... *)
Theorem C07_pass_total P (seeds : seeding) refs qs it : SU P <= 0 -> 0 < MS P -> exists r, execute P seeds refs qs it = Ok r.
Proof. exact (fun Hsu Hms => execute_total P seeds refs Hsu Hms qs it). Qed.
(* ... getUnalignedFragments finds the query of every first-pass row (its id is the id of exactly one query) and, on the '+' strand, finds
   QryStartPos / QryEndPos among the positions of that query (they are positions of paired query labels); what it returns are fragments
   of the queries (a prefix, or a suffix with the label-number offset) ... *)
Theorem C07_fragments_pass_total P (seeds : seeding) refs qs rows1 it1 : SU P <= 0 -> 0 < MS P -> seeds_ok refs seeds ->
  (forall r, In r refs -> ascending r) -> (forall q, In q qs -> ascending q) -> NoDup (map mid qs) ->
  execute P seeds refs qs 1 = Ok (rows1, it1) ->
  exists frags, all_fragments rows1 qs = Ok frags /\ Forall (fun f => exists q, In q qs /\ fragment_of q f) frags.
Proof. exact (fun Hsu Hms Hs Hr Hq Hn => first_pass_fragments P seeds refs Hsu Hms Hs Hr qs Hq Hn rows1 it1). Qed.
(* ... AlignmentResults.resolve never raises on rows whose segments[0] are defined ... *)
Theorem C07_resolve_total rows maxdiff :
  (forall w, In w rows -> row_pairs (rsegs w) <> [] /\ forall s, seg0 w = Ok s -> seg_defined s) -> exists r, results_resolve rows maxdiff = Ok r.
Proof. exact (results_resolve_total rows maxdiff). Qed.
(* ... hence THE RUN NEVER RAISES: every mode, every maxDifference, every seeding function with seeds_ok *)
Theorem C07_run_total P (seeds : seeding) m maxdiff refs qs : SU P <= 0 -> 0 < MS P -> seeds_ok refs seeds ->
  (forall r, In r refs -> ascending r) -> (forall q, In q qs -> trimmed q) -> NoDup (map mid qs) ->
  exists o, program_run P seeds m maxdiff refs qs = Ok o.
Proof. exact (run_total P seeds m maxdiff refs qs). Qed.
(* (of `trimmed` only the strictly ascending positions are used) *)
Theorem C07_run_total_untrimmed P (seeds : seeding) m maxdiff refs qs : SU P <= 0 -> 0 < MS P -> seeds_ok refs seeds ->
  (forall r, In r refs -> ascending r) -> (forall q, In q qs -> ascending q) -> NoDup (map mid qs) ->
  exists o, program_run P seeds m maxdiff refs qs = Ok o.
Proof. exact (fun Hsu Hms Hs Hr Hq Hn => program_run_total P seeds refs Hsu Hms Hs Hr qs Hq Hn m maxdiff). Qed.

(* non-vacuity: the run of proofs/ModesExamples.v (default parameters, one reference of 16 labels, one query = reference labels 1-6, a 30 kb
   insertion, labels 7-12; the seeding function seeds the query at its true offset and its fragment 30 kb to the left) meets every
   hypothesis, and all four modes return their files (rows shown as RefContigID, QryContigID, AlignedRest, confidence x20, pairs) *)
Example C07_run_total_nonvacuous :
  SU ModesExamples.ex_P <= 0 /\ 0 < MS ModesExamples.ex_P /\ seeds_ok [ModesExamples.ex_ref] ModesExamples.ex_seeds /\
  (forall r, In r [ModesExamples.ex_ref] -> ascending r) /\ (forall q, In q [ModesExamples.ex_query] -> trimmed q) /\
  NoDup (map mid [ModesExamples.ex_query]) /\
  RunProofs4.run_files Separate 110000 = Some ([RunProofs4.run_first], Some [RunProofs4.run_second], None) /\
  RunProofs4.run_files All_ 110000 = Some ([(1, 7, false, 240000, ModesExamples.ex_p16 ++ ModesExamples.ex_p712)], Some [RunProofs4.run_first], Some [RunProofs4.run_second]) /\
  RunProofs4.run_files Joined 109999 = Some ([], Some [RunProofs4.run_first; RunProofs4.run_second], None) /\
  RunProofs4.run_files Best 110000 = Some ([(1, 7, false, 240000, ModesExamples.ex_p16 ++ ModesExamples.ex_p712)], None, None).
Proof. split; [discriminate|]. split; [reflexivity|]. split; [exact RunProofs4.ex_seeds_ok|].
  split; [exact (fun r H => proj2 (RunProofs4.ex_ref_ok r H))|]. split; [exact RunProofs4.ex_query_trimmed|]. split; [exact RunProofs4.ex_ids|].
  vm_compute. repeat split; reflexivity. Qed.

Print Assumptions C07_factory_segments_have_pairs.
Print Assumptions C07_segment_accessors_total.
Print Assumptions C07_chain_total.
Print Assumptions C07_slice_total.
Print Assumptions C07_slice_gen_is_model.
Print Assumptions C07_slice_raises_iff_before_F8.
Print Assumptions C07_slice_repaired.
Print Assumptions C07_resolve_pair_total_defined.
Print Assumptions C07_resolve_pair_raises_only_in_slice_before_F8.
Print Assumptions C07_resolve_pair_total.
Print Assumptions C07_first_resolution_total.
Print Assumptions C07_aligner_total.
Print Assumptions C07_generic_is_model.
Print Assumptions C07_repair_conservative.
Print Assumptions C07_aligner_raises_only_in_loop_before_F8.
Print Assumptions C07_fragments_total.
Print Assumptions C07_join_total_partial.
Print Assumptions C07_generic_join_is_model.
Print Assumptions C07_generic_resolve_is_model.
Print Assumptions C07_join_refuted_before_F8.
Print Assumptions C07_join_ok_on_F8_witness.
Print Assumptions C07_pairless_join_before_F9.
Print Assumptions C07_pairless_join_not_reported_on_F9_witness.
Print Assumptions C07_cigar_total.
Print Assumptions C07_reader_total.
Print Assumptions C07_aligner_first_segment_defined.
Print Assumptions C07_negative_distance_no_pairs.
Print Assumptions C07_join_total.
Print Assumptions C07_pass_total.
Print Assumptions C07_fragments_pass_total.
Print Assumptions C07_resolve_total.
Print Assumptions C07_run_total.
Print Assumptions C07_run_total_untrimmed.

(* ================================================================== 8. every file of a run can be read back ====================== *)
(* Closes, for the files without joined rows, what section 7 left open ("that every written file satisfies the hypothesis of
   C07_reader_total"): for every seeding function with seeds_ok, every mode and maxDifference, SU <= 0 < MS, references with shift 0,
   strictly ascending positions and distinct ids, queries as read (q0s) with shift 0, strictly ascending positions, a label, distinct ids,
   and the run on the trimmed queries: for the _1 and _2 files of every mode (a file that is not written counts as the empty row list) and
   for the main file of `separate`, cigarString succeeds on every row (mapM xrow_of = Ok xs: the dicts writeAlignments prints), and the
   project's reader, given the two CMAP files as read (xmap_of m = (mid m, mpositions m)), returns normally on the written data lines with
   one alignment per record.  For the main files of best / joined / all the same holds under the EXPLICIT hypothesis that each of their
   joined rows (joined_row: AlignmentResultRow.resolve of two valid rows of the passes) is a valid matching of labels of its two maps
   (row_matching) — open finding F10 excludes proving that.  The full statement (which alignments come back) is C18_run_files_readable. *)
Require Import Cmap Record RunProofs3 RunRecordProofs1 RunRecordProofs2 RunRecordProofs3.

Theorem C07_run_files_readable P (seeds : seeding) (refs q0s : list Pairing.omap) m maxdiff o :
  SU P <= 0 -> 0 < MS P -> seeds_ok refs seeds ->
  (forall r, In r refs -> mshift r = 0 /\ ascending r) -> NoDup (map mid refs) ->
  (forall q0, In q0 q0s -> mshift q0 = 0 /\ ascending q0 /\ mpositions q0 <> []) -> NoDup (map mid q0s) ->
  program_run P seeds m maxdiff refs (map trim q0s) = Ok o ->
  let reads (rows : list Multi.row) := exists xs als, mapM xrow_of rows = Ok xs /\
        xmap_read_lines (xmap_write_lines xs) (map xmap_of refs) (map xmap_of q0s) = XOk als /\ List.length als = List.length rows in
  reads (opt_rows (o_1 o)) /\ reads (opt_rows (o_2 o)) /\ (m = Separate -> reads (o_main o)) /\
  ((forall w, In w (o_main o) -> joined_row refs q0s w -> row_matching refs q0s w) -> reads (o_main o)).
Proof. exact (fun Hsu Hms Hs Hr Hrid => run_files_read_total P seeds refs Hsu Hms Hs Hr Hrid q0s m maxdiff o). Qed.

(* non-vacuity: the run of C07_run_total_nonvacuous (its query read at an offset of 1234.5 bp: rr_q0s) meets the hypotheses; per file: number
   of data lines, all printed records well-formed, number of alignments read back.  `joined` at maxDifference 10999.9: ZERO records in the
   main file, read back as the empty list *)
Example C07_run_files_readable_nonvacuous :
  SU ModesExamples.ex_P <= 0 /\ 0 < MS ModesExamples.ex_P /\ seeds_ok rr_refs ModesExamples.ex_seeds /\
  (forall r, In r rr_refs -> mshift r = 0 /\ ascending r) /\ NoDup (map mid rr_refs) /\
  (forall q0, In q0 rr_q0s -> mshift q0 = 0 /\ ascending q0 /\ mpositions q0 <> []) /\ NoDup (map mid rr_q0s) /\
  let count x := match x with Some (n, ok, Some als) => Some (n, ok, List.length als) | _ => None end in
  let counts m d := match rr_run_read m d with Some (a, b, c) => Some (count a, option_map count b, option_map count c) | None => None end in
  counts Separate 110000 = Some (Some (1%nat, true, 1%nat), Some (Some (1%nat, true, 1%nat)), None) /\
  counts Joined 109999 = Some (Some (0%nat, true, 0%nat), Some (Some (2%nat, true, 2%nat)), None) /\
  counts All_ 110000 = Some (Some (1%nat, true, 1%nat), Some (Some (1%nat, true, 1%nat)), Some (Some (1%nat, true, 1%nat))) /\
  counts Best 110000 = Some (Some (1%nat, true, 1%nat), None, None).
Proof. split; [discriminate|]. split; [reflexivity|]. split; [exact RunProofs4.ex_seeds_ok|]. split; [exact rr_refs_ok|].
  split; [exact rr_rid|]. split; [exact rr_q0s_ok|]. split; [exact rr_qid|]. vm_compute. repeat split; reflexivity. Qed.

Print Assumptions C07_run_files_readable.

(* ==================================================================================================================================
   APPENDED: THE RUN WITH THE EXECUTABLE SEEDING STAGE (model/Seeding.v, proofs/SeedingProofs1.v)

   C07_run_total quantifies over every seeding function with seeds_ok.  Seeding.seeds_model — vectorise, blur, exact cross-correlation,
   scipy.signal.find_peaks as COMA calls it, createPeaks, selectPeaks, refine, for every reference and both strands — is such a function
   (C16_seeds_model_ok), so the theorem instantiates for Seeding.program_run_full, the run model WITHOUT an abstract seeding stage.
   (An exception inside the seeding stage — resolution < 1, blur < 0, minPeakDistance < resolution, a map without labels — is mapped to
   "no seed" by seeds_model because Coordinator.seeding has no error value; in the real program it ends the run.  The same instantiation
   applies to every other run-level theorem: C01_run_rows_valid, C02_run_records, C04_run_confidence, C05, C08, C10, C18_run_files_readable.) *)
Require Import Seeding SeedingProofs1.
Theorem C07_run_full_total P sp m maxdiff refs qs : SU P <= 0 -> 0 < MS P ->
  (forall r, In r refs -> ascending r) -> (forall q, In q qs -> trimmed q) -> NoDup (map mid qs) ->
  exists o, program_run_full P sp m maxdiff refs qs = Ok o.
Proof. exact (run_full_total P sp m maxdiff refs qs). Qed.

(* non-vacuity: the run of C07_run_total_nonvacuous with the command line's default seeding parameters and NO captured seeds: the
   executable seeding stage finds the query (labels 1-6 of the reference, a 30 kb insertion, labels 7-12) on the forward strand; the
   first pass aligns labels 1-6, the second pass the fragment's labels 4-6 of the second half *)
Example C07_run_full_nonvacuous :
  (forall q, In q [ModesExamples.ex_query] -> trimmed q) /\
  match seeds_res default_sparams [ModesExamples.ex_ref] ModesExamples.ex_query with
  | Ok l => map (fun s => (mid (sd_ref s), sd_rev s, sd_peaks s)) l = [(1, false, [100480]); (1, true, [95480; 220480])]
  | Err => False end /\
  match program_run_full ModesExamples.ex_P default_sparams All_ 110000 [ModesExamples.ex_ref] [ModesExamples.ex_query] with
  | Ok o => ModesExamples.ex_view o = ([], Some [[(1, 1); (2, 2); (3, 3); (4, 4); (5, 5); (6, 6)]], Some [[(4, 4); (5, 5); (6, 6)]])
  | Err => False end.
Proof. split; [exact RunProofs4.ex_query_trimmed|]. vm_compute. split; reflexivity. Qed.
Print Assumptions C07_run_full_total.

(* ==================================================================================================================================
   APPENDED: THE WHOLE PROGRAM, FROM THE INPUT FILES TO THE OUTPUT FILES (model/Program.v, proofs/ProgramProofs1-2.v)

   Program.program_files cl ref_rows qry_rows = reader (with -rId / -qId) -> trim of the queries -> Seeding.program_run_full -> writer: the data
   lines of every XMAP file of the chosen output mode, or Err when the program ends with an exception.  The hypotheses are about what the user
   controls and nothing else:
     cmdline_ok cl   := unmatchedPenalty (-su) <= 0 < minScore (-ms)
     cmap_ok ids rows := every molecule selected by ids that has a label row has an end-marker row (sel, labels_of, markers_of: C17), and no
                         two label rows of one selected molecule carry the same position
   (rows = (CMapId, LabelChannel, Position in tenths of a bp) in file order; ids = the -rId / -qId list, [] = no selection).
   seeds_ok is discharged by C16_seeds_model_ok; "references ascending, queries trimmed, ids distinct" by the reader theorems of C17
   (ProgramProofs1.read_maps_ok: C17_read_exact + the no-duplicate-position hypothesis give strictly ascending positions).

   C07_program_reader_rejects: the reader's exact exception case (C17_read_err for the two files), and it ends the program.
   C07_program_total: otherwise both files are read, the run (both passes, all post-processing) returns its outputs o, the additional files _1 / _2
   are printed (cigarString succeeds on every row), and so is the main file — hence program_files returns Ok — in mode `separate` without further
   hypothesis, in the other modes under the hypothesis the run-level theorems C07_run_files_readable / C18_run_files_readable carry as well: every JOINED row
   of the main file is a valid matching (open findings F7/F10: cigarString on a joined row that is not a valid matching is not known to return).
   PARTIAL in exactly this sense; C07_program_total_separate is the full statement for mode `separate`.
   (An exception inside the seeding stage is "no seed" in Seeding.seeds_model, see the note above C07_run_full_total.) *)
Require Import Wiring Program CmapProofs ProgramProofs1 ProgramProofs2.
Require ProgramExamples.

Theorem C07_program_reader_rejects cl rr qr :
  (program_read cl rr qr = Err <->
    (exists i, sel (cl_rids cl) i /\ labels_of rr i <> [] /\ markers_of rr i = []) \/
    (exists i, sel (cl_qids cl) i /\ labels_of qr i <> [] /\ markers_of qr i = [])) /\
  (program_read cl rr qr = Err -> program_files cl rr qr = Err).
Proof. exact (conj (program_read_err cl rr qr) (program_read_err_files cl rr qr)). Qed.

Theorem C07_program_total_partial cl rr qr : cmdline_ok cl -> cmap_ok (cl_rids cl) rr -> cmap_ok (cl_qids cl) qr ->
  exists refs q0s o,
    cmap_read rr (cl_rids cl) = Ok refs /\ cmap_read qr (cl_qids cl) = Ok q0s /\ program_outputs cl rr qr = Ok o /\
    (exists l1 l2, file_data_lines (opt_rows (o_1 o)) = Ok l1 /\ file_data_lines (opt_rows (o_2 o)) = Ok l2) /\
    (cl_mode cl = Separate \/ (forall w, In w (o_main o) -> joined_row refs q0s w -> row_matching refs q0s w) ->
     exists files, program_files cl rr qr = Ok files).
Proof. exact (program_total cl rr qr). Qed.

Theorem C07_program_total_separate cl rr qr : cmdline_ok cl -> cmap_ok (cl_rids cl) rr -> cmap_ok (cl_qids cl) qr ->
  cl_mode cl = Separate -> exists files, program_files cl rr qr = Ok files.
Proof. exact (program_total_separate cl rr qr). Qed.

(* non-vacuity (proofs/ProgramExamples.v): reference file = molecule 1 (24 labels, rows in descending order, end marker first) and molecule 4
   (end marker only); query file = molecule 7 (reference labels 3..12, then labels 13..20 moved 30 kb to the left; rows not in order of position),
   molecule 9 (end marker only), molecule 3 (reference labels 14..22 mirrored, rows reversed); default command line.  The hypotheses hold and
   every mode returns its files: the data lines in full *)
Example C07_program_nonvacuous :
  (forall m, cmdline_ok (ProgramExamples.px_cl m)) /\ cmap_ok [] ProgramExamples.px_rr /\ cmap_ok [] ProgramExamples.px_qr /\
  (* the records, in full *)
  ProgramExamples.px_line3 "1" =
    "1	3	1	83000.0	0.0	145000.0	228000.0	-	8568.00	9M	83001.0	3000000.0	False	1	(14,9)(15,8)(16,7)(17,6)(18,5)(19,4)(20,3)(21,2)(22,1)"%string /\
  ProgramExamples.px_line7_first "2" =
    "2	7	1	0.0	93000.0	29000.0	122000.0	+	9020.00	8M1I1M1I1M	145501.0	3000000.0	False	1	(3,1)(4,2)(5,3)(6,4)(7,5)(8,6)(9,7)(10,8)(11,10)(12,12)"%string /\
  ProgramExamples.px_line7_second "1" =
    "1	7	1	86000.0	145500.0	145000.0	204500.0	+	6414.00	1M1I6M	145501.0	3000000.0	True	1	(14,11)(15,13)(16,14)(17,15)(18,16)(19,17)(20,18)"%string /\
  ProgramExamples.px_line7_joined "1" =
    "1	7	1	0.0	145500.0	29000.0	204500.0	+	14732.00	8M1I1M2D1M1I6M	145501.0	3000000.0	False	1	(3,1)(4,2)(5,3)(6,4)(7,5)(8,6)(9,7)(10,8)(11,10)(14,11)(15,13)(16,14)(17,15)(18,16)(19,17)(20,18)"%string /\
  (* the files of the four modes (evaluated by vm_compute in proofs/ProgramExamples.v) *)
  program_files (ProgramExamples.px_cl Separate) ProgramExamples.px_rr ProgramExamples.px_qr =
    Ok [(""%string, [ProgramExamples.px_line3 "1"; ProgramExamples.px_line7_first "2"]); ("_1"%string, [ProgramExamples.px_line7_second "1"])] /\
  program_files (ProgramExamples.px_cl All_) ProgramExamples.px_rr ProgramExamples.px_qr =
    Ok [(""%string, [ProgramExamples.px_line7_joined "1"]); ("_1"%string, [ProgramExamples.px_line3 "1"; ProgramExamples.px_line7_first "2"]);
        ("_2"%string, [ProgramExamples.px_line7_second "1"])] /\
  program_files (ProgramExamples.px_cl Joined) ProgramExamples.px_rr ProgramExamples.px_qr =
    Ok [(""%string, [ProgramExamples.px_line7_joined "1"]); ("_1"%string, [ProgramExamples.px_line3 "1"])] /\
  program_files (ProgramExamples.px_cl Best) ProgramExamples.px_rr ProgramExamples.px_qr =
    Ok [(""%string, [ProgramExamples.px_line3 "1"; ProgramExamples.px_line7_joined "2"])].
Proof. split; [exact ProgramExamples.px_cl_ok|]. split; [exact (proj1 ProgramExamples.px_files_ok)|]. split; [exact (proj2 ProgramExamples.px_files_ok)|].
  do 4 (split; [reflexivity|]). exact ProgramExamples.px_files. Qed.
(* a labelled molecule without end marker: the reader raises and the program ends; selecting the other molecule with -qId hides it *)
Example C07_program_missing_marker :
  let qr := (ProgramExamples.px_qr ++ [(12, 1, 5000)])%list in
  program_files (ProgramExamples.px_cl Best) ProgramExamples.px_rr qr = Err /\
  program_files (ProgramExamples.px_with_qids Best [3]) ProgramExamples.px_rr qr = Ok [(""%string, [ProgramExamples.px_line3 "1"])].
Proof. exact ProgramExamples.px_missing_marker. Qed.
(* ---- the seeding stage does not raise (closes the note above C07_run_full_total for well-formed inputs) ----
   Seeding.seeds_res is the seeding stage WITH its exceptions (resolution < 1, blur radius < 0, find_peaks distance < 1, `positions[-1]` of a map
   without labels, scipy's correlate on an empty vector); Seeding.seeds_model, the function the run model is instantiated with, answers "no seed"
   where seeds_res raises.  C07_seeding_total: with 1 <= -r1, 0 <= -b1, 1 <= -r2, 0 <= -b2, -r1 <= -md, references that each have a label at a
   position >= 0 and a query / fragment that has one, seeds_res returns normally.
   C07_program_seeding_exact: for the program on input files (cmdline_ok, seeding_ok, cmap_ok; ref_positions_ok: every labelled reference molecule has a
   label at a position >= 0): the maps the run seeds are, by the definition of _MultiPassWorkflowCoordinator.execute, the trimmed queries (first pass)
   and the fragments getUnalignedFragments returns for the first-pass rows (second pass; RunProofs5: every one of them has a label); on EVERY one of them
   seeds_model is exactly what the seeding stage returns.  The escape is never taken: program_files is the program with seeding exceptions propagated.
   (C07_program_seeding_any_map: the same for any query or any fragment with a label, whether the run produces it or not.) *)
Require Import SeedingProofs4 ProgramProofs4.
Theorem C07_seeding_total sp refs q : 1 <= res1 sp -> 0 <= blur1 sp -> 1 <= res2 sp -> 0 <= blur2 sp -> res1 sp <= min_dist sp ->
  (forall r, In r refs -> exists p, In p (mpositions r) /\ 0 <= p) -> (exists p, In p (mpositions q) /\ 0 <= p) ->
  exists sds, seeds_res sp refs q = Ok sds /\ seeds_model sp refs q = sds.
Proof. intros H1 H2 H3 H4 H5 Hr Hq. exists (seeds_model sp refs q). split; [exact (seeds_model_exact sp H1 H2 H3 H4 H5 refs q Hr Hq) | reflexivity]. Qed.

Theorem C07_program_seeding_exact cl rr qr : cmdline_ok cl -> seeding_ok cl -> cmap_ok (cl_rids cl) rr -> cmap_ok (cl_qids cl) qr -> ref_positions_ok (cl_rids cl) rr ->
  let P := make_params (cl_args cl) in let seeds : seeding := seeds_model (cl_seed cl) in
  exists refs q0s rows1 it1 frags, cmap_read rr (cl_rids cl) = Ok refs /\ cmap_read qr (cl_qids cl) = Ok q0s /\
    execute P seeds refs (map trim q0s) 1 = Ok (rows1, it1) /\ all_fragments rows1 (map trim q0s) = Ok frags /\
    forall q', In q' (map trim q0s ++ frags) -> seeds_res (cl_seed cl) refs q' = Ok (seeds_model (cl_seed cl) refs q').
Proof. exact (program_seeding_full cl rr qr). Qed.
Theorem C07_program_seeding_any_map cl rr qr : seeding_ok cl -> cmap_ok (cl_rids cl) rr -> cmap_ok (cl_qids cl) qr -> ref_positions_ok (cl_rids cl) rr ->
  exists refs q0s, cmap_read rr (cl_rids cl) = Ok refs /\ cmap_read qr (cl_qids cl) = Ok q0s /\
    forall q', src_map (map trim q0s) q' -> mpositions q' <> [] ->
      seeds_res (cl_seed cl) refs q' = Ok (seeds_model (cl_seed cl) refs q').
Proof. exact (program_seeding_exact cl rr qr). Qed.

Example C07_program_seeding_nonvacuous :
  seeding_ok default_cmdline /\ (forall m, seeding_ok (ProgramExamples.px_cl m)) /\ ref_positions_ok [] ProgramExamples.px_rr /\
  match seeds_res default_sparams [ProgramExamples.px_ref] (trim ProgramExamples.px_q3) return Prop with
  | Ok l => map (fun s => (mid (sd_ref s), sd_rev s, sd_peaks s)) l = [(1, true, [1450480]); (1, false, []); (1, false, [])] | Err => False end.
Proof. split; [repeat split; discriminate|]. split; [intros m; repeat split; discriminate|]. split; [apply ref_positions_ok_b; vm_compute; reflexivity|].
  exact ProgramExamples.px_seeds. Qed.
Print Assumptions C07_program_reader_rejects.
Print Assumptions C07_program_total_partial.
Print Assumptions C07_program_total_separate.
Print Assumptions C07_seeding_total.
Print Assumptions C07_program_seeding_exact.
Print Assumptions C07_program_seeding_any_map.

(* C03 — HitEnum is a faithful run-length encoding of the aligned pairs.
   Model: model/Cigar.v (transliteration of AlignmentResultRow.cigarString and its helpers).
   This file contains only statements; every proof is `exact <lemma>`. *)
From Coq Require Import ZArith List Bool String.
Import ListNotations.
Require Import Py Cigar CigarProofs CigarProofs2 CigarProofs3.
Open Scope Z_scope.

(* dir = 1 for Orientation '+', dir = -1 for '-'.  `valid dir ps`: strictly ascending reference labels,
   query labels strictly monotone in direction dir. *)

(* the generator loop of the code produces exactly the specified operation list M (I^(|dq|-1) D^(dr-1) M)* *)
Theorem C03_model_is_spec dir ps : valid dir ps -> ps <> [] -> hit_enums (dedup_last ps) = Ok (ops ps).
Proof. exact (hit_enums_dedup dir ps). Qed.

(* replaying the operations from the first pair reproduces exactly the listed pairs and nothing else *)
Theorem C03_replay dir ps r0 q0 rest : dir = 1 \/ dir = -1 -> ps = (r0, q0) :: rest -> valid dir ps ->
  decode dir (r0 - 1) (q0 - dir) (ops ps) = ps.
Proof. exact (fun H => replay dir H ps r0 q0 rest). Qed.

(* starts and ends with M *)
Theorem C03_shape ps : ps <> [] -> hd D (ops ps) = M /\ last (ops ps) D = M.
Proof. exact (ops_shape ps). Qed.

(* run-length aggregation: counts >= 1, adjacent runs differ, expansion gives back the operations *)
Theorem C03_runs hits rs : aggregate hits = Ok rs -> runs_ok rs /\ expand rs = hits.
Proof. exact (fun H => conj (aggregate_runs_ok hits rs H) (aggregate_expand hits rs H)). Qed.

(* the text is an injective rendering: an independent reader gets the runs back *)
Theorem C03_text rs : parse_hit (render rs) = Some rs.
Proof. exact (parse_render rs). Qed.

(* the whole property, from the string the code builds *)
Theorem C03_faithful dir ps r0 q0 rest :
  dir = 1 \/ dir = -1 -> ps = (r0, q0) :: rest -> valid dir ps ->
  exists s rs, cigar_string ps = Ok s /\ s <> EmptyString /\ parse_hit s = Some rs /\ runs_ok rs /\
               hd D (expand rs) = M /\ last (expand rs) D = M /\
               decode dir (r0 - 1) (q0 - dir) (expand rs) = ps.
Proof. exact (cigar_string_faithful dir ps r0 q0 rest). Qed.

(* regression for repair F1: before the repair a one-pair record had an empty HitEnum *)
Example C03_one_pair_before_F1 : aggregate_gen false [M] = Ok [].
Proof. exact one_pair_before_F1. Qed.
Example C03_one_pair_now : cigar_string [(5, 7)] = Ok "1M"%string.
Proof. vm_compute. reflexivity. Qed.

(* non-vacuity: a concrete reverse-strand matching with insertions and deletions meets the hypotheses *)
Example C03_nonvacuous : valid (-1) [(3, 9); (4, 8); (7, 5); (8, 2)] /\
  cigar_string [(3, 9); (4, 8); (7, 5); (8, 2)] = Ok "2M2I2D1M2I1M"%string.
Proof. split; [cbn; repeat split; reflexivity | vm_compute; reflexivity]. Qed.

Print Assumptions C03_model_is_spec.
Print Assumptions C03_replay.
Print Assumptions C03_shape.
Print Assumptions C03_runs.
Print Assumptions C03_text.
Print Assumptions C03_faithful.

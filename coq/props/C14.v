(* C14 — The chain is a best-scoring admissible order-respecting selection of segments.
   Code: segment_chainer.py (SegmentChainer.chain, SequentialityScorer.getScore, after the repair "join score uses the same query
   gap on both strands").  Model: Core.chain / Core.join_score (exceptions as Err).  Units: positions in tenths of bp, scores in 1/20,
   SJ P = 20 * segmentJoinMultiplier as a rational; the join score is an exact rational (the code divides in binary64).

   Vocabulary (proofs/ChainCore.v):
     seg_defined s    := seg_empty s = false -> aligned s <> []      a non-empty segment has an aligned pair (else startPosition raises)
     okey s           := the sort key  refStart + refEnd + qryStart + qryEnd   (0 when undefined)
     nonempties segs  := filter (negb o seg_empty) segs        empties segs := filter seg_empty segs      (both in input order)
     preordered segs  := sort_by okey (nonempties segs)        sorted(..., key=initialOrderingKey): stable, ascending
     jsP P a b        := the join score of consecutive members a, b: Some x (x rational) or None (the code's -inf)
     chain_total P c  := total of the chain c accumulated exactly as the code does:
                           t1 = Qred (0 + score s1),  t(k+1) = Qred (Qred (tk + join (sk, s(k+1))) + score s(k+1));
                         None iff c is empty or some consecutive join is None.  (Qred t == t, so this is the plain rational sum.)
     Sub c l          := c is a subsequence of l (elements picked by position, order kept, each position at most once)
     refDist pe cs = ref(cs) - ref(pe), qryDist likewise on the query; refLen/qryLen = min of the two spans (query spans in absolute value),
                         for ps/pe = start/end pair of the previous segment and cs/ce of the current one. *)
From Coq Require Import ZArith QArith List Bool Sorting.Permutation.
Import ListNotations.
Require Import Py Pairing Core DP DPProofs ChainQ PyProofs ChainCore.
Open Scope Z_scope.

(* the result is a subsequence of the pre-ordered non-empty segments followed by all empty segments in input order;
   it picks at least one non-empty segment when there is one, and no segment twice when the input has no repeats *)
Theorem C14_sublist P segs : (forall s, In s segs -> seg_defined s) ->
  exists c, chain P segs = Ok (c ++ empties segs) /\ Sub c (preordered segs) /\
            (preordered segs <> [] -> c <> []) /\ (NoDup segs -> NoDup c).
Proof. exact (chain_sublist P segs). Qed.

(* the precondition is what the code needs: a non-empty segment without aligned pair makes chain raise *)
Theorem C14_undefined_raises P segs s : In s segs -> seg_empty s = false -> aligned s = [] -> chain P segs = Err.
Proof. exact (chain_err P segs s). Qed.

(* the pre-order is a stable ascending sort on the key *)
Theorem C14_preorder segs :
  Permutation (preordered segs) (nonempties segs) /\ ksorted okey (preordered segs) /\
  forall k, filter (fun s => okey s =? k) (preordered segs) = filter (fun s => okey s =? k) (nonempties segs).
Proof. exact (preordered_spec segs). Qed.
Theorem C14_key s a e : start_position s = Ok a -> end_position s = Ok e ->
  okey s = lpos (pr a) + lpos (pr e) + lpos (pq a) + lpos (pq e).
Proof. exact (okey_value s a e). Qed.

(* optimality: the total of the non-empty part is defined (never minus infinity) and is >= (Qle on rationals) the total of every
   subsequence of the pre-ordered list whose total is defined, i.e. every non-empty one all of whose consecutive joins are admissible *)
Theorem C14_optimal P segs : (forall s, In s segs -> seg_defined s) -> preordered segs <> [] ->
  exists c tbest, chain P segs = Ok (c ++ empties segs) /\ Sub c (preordered segs) /\ c <> [] /\
    chain_total P c = Some tbest /\
    forall c' t, Sub c' (preordered segs) -> chain_total P c' = Some t -> (t <= tbest)%Q.
Proof. exact (chain_best P segs). Qed.

(* no consecutive pair of the result is joined with minus infinity *)
Theorem C14_finite P segs : (forall s, In s segs -> seg_defined s) ->
  exists c, chain P segs = Ok (c ++ empties segs) /\
    forall c1 a b c2, c = c1 ++ a :: b :: c2 -> exists x, join_score P a b = Ok (Some x).
Proof. exact (chain_finite P segs). Qed.

(* consecutive members never overlap by more than half the shorter one, on either axis (same formula on both strands) *)
Theorem C14_half_overlap P segs : (forall s, In s segs -> seg_defined s) ->
  exists c, chain P segs = Ok (c ++ empties segs) /\
    forall c1 prev cur_ c2, c = c1 ++ prev :: cur_ :: c2 ->
    exists ps pe cs ce, start_position prev = Ok ps /\ end_position prev = Ok pe /\ start_position cur_ = Ok cs /\ end_position cur_ = Ok ce /\
      0 <= refLen ps pe cs ce + 2 * refDist pe cs /\ 0 <= qryLen ps pe cs ce + 2 * qryDist pe cs.
Proof. exact (chain_half_overlap P segs). Qed.

(* a join score is never positive (either sequentialityScore variant: SS P is arbitrary) *)
Theorem C14_join_nonpositive P a b x : (0 <= SJ P)%Q -> join_score P a b = Ok (Some x) -> (x <= 0)%Q.
Proof. exact (join_score_nonpos P a b x). Qed.

(* ... and is 0 for a perfectly contiguous join *)
Theorem C14_join_contiguous_zero P prev cur_ pe cs x :
  end_position prev = Ok pe -> start_position cur_ = Ok cs -> refDist pe cs = 0 -> qryDist pe cs = 0 ->
  join_score P prev cur_ = Ok (Some x) -> (x == 0)%Q.
Proof. exact (join_contiguous_zero P prev cur_ pe cs x). Qed.
(* which is admissible whenever neither segment runs backwards on the reference *)
Theorem C14_join_contiguous_admissible P prev cur_ ps pe cs ce :
  start_position prev = Ok ps -> end_position prev = Ok pe -> start_position cur_ = Ok cs -> end_position cur_ = Ok ce ->
  refDist pe cs = 0 -> qryDist pe cs = 0 -> lpos (pr ps) <= lpos (pr pe) -> lpos (pr cs) <= lpos (pr ce) ->
  exists x, join_score P prev cur_ = Ok (Some x) /\ (x == 0)%Q.
Proof. exact (join_contiguous_admissible P prev cur_ ps pe cs ce). Qed.

(* what an admissible / inadmissible join is, in terms of the four end pairs *)
Theorem C14_join_value P prev cur_ ps pe cs ce :
  start_position prev = Ok ps -> end_position prev = Ok pe -> start_position cur_ = Ok cs -> end_position cur_ = Ok ce ->
  join_score P prev cur_ =
  if Z.min (refLen ps pe cs ce + 2 * refDist pe cs) (qryLen ps pe cs ce + 2 * qryDist pe cs) <? 0 then Ok None
  else Ok (Some (Qred (- SJ P * calc_score (SS P) (refDist pe cs) (qryDist pe cs))%Q)).
Proof. exact (join_score_positions P prev cur_ ps pe cs ce). Qed.

(* ---------- non-vacuity ---------- *)
Definition ex_pair (rs rp qs qp : Z) : spos := mkS (Pair (mkLabel rs rp) (mkLabel qs qp) 0 0) 0.
Definition ex_seg (i r0 q0 r1 q1 score : Z) : segment := mkSeg [ex_pair (2 * i + 1) r0 (2 * i + 1) q0; ex_pair (2 * i + 2) r1 (2 * i + 2) q1] score 0.
Definition ex_P (ss : Z) : params := mkP 20000 2 (-5000) 20000 24000 15000 (20 # 1) ss.
(* A: 0-1000 bp on both axes; C: 1000-2000 bp, contiguous with A; B: reference 500-1500 (overlaps A by exactly half), query 2000-3000,
   score 5 — its join penalty from A exceeds its score and C -> B is inadmissible; D: 1400-2400 on both axes overlaps C by 600 > half;
   E: an empty segment.  Input order B, E, D, C, A. *)
Definition ex_A := ex_seg 0 0 0 10000 10000 20000.
Definition ex_B := ex_seg 1 5000 20000 15000 30000 100.
Definition ex_C := ex_seg 2 10000 10000 20000 20000 20000.
Definition ex_D := ex_seg 3 14000 14000 24000 24000 19000.
Definition ex_E := mkSeg [] 0 7.
Example C14_nonvacuous :
  chain (ex_P 0) [ex_B; ex_E; ex_D; ex_C; ex_A] = Ok [ex_A; ex_C; ex_E] /\
  chain (ex_P 1) [ex_B; ex_E; ex_D; ex_C; ex_A] = Ok [ex_A; ex_C; ex_E] /\
  preordered [ex_B; ex_E; ex_D; ex_C; ex_A] = [ex_A; ex_C; ex_B; ex_D] /\
  chain_total (ex_P 0) [ex_A; ex_C] = Some (40000 # 1) /\
  join_score (ex_P 0) ex_A ex_B = Ok (Some (-100000 # 3)) /\      (* half overlap exactly: admissible, penalty 1666.67 *)
  join_score (ex_P 0) ex_C ex_B = Ok None /\
  join_score (ex_P 0) ex_C ex_D = Ok None /\                       (* overlap 600 of 1000 *)
  join_score (ex_P 0) ex_A ex_D = Ok (Some (-16000 # 1)) /\        (* gap of 400 bp on both axes: 800^2/800 = 800, times 20 *)
  chain_total (ex_P 0) [ex_A; ex_D] = Some (23000 # 1) /\
  join_score (ex_P 1) ex_A ex_B = Ok (Some (-30000 # 1)).
Proof. vm_compute. repeat split; reflexivity. Qed.
Example C14_hypothesis_satisfiable : forall s, In s [ex_B; ex_E; ex_D; ex_C; ex_A] -> seg_defined s.
Proof. intros s H. cbn in H. repeat (destruct H as [<-|H]; [cbv; intros; discriminate|]). destruct H. Qed.

Print Assumptions C14_sublist.
Print Assumptions C14_undefined_raises.
Print Assumptions C14_preorder.
Print Assumptions C14_key.
Print Assumptions C14_optimal.
Print Assumptions C14_finite.
Print Assumptions C14_half_overlap.
Print Assumptions C14_join_nonpositive.
Print Assumptions C14_join_contiguous_zero.
Print Assumptions C14_join_contiguous_admissible.
Print Assumptions C14_join_value.

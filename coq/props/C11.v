(* C11 — Mirroring a query mirrors its first-pass alignment.                                   STATUS: PARTIAL (see below)

   "Replacing a query molecule by its mirror image (same labels read from the other end) yields the same first-pass alignment
    with the opposite Orientation, the same reference labels, query label k renumbered to N+1-k, and the same Confidence,
    whenever all label coordinates are multiples of both correlation resolutions so that binning is itself mirror-symmetric."

   What is proved here (the deterministic half, for EVERY reference, query, list of seed peaks, iteration counter and parameter
   set of the pipeline model Pairing.v / Core.v / Multi.v / Cigar.v):
     under the hypothesis that no dedupe group contains two equidistant candidates (`no_ties`, a predicate on the candidate
     list of each seed window; it holds on every lattice when maxPairDistance < step/2: C11_lattice_no_ties),
         Aligner.align(ref, mirror q, peaks, '-')  =  Aligner.align(ref, q, peaks, '+')  with query label k renumbered to msum q - k
     segment by segment, position by position, in the same order, with the same scores, peaks, and the same error behaviour
     (C11_align), hence the same RefStartPos/RefEndPos, Confidence and HitEnum, and QryStartPos/QryEndPos exchanged (C11_row,
     C11_cigar).  The same with the strands exchanged (C11_align_exchanged).  msum q = N + 1 + 2*shift (= N + 1 for a whole molecule).
   What is NOT proved (outside the model): the seeding half — that q on '+' and mirror(q) on '-' receive the SAME seed peaks
     (bit-vector reversal in getSequence, FFT cross-correlation, scipy find_peaks, top-N peak selection, best-candidate choice).
     The end-to-end stream of harness/props/C11.py exercises it on lattice data sets through the real program.
   Therefore the property as a whole is labelled `partial`; every theorem below is nevertheless proved at full strength for the
   stage it speaks about (no `_partial` suffix is needed on individual statements: none of them is weakened).

   Vocabulary (proofs/MirrorProofs1-3.v):
     mirror_map q         same id/length/shift, positions (mlen q - K) - p_N, ..., (mlen q - K) - p_1   (K = 10 model units = 1 bp;
                          for a trimmed molecule mlen q - K = p_N, the mirror image is trimmed again)
     flip M k = M - k     the renumbering;  ren_label/ren_apos/ren_spos/ren_seg f   apply f to the QUERY site ids only, keep everything else
     renum M              flip M made to fix 0 and M (0 is the site id of the model's null pair; neither is a label number)
     notie key l          any two candidates of l with the same key and the same |shift| are equal
     no_ties d ref q start stop rev = notie (query site) /\ notie (reference site) on the candidate list of that window
     peaks_no_ties P ref q peaks rev = no_ties for the window [p, p + mlen q] of every seed peak p
     row_site_pairs segs  the (reference site, query site) list cigarString reads;  flipq M (r, k) = (r, M - k)
   This file contains only statements; every proof is `exact <lemma>`. *)
From Coq Require Import ZArith QArith String List Bool Sorting.Sorted.
Import ListNotations.
Require Import Py Pairing PairingProofs1 PairingProofs2 Core Multi Cigar MirrorProofs1 MirrorProofs2 MirrorProofs3.
Open Scope Z_scope.

(* ---- the mirror image and the label lists (OpticalMap.getPositionsWithSiteIds) ---- *)
Theorem C11_positions q :
  positions_with_ids (mirror_map q) true = map (ren_label (flip (msum q))) (positions_with_ids q false).
Proof. exact (positions_mirror_rev q). Qed.
Theorem C11_positions_exchanged q :
  positions_with_ids (mirror_map q) false = map (ren_label (flip (msum q))) (positions_with_ids q true).
Proof. exact (positions_mirror_fwd q). Qed.
Theorem C11_mirror_involutive q : mirror_map (mirror_map q) = q /\ msum (mirror_map q) = msum q /\ mlen (mirror_map q) = mlen q.
Proof. exact (conj (mirror_mirror q) (conj (mirror_msum q) eq_refl)). Qed.
(* label numbers of q are 1+shift .. N+shift; the renumbering maps this range onto itself; renum and flip agree on it *)
Theorem C11_renumber q k : 0 <= mshift q -> in_range q k ->
  in_range q (flip (msum q) k) /\ renum (msum q) k = flip (msum q) k /\ flip (msum q) (flip (msum q) k) = k /\
  (mshift q = 0 -> flip (msum q) k = Z.of_nat (List.length (mpositions q)) + 1 - k).
Proof. exact (renumber_spec q k). Qed.

(* ---- pairing ---- *)
(* AlignedPair.deduplicate commutes with ANY injective renumbering of the query site ids when no dedupe group has an equidistant tie.
   (The first pass sorts and groups by query site id: the renumbering reverses that order, so group order and first-minimum
   tie-breaks change; this is exactly where the hypothesis is used.) *)
Theorem C11_dedupe f l : (forall a b, f a = f b -> a = b) -> notie qsite l -> notie rsite l ->
  deduplicate (map (ren_cand f) l) = map (ren_cand f) (deduplicate l).
Proof. exact (fun Hi => deduplicate_ren f Hi l). Qed.
Theorem C11_pairing d it reference q start stop : 0 <= mshift q -> no_ties d reference q start stop false ->
  align_engine d it reference (mirror_map q) start stop true
  = map (ren_apos (flip (msum q))) (align_engine d it reference q start stop false).
Proof. exact (engine_mirror d it reference q start stop). Qed.
Theorem C11_pairing_exchanged d it reference q start stop : 0 <= mshift q -> no_ties d reference q start stop true ->
  align_engine d it reference (mirror_map q) start stop false
  = map (ren_apos (flip (msum q))) (align_engine d it reference q start stop true).
Proof. exact (engine_mirror_fwd d it reference q start stop). Qed.
(* on a lattice with maxPairDistance below half the step every label has at most one partner within reach, so there is no tie.
   (for the '-' strand the mirrored frame must be on the lattice too: true of every trimmed lattice molecule) *)
Theorem C11_lattice_no_ties step d reference q start stop reverse :
  0 <= d -> 2 * d < step ->
  StronglySorted Z.lt (mpositions reference) -> StronglySorted Z.lt (mpositions q) ->
  on_lattice step (mpositions reference) -> on_lattice step (mpositions q) -> (reverse = true -> (step | mlen q - K)) ->
  no_ties d reference q start stop reverse /\
  forall x y, In x (engine_cands d reference q start stop reverse) -> In y (engine_cands d reference q start stop reverse) ->
    (cq x = cq y -> x = y) /\ (cr x = cr y -> x = y).
Proof. exact (fun Hd Hs Hr Hq Lr Lq Ll => conj (lattice_no_ties step d reference q start stop reverse Hd Hs Hr Hq Lr Lq Ll)
                                               (lattice_one_partner step d reference q start stop reverse Hd Hs Hr Hq Lr Lq Ll)). Qed.

(* ---- every later stage commutes with every injective renumbering f of the query site ids that fixes 0 ---- *)
Theorem C11_scores f P a : score_pos P (ren_apos f a) = ren_spos f (score_pos P a).
Proof. exact (score_pos_ren f P a). Qed.
Theorem C11_segments f P ps peak : get_segments P (map (ren_spos f) ps) peak = map (ren_seg f) (get_segments P ps peak).
Proof. exact (get_segments_ren f P ps peak). Qed.
Theorem C11_chain f P segs : f 0 = 0 ->
  chain P (map (ren_seg f) segs) = map_res (map (ren_seg f)) (chain P segs).
Proof. exact (fun H0 => chain_ren f H0 P segs). Qed.
Theorem C11_conflict_step f a b : (forall a b, f a = f b -> a = b) -> f 0 = 0 ->
  resolve_pair (ren_seg f a) (ren_seg f b) = map_res (fun ab => (ren_seg f (fst ab), ren_seg f (snd ab))) (resolve_pair a b).
Proof. exact (fun Hi H0 => resolve_pair_ren f Hi H0 a b). Qed.
Theorem C11_conflict f P segs : (forall a b, f a = f b -> a = b) -> f 0 = 0 ->
  resolve_conflicts P (map (ren_seg f) segs) = map_res (map (ren_seg f)) (resolve_conflicts P segs).
Proof. exact (fun Hi H0 => resolve_conflicts_ren f Hi H0 P segs). Qed.
(* conflict resolution never invents a position: a predicate true of every input position is true of every output position *)
Theorem C11_positions_preserved (Qp : spos -> Prop) P segs out :
  resolve_conflicts P segs = Ok out -> segsQ Qp segs -> segsQ Qp out.
Proof. exact (resolve_conflicts_Q Qp P segs out). Qed.

(* ---- Aligner.align ---- *)
Theorem C11_align P it reference q peaks : 0 <= mshift q -> peaks_no_ties P reference q peaks false ->
  aligner_align P it reference (mirror_map q) peaks true
  = map_res (map (ren_seg (flip (msum q)))) (aligner_align P it reference q peaks false).
Proof. exact (fun Hs => align_mirror_gen P reference q Hs it peaks false). Qed.
Theorem C11_align_exchanged P it reference q peaks : 0 <= mshift q -> peaks_no_ties P reference q peaks true ->
  aligner_align P it reference (mirror_map q) peaks false
  = map_res (map (ren_seg (flip (msum q)))) (aligner_align P it reference q peaks true).
Proof. exact (fun Hs => align_mirror_gen P reference q Hs it peaks true). Qed.
(* the quantifier of the property: every lattice input, every list of seed peaks (on or off the lattice), noisy or not *)
Theorem C11_align_lattice step P it reference q peaks :
  0 <= mshift q -> 0 <= DMAX P -> 2 * DMAX P < step ->
  StronglySorted Z.lt (mpositions reference) -> StronglySorted Z.lt (mpositions q) ->
  on_lattice step (mpositions reference) -> on_lattice step (mpositions q) ->
  aligner_align P it reference (mirror_map q) peaks true
  = map_res (map (ren_seg (flip (msum q)))) (aligner_align P it reference q peaks false).
Proof. exact (align_mirror_lattice step P it reference q peaks). Qed.
(* every query label that occurs in the result is a label of q (so k -> msum q - k is the renumbering 1..N -> N..1) *)
Theorem C11_labels_exist P it reference q peaks b segs :
  aligner_align P it reference q peaks b = Ok segs -> segsQ (qsite_ok q) segs.
Proof. exact (align_sites_ok P reference q it peaks b segs). Qed.

(* ---- the record: AlignmentResultRow.create and cigarString ----
   row_create takes qs/qe from the first/last pair in reference order: on '+' qs = first, qe = last; on '-' qs = last, qe = first;
   both are coordinates in the frame the pairing used (for mirror(q) on '-' that is the frame of q itself).  The XMAP writer prints
   them unchanged, so: QryStartPos(mirror record) = QryEndPos(record), QryEndPos(mirror record) = QryStartPos(record);
   RefStartPos, RefEndPos, Confidence, HitEnum equal; Orientation opposite; Alignment pairs (r, k) -> (r, msum q - k). *)
Theorem C11_row P it reference q peaks segs qi qi' ri ql rl :
  0 <= mshift q -> peaks_no_ties P reference q peaks false ->
  aligner_align P it reference q peaks false = Ok segs ->
  let segs' := map (ren_seg (flip (msum q))) segs in
  aligner_align P it reference (mirror_map q) peaks true = Ok segs' /\
  let w := row_create segs qi ri ql rl false in
  let w' := row_create segs' qi' ri ql rl true in
  rs w' = rs w /\ re w' = re w /\ conf w' = conf w /\ qs w' = qe w /\ qe w' = qs w /\ rrev w = false /\ rrev w' = true /\
  cigar_string (row_site_pairs segs') = cigar_string (row_site_pairs segs) /\
  row_site_pairs segs' = map (flipq (msum q)) (row_site_pairs segs).
Proof. exact (mirror_row P it reference q peaks segs qi qi' ri ql rl). Qed.
Theorem C11_error P it reference q peaks : 0 <= mshift q -> peaks_no_ties P reference q peaks false ->
  aligner_align P it reference q peaks false = Err -> aligner_align P it reference (mirror_map q) peaks true = Err.
Proof. exact (mirror_align_error P it reference q peaks). Qed.
(* the HitEnum string of ANY pair list is unchanged by k -> M - k: it reads reference numbers and |query increment| only *)
Theorem C11_cigar M ps : cigar_string (map (flipq M) ps) = cigar_string ps.
Proof. exact (cigar_string_flip M ps). Qed.

(* ---- non-vacuity: a noisy lattice case (step 1400 bp = 14000 units, d = 699 bp), two seed peaks (one per block), an 8-step insertion in the query between the blocks, two surviving segments ---- *)
Definition exP := mkP 20000 2 (-5000) 20000 24000 6990 (1#10) 0.
Definition exRef := mkMap 1 224010 [0; 14000; 42000; 56000; 98000; 112000; 140000; 154000; 196000; 224000] 0.
Definition exQ := mkMap 7 210010 [0; 28000; 42000; 154000; 168000; 210000] 0.
Example C11_nonvacuous :
  StronglySorted Z.lt (mpositions exRef) /\ StronglySorted Z.lt (mpositions exQ) /\
  on_lattice 14000 (mpositions exRef) /\ on_lattice 14000 (mpositions exQ) /\ 2 * DMAX exP < 14000 /\
  mpositions (mirror_map exQ) = [0; 42000; 56000; 168000; 182000; 210000] /\
  aligner_align exP 1 exRef (mirror_map exQ) [14500; -13700] true
    = map_res (map (ren_seg (flip (msum exQ)))) (aligner_align exP 1 exRef exQ [14500; -13700] false) /\
  (exists segs, aligner_align exP 1 exRef exQ [14500; -13700] false = Ok segs /\
     row_site_pairs segs = [(2, 1); (3, 2); (4, 3); (7, 4); (8, 5); (9, 6)] /\
     row_site_pairs (map (ren_seg (flip (msum exQ))) segs) = [(2, 6); (3, 5); (4, 4); (7, 3); (8, 2); (9, 1)] /\
     cigar_string (row_site_pairs segs) = Ok "3M2D3M"%string).
Proof.
  split; [repeat constructor|]. split; [repeat constructor|].
  split; [unfold on_lattice; repeat (apply Forall_cons; [match goal with |- (_ | ?p) => exists (p / 14000); reflexivity end|]); apply Forall_nil|].
  split; [unfold on_lattice; repeat (apply Forall_cons; [match goal with |- (_ | ?p) => exists (p / 14000); reflexivity end|]); apply Forall_nil|].
  split; [reflexivity|]. split; [vm_compute; reflexivity|]. split; [vm_compute; reflexivity|].
  eexists. split; [vm_compute; reflexivity|]. split; [vm_compute; reflexivity|]. split; vm_compute; reflexivity.
Qed.

(* the hypothesis is needed: one reference label equidistant (1400 bp) from two query labels, maxPairDistance = 1400 bp.
   On '+' the first dedupe pass lists the candidates by ascending query label 1, 2 and the second keeps the first minimum (label 1);
   for the mirror image on '-' the query labels are listed 1', 2' = 2, 1 and the other label is kept. *)
Example C11_ties_break_symmetry :
  let ref := mkMap 1 28010 [14000] 0 in let q := mkMap 7 28010 [0; 28000] 0 in
  ~ no_ties 14000 ref q 0 28010 false /\
  align_engine 14000 1 ref (mirror_map q) 0 28010 true <> map (ren_apos (flip (msum q))) (align_engine 14000 1 ref q 0 28010 false).
Proof.
  split.
  - intros (_ & H). specialize (H (mkCand (mkLabel 1 14000) (mkLabel 1 0) (-14000)) (mkCand (mkLabel 1 14000) (mkLabel 2 28000) 14000)).
    assert (E : mkCand (mkLabel 1 14000) (mkLabel 1 0) (-14000) = mkCand (mkLabel 1 14000) (mkLabel 2 28000) 14000); [|discriminate E].
    apply H; vm_compute; auto.
  - vm_compute. discriminate.
Qed.

Print Assumptions C11_positions.
Print Assumptions C11_positions_exchanged.
Print Assumptions C11_mirror_involutive.
Print Assumptions C11_renumber.
Print Assumptions C11_dedupe.
Print Assumptions C11_pairing.
Print Assumptions C11_pairing_exchanged.
Print Assumptions C11_lattice_no_ties.
Print Assumptions C11_scores.
Print Assumptions C11_segments.
Print Assumptions C11_chain.
Print Assumptions C11_conflict_step.
Print Assumptions C11_conflict.
Print Assumptions C11_positions_preserved.
Print Assumptions C11_align.
Print Assumptions C11_align_exchanged.
Print Assumptions C11_align_lattice.
Print Assumptions C11_labels_exist.
Print Assumptions C11_row.
Print Assumptions C11_error.
Print Assumptions C11_cigar.

(* ==================================================================================================================================
   APPENDED: THE SEEDING HALF IN EXACT ARITHMETIC (model/Correlate.v; proofs/CorrelateProofs1-4.v)

   The header above lists "bit-vector reversal in getSequence, FFT cross-correlation ..." as not proved.  The exact-arithmetic part of
   it now is proved: on the lattice of the property's quantifier, BINNING IS MIRROR-SYMMETRIC.
     on_grid res D ps   :=  ps ascending, every label a multiple of res, the first label at 0 and the last at D, all within [0, D]
                            (a trimmed molecule: D = mlen q - K is its last coordinate, hence a multiple of res as well)
     C11_sequence_mirror   getSequence(mirror q, '-') = getSequence(q, '+')  as vectors (vectorise, blur, reversal), any blur radius;
     C11_seeding_mirror    hence, against ANY reference vector, the integer cross-correlation, scipy's `correlate` (model
                           correlate_valid, both branches) and the normalised correlation are EQUAL lists; the whole of
                           getInitialAlignment up to find_peaks (initial_correlation) and of refine up to find_peaks
                           (refine_correlation: same window start/end, same correlation) coincide, with the same exceptions.
   So everything find_peaks receives is identical in exact arithmetic for q on '+' and mirror(q) on '-'.  What remains unproved is
   only that the FLOATING-POINT FFT output is identical as well (the two calls hand scipy the same arrays, so in fact it is: scipy is
   deterministic; this is measured by the end-to-end stream, not proved) and find_peaks itself.
   Off the lattice the two vectors differ: C11_off_lattice_differs.
   Units: any (positions and resolution in the same unit; in Pairing.v's tenths of a bp the primary resolution is 14000). *)
Require Import Vec Peaks Correlate CorrelateProofs1 CorrelateProofs3 CorrelateProofs4.

Theorem C11_sequence_mirror q res r : 1 <= res -> on_grid res (mlen q - K) (mpositions q) ->
  get_sequence (mpositions (mirror_map q)) res r true 0 None = get_sequence (mpositions q) res r false 0 None.
Proof. exact (mirror_sequence q res r). Qed.

Theorem C11_seeding_mirror q res r : 1 <= res -> 0 <= r -> on_grid res (mlen q - K) (mpositions q) ->
  (forall refv, xcorr refv (get_sequence (mpositions (mirror_map q)) res (Z.to_nat r) true 0 None) = xcorr refv (get_sequence (mpositions q) res (Z.to_nat r) false 0 None) /\
                correlate_valid refv (get_sequence (mpositions (mirror_map q)) res (Z.to_nat r) true 0 None) = correlate_valid refv (get_sequence (mpositions q) res (Z.to_nat r) false 0 None) /\
                normalised refv (get_sequence (mpositions (mirror_map q)) res (Z.to_nat r) true 0 None) = normalised refv (get_sequence (mpositions q) res (Z.to_nat r) false 0 None)) /\
  (forall rlen rps, initial_correlation (mlen (mirror_map q)) (mpositions (mirror_map q)) rlen rps res r true = initial_correlation (mlen q) (mpositions q) rlen rps res r false) /\
  (forall rps peak res2 r2 margin, 1 <= res2 -> 0 <= r2 -> on_grid res2 (mlen q - K) (mpositions q) ->
     refine_correlation (mlen (mirror_map q)) (mpositions (mirror_map q)) rps true peak res2 r2 margin = refine_correlation (mlen q) (mpositions q) rps false peak res2 r2 margin).
Proof. exact (mirror_seeding q res r). Qed.

(* the lattice hypothesis in the vocabulary of C11_align_lattice: a trimmed molecule with strictly ascending lattice labels is on the grid *)
Theorem C11_on_grid step q : StronglySorted Z.lt (mpositions q) -> on_lattice step (mpositions q) ->
  hd 0 (mpositions q) = 0 -> last (mpositions q) 0 = mlen q - K -> mpositions q <> [] -> on_grid step (mlen q - K) (mpositions q).
Proof. exact (lattice_on_grid step q). Qed.

(* ---- non-vacuity: the molecule of C11_nonvacuous (lattice 1400 bp = 14000 units) at the primary resolution 1400 bp / blur 1 ---- *)
Example C11_sequence_nonvacuous :
  on_grid 14000 (mlen exQ - K) (mpositions exQ) /\
  get_sequence (mpositions exQ) 14000 1 false 0 None = [1;1;1;1;1;0;0;0;0;0;1;1;1;1;1;1] /\
  get_sequence (mpositions (mirror_map exQ)) 14000 1 true 0 None = [1;1;1;1;1;0;0;0;0;0;1;1;1;1;1;1] /\
  get_sequence (mpositions (mirror_map exQ)) 14000 1 false 0 None <> get_sequence (mpositions exQ) 14000 1 false 0 None /\
  match initial_correlation (mlen exQ) (mpositions exQ) (mlen exRef) (mpositions exRef) 14000 1 false with
  | Ok (Some (c, n2)) => c = [11; 11] /\ n2 = [27; 27] /\ initial_correlation (mlen exQ) (mpositions (mirror_map exQ)) (mlen exRef) (mpositions exRef) 14000 1 true = Ok (Some (c, n2))
  | _ => False end.
Proof.
  split; [apply (lattice_on_grid 14000 exQ); [repeat constructor | | reflexivity | reflexivity | discriminate];
          unfold on_lattice; repeat (apply Forall_cons; [match goal with |- (_ | ?p) => exists (p / 14000); reflexivity end|]); apply Forall_nil|].
  vm_compute. repeat split; try reflexivity. discriminate. Qed.
(* off the lattice (labels 0, 15, 60 bp; resolution 10 bp, blur 1) the two vectors, and their correlations against a reference, differ *)
Example C11_off_lattice_differs :
  let q := mkMap 7 610 [0; 150; 600] 0 in
  mpositions (mirror_map q) = [0; 450; 600] /\
  get_sequence (mpositions q) 100 1 false 0 None = [1;1;1;0;0;1;1] /\
  get_sequence (mpositions (mirror_map q)) 100 1 true 0 None = [1;1;1;1;0;1;1] /\
  xcorr [1;1;1;1;1;1;1;1] (get_sequence (mpositions q) 100 1 false 0 None) <> xcorr [1;1;1;1;1;1;1;1] (get_sequence (mpositions (mirror_map q)) 100 1 true 0 None).
Proof. vm_compute. repeat split; try reflexivity. discriminate. Qed.

Print Assumptions C11_sequence_mirror.
Print Assumptions C11_seeding_mirror.
Print Assumptions C11_on_grid.

(* ==================================================================================================================================
   APPENDED: THE FIRST-PASS STATEMENT AS A WHOLE IS REFUTED ON EXACT TIES (finding F14; proofs/MirrorTieProofs.v)

   Full statement of C11 on the run model (Coordinator.align_query = _WorkflowCoordinator.__align, with the executable seeding stage
   Seeding.seeds_model = getInitialAlignment on both strands of every reference, find_peaks, selectPeaks, refine):
       for all P, sp, refs, q on a lattice commensurate with both resolutions, 2 * DMAX P < step:
         align_query P (seeds_model sp) refs q it = Ok (Some w, _)  ->
         exists w', align_query P (seeds_model sp) refs (mirror_map q) it = Ok (Some w', _) /\
           rrev w' = negb (rrev w) /\ rs w' = rs w /\ re w' = re w /\ conf w' = conf w /\
           row_site_pairs (rsegs w') = map (flipq (msum q)) (row_site_pairs (rsegs w)).
   This is FALSE.  By C11_seeding_mirror the correlations of (mirror q, strand s) are those of (q, not s), so the run of mirror(q) is the
   run of q with the two strands of every reference enumerated in the opposite order (__getPrimaryCorrelations yields forward before
   reverse).  selectPeaks is a STABLE sort by score and __getBestAlignment keeps the FIRST candidate of maximal confidence: whenever two
   seeds on opposite strands of one reference have exactly equal scores (and their rows equal confidence), q and mirror(q) both report
   the one on the FORWARD strand - two different places of the reference, both with Orientation '+'.
   Exact score ties between the strands need equal heights AND equal r.m.s. levels of the two correlations: a reference whose bit vector
   is a palindrome (labels symmetric, first label in bin 0) - then the reverse-strand correlation is the forward one read backwards.
   (Equally good candidates on two different references, or on one strand, are enumerated in the same order for q and mirror(q): no
   asymmetry; a palindromic molecule q = mirror(q) can satisfy the statement under no deterministic program.)

     C11_first_pass_mirror_refuted   a concrete lattice input (reference = palindrome of 10 labels, query = its labels 2-5, command-line
                                     defaults with -d 650): q is reported on '+' at labels 2-5, mirror(q) on '+' at labels 6-9, both with
                                     Confidence 3808; the real program writes exactly these two records (known_findings.json F14).
     C11_tie_mechanism               on that input the two best seeds of q are on opposite strands and score_leb holds both ways (exact tie);
                                     the seed lists of q and mirror(q) are the same two places with the forward one first in both.
   The deterministic half above (C11_align, C11_row: every candidate row of mirror(q) is the mirror image of a candidate row of q) and
   C11_seeding_mirror are unaffected: what fails is only the ORDER in which equal candidates are enumerated. *)
Require Import Coordinator Seeding MirrorTieProofs.

Theorem C11_first_pass_mirror_refuted :
  exists P refs q w w' it it',
    (0 <= DMAX P /\ 2 * DMAX P < 14000 /\ mshift q = 0 /\
     Forall (fun r => StronglySorted Z.lt (mpositions r) /\ on_lattice 14000 (mpositions r)) refs /\
     StronglySorted Z.lt (mpositions q) /\ on_lattice 14000 (mpositions q) /\ on_grid 14000 (mlen q - K) (mpositions q)) /\
    align_query P (seeds_model default_sparams) refs q 1 = Ok (Some w, it) /\
    align_query P (seeds_model default_sparams) refs (mirror_map q) 1 = Ok (Some w', it') /\
    row_view w  = (1, false, 76160, (112000, 378000), (0, 266000), [(2, 1); (3, 2); (4, 3); (5, 4)]) /\
    row_view w' = (1, false, 76160, (462000, 728000), (0, 266000), [(6, 1); (7, 2); (8, 3); (9, 4)]) /\
    ~ (rrev w' = negb (rrev w) /\ Multi.rs w' = Multi.rs w /\ Multi.re w' = Multi.re w /\ conf w' = conf w /\
       row_site_pairs (rsegs w') = map (flipq (msum q)) (row_site_pairs (rsegs w))).
Proof. exact first_pass_mirror_refuted. Qed.

Theorem C11_tie_mechanism :
  match all_primary default_sparams [tie_ref] tie_q with
  | Ok l => match select_primary default_sparams l with
            | a :: b :: _ => (pp_rev a, pp_pos a, pp_rev b, pp_pos b) = (false, 11899, true, 46899) /\ Qeq (pp_height a) (pp_height b) /\
                             score_leb a b = true /\ score_leb b a = true /\ score_leb_spec a b = true /\ score_leb_spec b a = true
            | _ => False end
  | _ => False end /\
  map (fun s => (mid (sd_ref s), sd_rev s, sd_peaks s)) (seeds_model default_sparams [tie_ref] tie_q)
    = [(1, false, [112480]); (1, true, [462480]); (1, false, [])] /\
  map (fun s => (mid (sd_ref s), sd_rev s, sd_peaks s)) (seeds_model default_sparams [tie_ref] (mirror_map tie_q))
    = [(1, false, [462480]); (1, true, [112480]); (1, false, [])].
Proof. exact tie_seeds_tied. Qed.

(* the witness is inside the quantifier of the property (and of C11_align_lattice / C11_seeding_mirror) *)
Example C11_tie_witness_on_lattice :
  0 <= DMAX tie_P /\ 2 * DMAX tie_P < 14000 /\ mshift tie_q = 0 /\
  StronglySorted Z.lt (mpositions tie_ref) /\ on_lattice 14000 (mpositions tie_ref) /\
  StronglySorted Z.lt (mpositions tie_q) /\ on_lattice 14000 (mpositions tie_q) /\
  on_grid 14000 (mlen tie_q - K) (mpositions tie_q) /\ on_grid 1000 (mlen tie_q - K) (mpositions tie_q) /\
  mpositions (mirror_map tie_q) = [0; 84000; 196000; 266000].
Proof. exact tie_hypotheses. Qed.

Print Assumptions C11_first_pass_mirror_refuted.
Print Assumptions C11_tie_mechanism.

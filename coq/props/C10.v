(* C10 — A query's record is independent of the other molecules and of file order.
   Model: model/Coordinator.v (execute, all_fragments/find_query, multi_execute, program_run over an ABSTRACT seeding function
   `seeds : list omap -> omap -> list cseed`), model/Multi.v (filter_subsequent, results_resolve), model/Cmap.v (cmap_read, trim).
   Every theorem is proved for ALL seeding functions, all parameters, all four output modes, all maxDifference.
   That the seeding of a query only sees the reference list and that query is the TYPE of `seeds` (the code hands
   (referenceMaps, q) to each p_imap task).  This file contains only statements; every proof is `exact <lemma>`.

   Vocabulary (proofs/SrcErase.v, LocalProofs1-6.v):
     er_row / er_out     erase the `source` field of every aligned pair (the per-process iteration counter of AlignerEngine;
                         it depends on what the process aligned before, it is read by no comparison and is not printed)
     printed w           what an XMAP record shows of row w except XmapEntryID (the running number in the file):
                         (QryContigID, RefContigID, orientation, (QryStart, QryEnd, RefStart, RefEnd), confidence,
                          AlignedRest, site pairs);  printed (er_row w) = printed w  (C10_printed_erasure)
     qfam c l            the rows of l with query id c, in list order;  fam_out c o: the same in the three output files
     out_recs o          (map printed main, map printed _1, map printed _2);   recs_of c o = out_recs (fam_out c o)
     ex P seeds refs ql it   = execute ... with the counter dropped and `source` erased;  ex1 q = ex [q] 1
     cmapM f l           do-notation concatenation: Err if some f x is Err, else Ok (f x1 ++ f x2 ++ ...)
     erun                = rmap er_out (program_run ...)
     run_files P seeds m md rrows qrows rids qids
                         = readReferences(rrows, rids); readQueries(qrows, qids); trim; Program.run   (rows = DataFrame rows
                           (CMapId, LabelChannel, Position) in file order; ids = the -rId / -qId lists, [] = no selection)
     keep_ids p rows     the file with the rows of the molecules whose id satisfies p (physical restriction);  listed ids i = i in ids
     markers_of rows i   end-marker rows of molecule i (C17: with two end markers the first in file order wins, hence the hypothesis) *)
From Coq Require Import ZArith QArith List Bool Sorting.Permutation.
Import ListNotations.
Require Import Py Pairing Core Multi Coordinator SrcErase LocalProofs1 LocalProofs2 LocalProofs3 LocalProofs4 LocalProofs5 LocalProofs6.
Require CmapProofs.
Open Scope Z_scope.

(* ---- the erasure loses nothing that is printed, and Aligner.align does not depend on the counter otherwise ---- *)
Theorem C10_printed_erasure w : printed (er_row w) = printed w.
Proof. exact (printed_er w). Qed.
Theorem C10_align_counter P it it' r q peaks rv :
  rmap (map er_seg) (aligner_align P it r q peaks rv) = rmap (map er_seg) (aligner_align P it' r q peaks rv).
Proof. exact (aligner_align_it P it it' r q peaks rv). Qed.

(* ---- C10_execute_local ---- *)
(* the rows of execute are the concatenation, in query order, of the single-query results; no hypothesis *)
Theorem C10_execute_concat P seeds refs ql it : ex P seeds refs ql it = cmapM (ex1 P seeds refs) ql.
Proof. exact (ex_spec P seeds refs ql it). Qed.
(* with distinct ids: the rows of query q in execute refs ql are the rows of execute refs [q] (any counter values) *)
Theorem C10_execute_local P seeds refs ql q it it' rows it1 : NoDup (map mid ql) -> In q ql ->
  execute P seeds refs ql it = Ok (rows, it1) ->
  exists rq it2, execute P seeds refs [q] it' = Ok (rq, it2) /\ map printed rq = map printed (qfam (mid q) rows).
Proof. exact (execute_local_printed P seeds refs ql q it it' rows it1). Qed.

(* the queries in another order: the same rows in another order, the same failure (no hypothesis on the ids) *)
Theorem C10_execute_order P seeds refs ql ql' it it' : Permutation ql ql' ->
  match ex P seeds refs ql it, ex P seeds refs ql' it' with
  | Ok rows, Ok rows' => Permutation rows rows'
  | Err, Err => True
  | _, _ => False
  end.
Proof. exact (ex_perm P seeds refs ql ql' it it'). Qed.

(* ---- C10_query_local: every mode, every output file ---- *)
Theorem C10_query_local P seeds refs m md ql q o : NoDup (map mid ql) -> In q ql ->
  program_run P seeds m md refs ql = Ok o ->
  exists oq, program_run P seeds m md refs [q] = Ok oq /\ out_recs oq = recs_of (mid q) o.
Proof. exact (run_local_printed P seeds refs m md ql q o). Qed.
(* the same including segment structure and scores (everything but `source`) *)
Theorem C10_query_local_rows P seeds refs m md ql q o : NoDup (map mid ql) -> In q ql ->
  erun P seeds refs m md ql = Ok o -> erun P seeds refs m md [q] = Ok (fam_out (mid q) o).
Proof. exact (erun_local P seeds refs m md ql q o). Qed.
(* a run raises only if the run on one of its queries alone raises *)
Theorem C10_query_local_errors P seeds refs m md ql : NoDup (map mid ql) ->
  program_run P seeds m md refs ql = Err -> exists q, In q ql /\ program_run P seeds m md refs [q] = Err.
Proof. exact (run_err_local P seeds refs m md ql). Qed.
(* queries removed / added: the queries present in both runs keep their records in every file *)
Theorem C10_query_subset P seeds refs m md ql ql' o : NoDup (map mid ql) -> NoDup (map mid ql') -> incl ql' ql ->
  program_run P seeds m md refs ql = Ok o ->
  exists o', program_run P seeds m md refs ql' = Ok o' /\ forall q, In q ql' -> recs_of (mid q) o' = recs_of (mid q) o.
Proof. exact (run_sub_printed P seeds refs m md ql ql' o). Qed.

(* ---- C10_query_order: the whole output (all three files, record ORDER included, failure included) is the same ---- *)
Theorem C10_query_order P seeds refs m md ql ql' : NoDup (map mid ql) -> Permutation ql ql' ->
  rmap out_recs (program_run P seeds m md refs ql) = rmap out_recs (program_run P seeds m md refs ql').
Proof. exact (run_perm_printed P seeds refs m md ql ql'). Qed.
Theorem C10_query_order_rows P seeds refs m md ql ql' : NoDup (map mid ql) -> Permutation ql ql' ->
  erun P seeds refs m md ql = erun P seeds refs m md ql'.
Proof. exact (erun_perm P seeds refs m md ql ql'). Qed.
(* what makes it so: the post-processing only sees, per query id, that id's rows in their order *)
Theorem C10_post_family m md r1 r2 r1' r2' : (forall c, qfam c r1 = qfam c r1') -> (forall c, qfam c r2 = qfam c r2') ->
  post m md r1 r2 = post m md r1' r2'.
Proof. exact (post_same_fam m md r1 r2 r1' r2'). Qed.
Theorem C10_post_local m md c r1 r2 o : post m md r1 r2 = Ok o -> post m md (qfam c r1) (qfam c r2) = Ok (fam_out c o).
Proof. exact (post_local m md c r1 r2 o). Qed.

(* ---- C10_cmap_perm / C10_reference_order: a run does not see the order of rows or molecules in either file ---- *)
Theorem C10_cmap_perm P seeds m md rrows rrows' qrows qrows' rids qids :
  Permutation rrows rrows' -> Permutation qrows qrows' ->
  (forall i, (length (CmapProofs.markers_of rrows i) <= 1)%nat) -> (forall i, (length (CmapProofs.markers_of qrows i) <= 1)%nat) ->
  run_files P seeds m md rrows' qrows' rids qids = run_files P seeds m md rrows qrows rids qids.
Proof. exact (run_files_perm P seeds m md rrows rrows' qrows qrows' rids qids). Qed.
(* references listed in another order in the reference file: the reader hands the SAME list to the seeding stage *)
Theorem C10_reference_order P seeds m md rrows rrows' qrows rids qids :
  Permutation rrows rrows' -> (forall i, (length (CmapProofs.markers_of rrows i) <= 1)%nat) ->
  (forall i, (length (CmapProofs.markers_of qrows i) <= 1)%nat) ->
  run_files P seeds m md rrows' qrows rids qids = run_files P seeds m md rrows qrows rids qids.
Proof. exact (run_files_ref_perm P seeds m md rrows rrows' qrows rids qids). Qed.
(* below the reader the reference list only reaches `seeds`: a seeding stage that does not look at the order gives the same run *)
Theorem C10_reference_order_seeds P (seeds : seeding) m md refs refs' ql :
  (forall q, seeds refs q = seeds refs' q) -> program_run P seeds m md refs ql = program_run P seeds m md refs' ql.
Proof. exact (program_run_seeds_ext P seeds seeds m md refs refs' ql). Qed.

(* ---- C10_filter: -rId / -qId = files physically restricted to the listed molecules (identical outputs) ---- *)
Theorem C10_filter_rid P seeds m md rrows qrows rids qids : rids <> [] ->
  run_files P seeds m md rrows qrows rids qids = run_files P seeds m md (keep_ids (listed rids) rrows) qrows [] qids.
Proof. exact (run_files_rid P seeds m md rrows qrows rids qids). Qed.
Theorem C10_filter_qid P seeds m md rrows qrows rids qids : qids <> [] ->
  run_files P seeds m md rrows qrows rids qids = run_files P seeds m md rrows (keep_ids (listed qids) qrows) rids [].
Proof. exact (run_files_qid P seeds m md rrows qrows rids qids). Qed.
(* query molecules physically removed from the file (p = the ids kept; right to left: added): kept ids keep their records, others have none;
   no hypothesis on the files: the reader returns distinct ids *)
Theorem C10_files_keep P seeds m md p rrows qrows rids o : run_files P seeds m md rrows qrows rids [] = Ok o ->
  exists o', run_files P seeds m md rrows (keep_ids p qrows) rids [] = Ok o' /\
    (forall k, p k = true -> recs_of k o' = recs_of k o) /\
    (forall k, p k = false -> recs_of k o' = ([], match m with Best => None | _ => Some [] end, match m with All_ => Some [] | _ => None end)).
Proof. exact (files_keep_printed P seeds m md p rrows qrows rids o). Qed.
(* -qId: the selected queries get exactly the records they have in the run without selection, and nothing else is reported *)
Theorem C10_qid_records P seeds m md rrows qrows rids qids o : qids <> [] -> run_files P seeds m md rrows qrows rids [] = Ok o ->
  exists o', run_files P seeds m md rrows qrows rids qids = Ok o' /\
    (forall k, In k qids -> recs_of k o' = recs_of k o) /\
    (forall k, ~ In k qids -> recs_of k o' = ([], match m with Best => None | _ => Some [] end, match m with All_ => Some [] | _ => None end)).
Proof. exact (files_qid_printed P seeds m md rrows qrows rids qids o). Qed.

(* ---- examples.  Positions in tenths of a bp; default parameters (sp 1000, dp 1, su -250, ms 1000, bs 1200, d 1500, sj 1, ss 0). ---- *)
Definition bp (l : list Z) := map (fun x => x * 10) l.
Definition exP : params := mkP 20000 2 (-5000) 20000 24000 15000 (20 # 1) 0.
Definition R1 := mkMap 1 1280000 (bp [0; 5000; 12000; 20000; 23000; 31000; 45000; 51000; 60000; 72000; 77000; 85000; 99000; 104000; 110000; 123000]) 0.
Definition R2 := mkMap 2 900000 (bp [1000; 4000; 14000; 30000; 41000; 47000; 66000; 80000]) 0.
(* qA: labels 3-8 of R1; qB: labels 3-8 then (after a 60 kb deletion) labels 10-16: first pass + aligned rest, joined; qC: labels 9-14 mirrored *)
Definition qA := mkMap 11 390010 (bp [0; 8000; 11000; 19000; 33000; 39000]) 0.
Definition qB := mkMap 12 980010 (bp [0; 8000; 11000; 19000; 33000; 39000; 47000; 52000; 60000; 74000; 79000; 85000; 98000]) 0.
Definition qC := mkMap 13 440010 (bp [0; 5000; 19000; 27000; 32000; 44000]) 0.
(* a seeding function: one seed on the FIRST reference of the list (so it does look at the reference order) *)
Definition ex_seeds (refs : list omap) (q : omap) : list cseed :=
  match refs with
  | r :: _ =>
    if mid q =? 11 then [mkSeed r false [120000]]
    else if mid q =? 12 then (if mshift q =? 0 then [mkSeed r false [120000]] else [mkSeed r false [250000]])
    else if mid q =? 13 then [mkSeed r true [600000]] else []
  | [] => []
  end.
Definition show (o : res outputs) : res file_recs := rmap out_recs o.
Definition sources (o : res outputs) : list Z :=
  match o with
  | Ok o => flat_map (fun w => flat_map (fun s => flat_map (fun p => match ap p with Pair _ _ _ src => [src] | _ => [] end) (positions s)) (rsegs w)) (o_main o)
  | Err => []
  end.

Example C10_nonvacuous :
  NoDup (map mid [qA; qB; qC]) /\
  show (program_run exP ex_seeds All_ 1000000 [R1; R2] [qA; qB; qC]) =
    Ok ([(12, 1, false, (0, 980000, 120000, 1230000), 260000, false,
          [(3, 1); (4, 2); (5, 3); (6, 4); (7, 5); (8, 6); (10, 7); (11, 8); (12, 9); (13, 10); (14, 11); (15, 12); (16, 13)])],
        Some [(11, 1, false, (0, 390000, 120000, 510000), 120000, false, [(3, 1); (4, 2); (5, 3); (6, 4); (7, 5); (8, 6)]);
              (12, 1, false, (0, 600000, 120000, 720000), 135000, false, [(3, 1); (4, 2); (5, 3); (6, 4); (7, 5); (8, 6); (9, 7); (10, 9)]);
              (13, 1, true, (440000, 0, 600000, 1040000), 120000, false, [(9, 6); (10, 5); (11, 4); (12, 3); (13, 2); (14, 1)])],
        Some [(12, 1, false, (470000, 980000, 720000, 1230000), 140000, true, [(10, 7); (11, 8); (12, 9); (13, 10); (14, 11); (15, 12); (16, 13)])]) /\
  (* another query order: same records; the `source` values differ, which is why the statements erase them *)
  show (program_run exP ex_seeds All_ 1000000 [R1; R2] [qB; qC; qA]) = show (program_run exP ex_seeds All_ 1000000 [R1; R2] [qA; qB; qC]) /\
  sources (program_run exP ex_seeds All_ 1000000 [R1; R2] [qB; qC; qA]) <> sources (program_run exP ex_seeds All_ 1000000 [R1; R2] [qA; qB; qC]) /\
  (* query 12 alone: its records of the full run *)
  show (program_run exP ex_seeds All_ 1000000 [R1; R2] [qB]) =
    rmap (recs_of 12) (program_run exP ex_seeds All_ 1000000 [R1; R2] [qA; qB; qC]) /\
  (* the other modes produce records too *)
  (forall m, In m [Best; Separate; Joined] -> exists a b c d, show (program_run exP ex_seeds m 1000000 [R1; R2] [qA; qB; qC]) = Ok (a :: b, c, d)).
Proof.
  split; [repeat constructor; cbn; intuition discriminate|].
  split; [vm_compute; reflexivity|]. split; [vm_compute; reflexivity|]. split; [vm_compute; discriminate|]. split; [vm_compute; reflexivity|].
  intros m [<-|[<-|[<-|[]]]]; vm_compute; do 4 eexists; reflexivity.
Qed.

(* distinct ids cannot be dropped in the model statements (files never give duplicates): getUnalignedFragments takes the FIRST query with the id *)
Definition qA12 := mkMap 12 390010 (bp [0; 8000; 11000; 19000; 33000; 39000]) 0.
Example C10_distinct_ids_needed :
  program_run exP ex_seeds All_ 1000000 [R1; R2] [qA12; qB] = Err /\
  exists o, program_run exP ex_seeds All_ 1000000 [R1; R2] [qB; qA12] = Ok o.
Proof. split; [vm_compute; reflexivity|]. eexists. vm_compute. reflexivity. Qed.

(* a seeding stage that looks at the ORDER of the reference list changes the run (hypothesis of C10_reference_order_seeds);
   through the reader the order in the FILE never reaches it (C10_reference_order) *)
Example C10_reference_list_order_matters :
  show (program_run exP ex_seeds Best 1000000 [R2; R1] [qA; qB; qC]) <> show (program_run exP ex_seeds Best 1000000 [R1; R2] [qA; qB; qC]).
Proof. vm_compute. discriminate. Qed.

(* files: rows (CMapId, LabelChannel, Position); query molecules are written with an offset (the run trims them) *)
Definition rows_of (off : Z) (m : omap) : list crow := map (fun p => (mid m, 1, p + off)) (mpositions m) ++ [(mid m, 0, mlen m + off)].
Definition ex_rrows : list crow := rows_of 0 R1 ++ rows_of 0 R2.
Definition ex_qrows : list crow := rows_of 200 qA ++ rows_of 12345 qB ++ rows_of 0 qC.
Example C10_files :
  read_maps ex_rrows ex_qrows [] [] = Ok ([R1; R2], [qA; qB; qC]) /\
  (* rows of both files reversed (molecules in descending order, end markers first) *)
  run_files exP ex_seeds All_ 1000000 (rev ex_rrows) (rev ex_qrows) [] [] = run_files exP ex_seeds All_ 1000000 ex_rrows ex_qrows [] [] /\
  (* -qId 12 13 99 *)
  rmap out_recs (run_files exP ex_seeds Best 1000000 ex_rrows ex_qrows [] [12; 13; 99]) =
    (* query 12: its second-pass row beats its first-pass row and is reported as it is (AlignedRest True; before repair F12 it was joined with itself) *)
    Ok ([(12, 1, false, (470000, 980000, 720000, 1230000), 140000, true, [(10, 7); (11, 8); (12, 9); (13, 10); (14, 11); (15, 12); (16, 13)]);
         (13, 1, true, (440000, 0, 600000, 1040000), 120000, false, [(9, 6); (10, 5); (11, 4); (12, 3); (13, 2); (14, 1)])], None, None) /\
  (* -rId 2: the only reference left has no seed on it that aligns *)
  rmap out_recs (run_files exP ex_seeds Best 1000000 ex_rrows ex_qrows [2] []) <> rmap out_recs (run_files exP ex_seeds Best 1000000 ex_rrows ex_qrows [] []).
Proof. split; [vm_compute; reflexivity|]. split; [vm_compute; reflexivity|]. split; [vm_compute; reflexivity|]. vm_compute. discriminate. Qed.

Print Assumptions C10_printed_erasure.
Print Assumptions C10_align_counter.
Print Assumptions C10_execute_concat.
Print Assumptions C10_execute_local.
Print Assumptions C10_execute_order.
Print Assumptions C10_query_local.
Print Assumptions C10_query_local_rows.
Print Assumptions C10_query_local_errors.
Print Assumptions C10_query_subset.
Print Assumptions C10_query_order.
Print Assumptions C10_query_order_rows.
Print Assumptions C10_post_family.
Print Assumptions C10_post_local.
Print Assumptions C10_cmap_perm.
Print Assumptions C10_reference_order.
Print Assumptions C10_reference_order_seeds.
Print Assumptions C10_filter_rid.
Print Assumptions C10_filter_qid.
Print Assumptions C10_files_keep.
Print Assumptions C10_qid_records.

(* ==================================================================================================================================
   APPENDED: THE WHOLE PROGRAM (model/Program.v: program_files cl ref_rows qry_rows = the data lines — the exact text, XmapEntryID included — of
   every XMAP file, from the rows of the two CMAP files and the command line, with the EXECUTABLE seeding stage; proofs/ProgramProofs2.v).
   C10_program_row_order: the result (every data line of every file, or the exception) is the same for ANY permutation of the rows of the
   reference file and ANY permutation of the rows of the query file — so also for any order of the molecules — provided no molecule has two
   end-marker rows (C17_two_markers: with two, the first in file order gives the length).  From C17_perm; the seeding stage is a function of the maps.
   C10_program_id_filters: -rId / -qId are the same as physically restricting the files to the listed molecules. *)
From Coq Require Import String.
Require Import Wiring Cmap Program ProgramProofs1 ProgramProofs2.
Require ProgramExamples.

Theorem C10_program_row_order cl rr rr' qr qr' : Permutation rr rr' -> Permutation qr qr' ->
  (forall i, (List.length (CmapProofs.markers_of rr i) <= 1)%nat) -> (forall i, (List.length (CmapProofs.markers_of qr i) <= 1)%nat) ->
  program_files cl rr' qr' = program_files cl rr qr.
Proof. exact (program_row_order cl rr rr' qr qr'). Qed.

Theorem C10_program_id_filters cl rr qr :
  program_files cl rr qr =
  program_files (with_ids cl [] []) (match cl_rids cl with [] => rr | ids => keep_rows (fun i => mem_id i ids) rr end)
                                    (match cl_qids cl with [] => qr | ids => keep_rows (fun i => mem_id i ids) qr end).
Proof. exact (program_id_filters cl rr qr). Qed.

(* non-vacuity: the files of proofs/ProgramExamples.v have one end marker per molecule; both files reversed (molecules in the opposite order, every
   molecule's rows in the opposite order) give the same data lines in mode `all`, and these are not empty; -qId 3 12 = the query file without
   molecules 7 and 9 *)
Example C10_program_nonvacuous :
  (forall i, (List.length (CmapProofs.markers_of ProgramExamples.px_rr i) <= 1)%nat) /\ (forall i, (List.length (CmapProofs.markers_of ProgramExamples.px_qr i) <= 1)%nat) /\
  program_files (ProgramExamples.px_cl All_) (rev ProgramExamples.px_rr) (rev ProgramExamples.px_qr) =
    program_files (ProgramExamples.px_cl All_) ProgramExamples.px_rr ProgramExamples.px_qr /\
  program_files (ProgramExamples.px_cl All_) ProgramExamples.px_rr ProgramExamples.px_qr =
    Ok [(""%string, [ProgramExamples.px_line7_joined "1"]); ("_1"%string, [ProgramExamples.px_line3 "1"; ProgramExamples.px_line7_first "2"]);
        ("_2"%string, [ProgramExamples.px_line7_second "1"])] /\
  program_files (ProgramExamples.px_with_qids Best [3; 12]) ProgramExamples.px_rr ProgramExamples.px_qr =
    Ok [(""%string, [ProgramExamples.px_line3 "1"])] /\
  ProgramExamples.px_with_qids Best [3; 12] = with_ids (ProgramExamples.px_cl Best) [] [3; 12] /\
  keep_rows (fun i => mem_id i [3; 12]) ProgramExamples.px_qr = rev (ProgramExamples.px_rows_of ProgramExamples.px_q3).
Proof. split; [exact (proj1 ProgramExamples.px_markers)|]. split; [exact (proj2 ProgramExamples.px_markers)|].
  split; [apply C10_program_row_order; [apply Permutation_rev | apply Permutation_rev | exact (proj1 ProgramExamples.px_markers) | exact (proj2 ProgramExamples.px_markers)]|].
  split; [exact (proj1 (proj2 ProgramExamples.px_files))|]. split; [exact ProgramExamples.px_qid_filter|]. split; [reflexivity|]. vm_compute. reflexivity. Qed.
Print Assumptions C10_program_row_order.
Print Assumptions C10_program_id_filters.

(* C01 — Every reported alignment is a one-to-one, collinear matching of real labels.
   Model: Core.aligner_align (pairing -> scoring -> segments -> chain -> stack-based conflict resolution) and Multi.row_create.
   Hypotheses: engine_ok P reference query := 0 <= DMAX /\ 0 < MS /\ SU <= 0 /\ both label lists strictly ascending;
               qry_in_range query := every query label lies in [0, length - 1] (true of trimmed queries and their fragments).
   Whole runs (C01_run_rows_valid, added): every NON-JOINED record of every output file of every mode of model/Coordinator.program_run.
   What is NOT covered by a theorem: joined rows of the multi-pass modes (AlignmentResultRow.resolve joins segments[0] of the two
   parts without the chain admissibility the resolver relies on: see DESIGN.md 10.4, open finding) and maps with coincident labels;
   for those the verified checker below still decides every emitted record at run time. *)
From Coq Require Import ZArith QArith List Bool.
Import ListNotations.
Require Import Py Cigar Pairing Core Multi Checkers CheckersProofs ResolverProofs3 RowProofs RowProofs2 RowProofs3 ResolverProofs10 ResolverProofs14.
Require Import Coordinator RecordProofs1 RunProofs2 RunProofs3.
Require ModesExamples RunProofs4.
Open Scope Z_scope.

(* valid_row nref qlo qhi rev ps: ps <> [], every pair names reference label 1..nref and query label qlo..qhi,
   reference labels strictly ascending, query labels strictly increasing ('+') / decreasing ('-') *)

(* THE property for every candidate alignment the aligner builds from ANY list of seed peaks, both strands, all parameters *)
Theorem C01_all_rows_valid P it reference query peaks reverse out : engine_ok P reference query -> qry_in_range query ->
  mshift reference = 0 -> mshift query = 0 ->
  aligner_align P it reference query peaks reverse = Ok out -> row_pairs out <> [] ->
  valid_row (Z.of_nat (length (mpositions reference))) 1 (Z.of_nat (length (mpositions query))) reverse (row_sites (row_pairs out)).
Proof. exact (aligner_rows_valid P it reference query peaks reverse out). Qed.

(* the listing order of the record (segment order) is already the order by reference coordinate: Row.create's sort is the identity *)
Theorem C01_listing_sorted dir segs : segments_disjoint dir segs -> sort_by pair_rpos (row_pairs segs) = row_pairs segs.
Proof. exact (row_pairs_sorted dir segs). Qed.

(* rows built from pairwise disjoint segments whose labels are in range are valid (used for any resolver output that passes the checker) *)
Theorem C01_from_disjoint nref nqry rev_ segs :
  segments_disjoint (strand_dir rev_) segs ->
  (forall p, In p (row_pairs segs) -> 1 <= rsite_of p <= nref /\ 1 <= qsite_of p <= nqry) -> row_pairs segs <> [] ->
  ResolverProofs3.valid_rowb nref nqry rev_ (row_sites (row_pairs segs)) = true.
Proof. exact (RowProofs.C01_from_disjoint nref nqry rev_ segs). Qed.

(* the verified checker evaluated on every row the implementation returns, and on every record of every file *)
Theorem C01_checker_sound_complete nref qlo qhi rev ps :
  Checkers.valid_rowb nref qlo qhi rev ps = true <-> valid_row nref qlo qhi rev ps.
Proof. exact (CheckersProofs.valid_rowb_spec nref qlo qhi rev ps). Qed.

(* such a matching uses each reference label and each query label at most once *)
Theorem C01_one_to_one dir ps : dir = 1 \/ dir = -1 -> valid dir ps -> NoDup (map fst ps) /\ NoDup (map snd ps).
Proof. exact (valid_one_to_one dir ps). Qed.

Example C01_nonvacuous : valid_row 30 1 20 true [(22, 14); (23, 13); (25, 9)].
Proof. apply CheckersProofs.valid_rowb_spec. vm_compute. reflexivity. Qed.
Example C01_rejects_repeat : Checkers.valid_rowb 30 1 20 true [(22, 13); (23, 14)] = false.
Proof. vm_compute. reflexivity. Qed.
(* the hypotheses of C01_all_rows_valid are met by a concrete three-peak reverse-strand input whose chain has four members,
   two of which are trimmed and one emptied; the resulting row has 3 pairs *)
Definition exP := mkP 200 2 (-20) 100 60 10 0 0.
Definition exR := mkMap 1 0 [0; 10; 40; 60; 70; 80] 0.
Definition exQ := mkMap 7 130 [0; 30; 60; 70; 80; 110; 120] 0.
Example C01_hypotheses_satisfiable : engine_ok exP exR exQ /\ qry_in_range exQ /\
  match aligner_align exP 1 exR exQ [-10; 40; 50] true with
  | Ok out => length (row_pairs out) = 3%nat /\ Checkers.valid_rowb 6 1 7 true (row_sites (row_pairs out)) = true
  | Err => False end.
Proof.
  split; [repeat split; try (vm_compute; congruence); repeat constructor|]. split.
  - intros p Hp. cbn in Hp. unfold K. cbn. repeat (destruct Hp as [<-|Hp]; [split; vm_compute; congruence|]). destruct Hp.
  - vm_compute. split; reflexivity.
Qed.

(* ================================================================== whole runs (model/Coordinator.v) ============================== *)
(* C01_all_rows_valid for a map with a label-number offset (second-pass fragments: getPositionsWithSiteIds numbers their labels from
   1 + shift): the query label numbers of the row lie in 1 + shift .. shift + number of labels.  nlabels m = number of labels of m. *)
Theorem C01_all_rows_valid_shift P it reference query peaks reverse out : engine_ok P reference query -> qry_in_range query ->
  mshift reference = 0 -> aligner_align P it reference query peaks reverse = Ok out -> row_pairs out <> [] ->
  valid_row (nlabels reference) (1 + mshift query) (mshift query + nlabels query) reverse (row_sites (row_pairs out)).
Proof. exact (aligner_row_valid_shift P it reference query peaks reverse out). Qed.

(* Vocabulary (proofs/RunProofs2.v, RunProofs3.v):
     seeds_ok refs seeds := forall q sd, In sd (seeds refs q) -> In (sd_ref sd) refs     (the seeding stage proposes only maps it was given)
     reference_ok r      := mshift r = 0 /\ strictly ascending positions
     trimmed q           := mshift q = 0 /\ strictly ascending positions /\ at least one label /\ first label at 0 /\ mlen q = last label + K
     opt_rows / out_rows : the rows of an optional file / of all files of a run
     valid_run_row refs qs w := exists r q, In r refs /\ In q qs /\ rid w = mid r /\ qid w = mid q /\
                                 valid_row (nlabels r) 1 (nlabels q) (rrev w) (row_sites (row_pairs (rsegs w)))
       i.e. the record's pairs are a non-empty one-to-one collinear matching of existing labels of the reference named by RefContigID and
       of the WHOLE query named by QryContigID (second-pass rows carry whole-query label numbers: RecordProofs1, C02).
   THE property for whole runs, every seeding function with seeds_ok, every mode, every maxDifference:
     - every row of the additional files _1 / _2 (mode `all`: first-/second-pass rows; mode `joined`: the un-joined rows) is valid;
     - every row of the main file is valid OR (modes other than `separate`) is a JOINED row: AlignmentResultRow.resolve of two valid rows —
       joined rows are EXCLUDED from this theorem (open finding F10: the join of segments[0] of the two parts is not known to be
       collinear; the run-time checker still decides each of them);
     - in mode `separate` every row of every file is valid. *)
Theorem C01_run_rows_valid P (seeds : seeding) m maxdiff refs qs o : SU P <= 0 -> 0 < MS P -> seeds_ok refs seeds ->
  (forall r, In r refs -> reference_ok r) -> (forall q, In q qs -> trimmed q) -> NoDup (map mid qs) ->
  program_run P seeds m maxdiff refs qs = Ok o ->
  (forall w, In w (opt_rows (o_1 o) ++ opt_rows (o_2 o)) -> valid_run_row refs qs w) /\
  (forall w, In w (o_main o) -> valid_run_row refs qs w \/
     (m <> Separate /\ exists a b, valid_run_row refs qs a /\ valid_run_row refs qs b /\ join_rows a b = Ok w)) /\
  (m = Separate -> forall w, In w (out_rows o) -> valid_run_row refs qs w).
Proof. exact (fun Hsu Hms Hs Hr Hq => run_rows_valid P seeds refs qs Hsu Hms Hs Hr Hq m maxdiff o). Qed.
(* sharper, for one row handed to the output stage (run_row: it has a pair and is the candidate row of one Aligner.align call on a map q',
   src_map qs q' := q' is one of the queries or a fragment (prefix / suffix with offset) of one): the label numbers lie in q' 's own range *)
Theorem C01_run_row_valid_sharp P (seeds : seeding) refs qs w : SU P <= 0 -> 0 < MS P -> seeds_ok refs seeds ->
  (forall r, In r refs -> reference_ok r) -> (forall q, In q qs -> trimmed q) -> run_row P seeds refs qs w ->
  exists r q', In r refs /\ src_map qs q' /\ rid w = mid r /\ qid w = mid q' /\
    valid_row (nlabels r) (1 + mshift q') (mshift q' + nlabels q') (rrev w) (row_sites (row_pairs (rsegs w))).
Proof. exact (fun Hsu Hms Hs Hr Hq => run_row_valid_sharp P seeds refs qs Hsu Hms Hs Hr Hq w). Qed.
(* which rows reach which file (joined_from rows j := exists a b in rows, join_rows a b = Ok j; run_passes = the two passes, filtered) *)
Theorem C01_run_files P (seeds : seeding) m maxdiff refs qs o : program_run P seeds m maxdiff refs qs = Ok o ->
  exists f1 f2, run_passes P seeds refs m qs = Ok (f1, f2) /\
  (forall w, In w (o_main o) -> In w (f1 ++ f2) \/ (m <> Separate /\ joined_from (f1 ++ f2) w)) /\
  (forall w, In w (opt_rows (o_1 o) ++ opt_rows (o_2 o)) -> In w (f1 ++ f2)) /\
  match m with
  | Separate => o = mkOut f1 (Some f2) None
  | All_ => o_1 o = Some f1 /\ o_2 o = Some f2 /\ forall w, In w (o_main o) -> joined_from (f1 ++ f2) w
  | Joined => o_2 o = None /\ (exists sep, o_1 o = Some sep) /\ forall w, In w (o_main o) -> joined_from (f1 ++ f2) w
  | Best => o_1 o = None /\ o_2 o = None
  end.
Proof. exact (program_run_rows P seeds refs qs m maxdiff o). Qed.

(* non-vacuity: the run of proofs/ModesExamples.v (one reference of 16 labels, one query of 12 labels with a 30 kb insertion after label 6)
   meets the hypotheses; mode `all` writes the first-pass row (labels 1-6) to _1 and the second-pass row, aligned on the fragment with
   offset 6 and carrying the WHOLE query's label numbers 7-12, to _2; the checker accepts both against 16 reference / 12 query labels *)
Example C01_run_nonvacuous :
  SU ModesExamples.ex_P <= 0 /\ 0 < MS ModesExamples.ex_P /\ seeds_ok [ModesExamples.ex_ref] ModesExamples.ex_seeds /\
  (forall r, In r [ModesExamples.ex_ref] -> reference_ok r) /\ (forall q, In q [ModesExamples.ex_query] -> trimmed q) /\
  NoDup (map mid [ModesExamples.ex_query]) /\ nlabels ModesExamples.ex_ref = 16 /\ nlabels ModesExamples.ex_query = 12 /\
  match program_run ModesExamples.ex_P ModesExamples.ex_seeds All_ 110000 [ModesExamples.ex_ref] [ModesExamples.ex_query] with
  | Ok o => map (fun w => row_sites (row_pairs (rsegs w))) (opt_rows (o_1 o)) = [ModesExamples.ex_p16] /\
            map (fun w => row_sites (row_pairs (rsegs w))) (opt_rows (o_2 o)) = [ModesExamples.ex_p712] /\
            forallb (fun w => Checkers.valid_rowb 16 1 12 (rrev w) (row_sites (row_pairs (rsegs w)))) (opt_rows (o_1 o) ++ opt_rows (o_2 o)) = true
  | Err => False
  end.
Proof. split; [discriminate|]. split; [reflexivity|]. split; [exact RunProofs4.ex_seeds_ok|]. split; [exact RunProofs4.ex_ref_ok|].
  split; [exact RunProofs4.ex_query_trimmed|]. split; [exact RunProofs4.ex_ids|]. vm_compute. repeat split; reflexivity. Qed.

Print Assumptions C01_all_rows_valid.
Print Assumptions C01_listing_sorted.
Print Assumptions C01_from_disjoint.
Print Assumptions C01_checker_sound_complete.
Print Assumptions C01_one_to_one.
Print Assumptions C01_all_rows_valid_shift.
Print Assumptions C01_run_rows_valid.
Print Assumptions C01_run_row_valid_sharp.
Print Assumptions C01_run_files.

(* ==================================================================================================================================
   APPENDED: THE WHOLE PROGRAM (model/Program.v: program_files cl ref_rows qry_rows = the data lines of every XMAP file, from the rows of the two
   CMAP files and the command line; proofs/ProgramProofs2.v).  Hypotheses on the inputs only: cmdline_ok cl (-su <= 0 < -ms) and cmap_ok for both
   files (every selected labelled molecule has an end marker; no two label rows of a molecule at one position) — see props/C07.v.

   record_valid cl rr qr refs q0s line :=
     exists a, read_line (map xmap_of refs) (map xmap_of q0s) line = XOk a             (the project's XMAP reader, given the two CMAP files as read,
                                                                                         returns normally on the data line)
       /\ sel (cl_rids cl) (a_rid a) /\ sel (cl_qids cl) (a_qid a)                      (RefContigID / QryContigID are selected molecules ...)
       /\ valid_row (number of label rows of molecule a_rid a in rr) 1 (number of label rows of molecule a_qid a in qr) (a_rev a) (sites_of a)
                                                                                        (... and the listed pairs are a non-empty, strictly ascending on the
                                                                                         reference, strictly monotone on the query in the direction of the
                                                                                         orientation, matching of label numbers 1..n of THESE molecules)
   Every data line of the additional files _1 / _2 of every mode, and every data line of every file in mode `separate`, is record_valid.
   Every data line of the main file is record_valid (and its row a valid matching) OR, in the modes best / joined / all, is the line of a JOINED
   row (AlignmentResultRow.resolve of two valid rows): excluded exactly as in C01_run_rows_valid (open findings F7/F10).
   refs / q0s are what the reader returns for the two files (C17 says exactly what). *)
From Coq Require Import String.
Require Import Wiring Cmap Xmap Program CmapProofs RunRecordProofs2 ProgramProofs1 ProgramProofs2.
Require ProgramExamples.

Theorem C01_program_records_valid cl rr qr files : cmdline_ok cl -> cmap_ok (cl_rids cl) rr -> cmap_ok (cl_qids cl) qr ->
  program_files cl rr qr = Ok files ->
  exists refs q0s o,
    cmap_read rr (cl_rids cl) = Ok refs /\ cmap_read qr (cl_qids cl) = Ok q0s /\ program_outputs cl rr qr = Ok o /\
    (forall sfx lines, In (sfx, lines) files -> sfx <> ""%string \/ cl_mode cl = Separate -> Forall (record_valid cl rr qr refs q0s) lines) /\
    (forall lines k line, In (""%string, lines) files -> nth_error lines k = Some line ->
       exists w, nth_error (o_main o) k = Some w /\
         ((row_matching refs q0s w /\ record_valid cl rr qr refs q0s line) \/ (cl_mode cl <> Separate /\ joined_row refs q0s w))).
Proof. exact (fun H1 H2 H3 => program_records_valid cl rr qr H1 H2 H3 files). Qed.

(* non-vacuity: the run of proofs/ProgramExamples.v (see C07_program_nonvacuous) in mode `all`: hypotheses hold; the reader, given the maps read
   from the two files, reads every data line of _1 and _2 back, and the verified checker accepts each against the label counts of the FILES
   (24 reference labels; 18 labels of molecule 7, 9 of molecule 3) *)
Example C01_program_nonvacuous :
  cmdline_ok (ProgramExamples.px_cl All_) /\ cmap_ok [] ProgramExamples.px_rr /\ cmap_ok [] ProgramExamples.px_qr /\
  match cmap_read ProgramExamples.px_rr [], cmap_read ProgramExamples.px_qr [], program_files (ProgramExamples.px_cl All_) ProgramExamples.px_rr ProgramExamples.px_qr return Prop with
  | Ok refs, Ok q0s, Ok files =>
      map mid refs = [1] /\ map mid q0s = [3; 7] /\
      map (fun f => map (fun line => match read_line (map xmap_of refs) (map xmap_of q0s) line with
                                     | XOk a => Some (a_qid a, a_rid a, a_rev a,
                                                      Checkers.valid_rowb (Z.of_nat (List.length (labels_of ProgramExamples.px_rr (a_rid a)))) 1
                                                                          (Z.of_nat (List.length (labels_of ProgramExamples.px_qr (a_qid a)))) (a_rev a) (sites_of a))
                                     | XErr _ => None end) (snd f)) files
      = [[Some (7, 1, false, true)]; [Some (3, 1, true, true); Some (7, 1, false, true)]; [Some (7, 1, false, true)]]
  | _, _, _ => False
  end.
Proof. split; [apply ProgramExamples.px_cl_ok|]. split; [exact (proj1 ProgramExamples.px_files_ok)|]. split; [exact (proj2 ProgramExamples.px_files_ok)|].
  vm_compute. repeat split; reflexivity. Qed.
Print Assumptions C01_program_records_valid.

(* C01 — Every reported alignment is a one-to-one, collinear matching of real labels.
   Model: Core.aligner_align (pairing -> scoring -> segments -> chain -> stack-based conflict resolution) and Multi.row_create.
   Hypotheses: engine_ok P reference query := 0 <= DMAX /\ 0 < MS /\ SU <= 0 /\ both label lists strictly ascending;
               qry_in_range query := every query label lies in [0, length - 1] (true of trimmed queries and their fragments).
   What is NOT covered by a theorem: joined rows of the multi-pass modes (AlignmentResultRow.resolve joins segments[0] of the two
   parts without the chain admissibility the resolver relies on: see DESIGN.md 10.4, open finding) and maps with coincident labels;
   for those the verified checker below still decides every emitted record at run time. *)
From Coq Require Import ZArith QArith List Bool.
Import ListNotations.
Require Import Py Cigar Pairing Core Multi Checkers CheckersProofs ResolverProofs3 RowProofs RowProofs2 RowProofs3 ResolverProofs10 ResolverProofs14.
Open Scope Z_scope.

(* valid_row nref qlo qhi rev ps: ps <> [], every pair names reference label 1..nref and query label qlo..qhi,
   reference labels strictly ascending, query labels strictly increasing ('+') / decreasing ('-') *)

(* THE property for every candidate alignment the aligner builds from ANY list of seed peaks, both strands, all parameters *)
Theorem C01_all_rows_valid P it reference query peaks reverse out : engine_ok P reference query -> qry_in_range query ->
  mshift reference = 0 -> mshift query = 0 ->
  aligner_align P it reference query peaks reverse = Ok out -> row_pairs out <> [] ->
  valid_row (Z.of_nat (length (mpositions reference))) 1 (Z.of_nat (length (mpositions query))) reverse (row_sites (row_pairs out)).
Proof. exact (aligner_rows_valid P it reference query peaks reverse out). Qed.

(* the listing order of the record (segment order) is already the order by reference coordinate: Row.create's sort is the identity *)
Theorem C01_listing_sorted dir segs : segments_disjoint dir segs -> sort_by pair_rpos (row_pairs segs) = row_pairs segs.
Proof. exact (row_pairs_sorted dir segs). Qed.

(* rows built from pairwise disjoint segments whose labels are in range are valid (used for any resolver output that passes the checker) *)
Theorem C01_from_disjoint nref nqry rev_ segs :
  segments_disjoint (strand_dir rev_) segs ->
  (forall p, In p (row_pairs segs) -> 1 <= rsite_of p <= nref /\ 1 <= qsite_of p <= nqry) -> row_pairs segs <> [] ->
  ResolverProofs3.valid_rowb nref nqry rev_ (row_sites (row_pairs segs)) = true.
Proof. exact (RowProofs.C01_from_disjoint nref nqry rev_ segs). Qed.

(* the verified checker evaluated on every row the implementation returns, and on every record of every file *)
Theorem C01_checker_sound_complete nref qlo qhi rev ps :
  Checkers.valid_rowb nref qlo qhi rev ps = true <-> valid_row nref qlo qhi rev ps.
Proof. exact (CheckersProofs.valid_rowb_spec nref qlo qhi rev ps). Qed.

(* such a matching uses each reference label and each query label at most once *)
Theorem C01_one_to_one dir ps : dir = 1 \/ dir = -1 -> valid dir ps -> NoDup (map fst ps) /\ NoDup (map snd ps).
Proof. exact (valid_one_to_one dir ps). Qed.

Example C01_nonvacuous : valid_row 30 1 20 true [(22, 14); (23, 13); (25, 9)].
Proof. apply CheckersProofs.valid_rowb_spec. vm_compute. reflexivity. Qed.
Example C01_rejects_repeat : Checkers.valid_rowb 30 1 20 true [(22, 13); (23, 14)] = false.
Proof. vm_compute. reflexivity. Qed.
(* the hypotheses of C01_all_rows_valid are met by a concrete three-peak reverse-strand input whose chain has four members,
   two of which are trimmed and one emptied; the resulting row has 3 pairs *)
Definition exP := mkP 200 2 (-20) 100 60 10 0 0.
Definition exR := mkMap 1 0 [0; 10; 40; 60; 70; 80] 0.
Definition exQ := mkMap 7 130 [0; 30; 60; 70; 80; 110; 120] 0.
Example C01_hypotheses_satisfiable : engine_ok exP exR exQ /\ qry_in_range exQ /\
  match aligner_align exP 1 exR exQ [-10; 40; 50] true with
  | Ok out => length (row_pairs out) = 3%nat /\ Checkers.valid_rowb 6 1 7 true (row_sites (row_pairs out)) = true
  | Err => False end.
Proof.
  split; [repeat split; try (vm_compute; congruence); repeat constructor|]. split.
  - intros p Hp. cbn in Hp. unfold K. cbn. repeat (destruct Hp as [<-|Hp]; [split; vm_compute; congruence|]). destruct Hp.
  - vm_compute. split; reflexivity.
Qed.

Print Assumptions C01_all_rows_valid.
Print Assumptions C01_listing_sorted.
Print Assumptions C01_from_disjoint.
Print Assumptions C01_checker_sound_complete.
Print Assumptions C01_one_to_one.

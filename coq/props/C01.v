(* C01 — Every reported alignment is a one-to-one, collinear matching of real labels.
   INTERIM version: the verified checker that decides the property on every row the implementation returns (it is evaluated
   inside Coq on the implementation's outputs by the correspondence run), and one-to-one-ness of a valid matching.
   The pipeline theorems (segments of a pairing are valid matchings; rows from disjoint segments are valid) are being
   added from proofs/PairingProofs4.v and proofs/ResolverProofs*.v. *)
From Coq Require Import ZArith List Bool.
Import ListNotations.
Require Import Py Cigar Checkers CheckersProofs.
Open Scope Z_scope.

(* valid_row nref qlo qhi rev ps: ps <> [], every pair names reference label 1..nref and query label qlo..qhi,
   reference labels strictly ascending, query labels strictly increasing ('+') / decreasing ('-') *)
Theorem C01_checker_sound_complete nref qlo qhi rev ps :
  valid_rowb nref qlo qhi rev ps = true <-> valid_row nref qlo qhi rev ps.
Proof. exact (valid_rowb_spec nref qlo qhi rev ps). Qed.

(* such a matching uses each reference label and each query label at most once *)
Theorem C01_one_to_one dir ps : dir = 1 \/ dir = -1 -> valid dir ps -> NoDup (map fst ps) /\ NoDup (map snd ps).
Proof. exact (valid_one_to_one dir ps). Qed.

Example C01_nonvacuous : valid_row 30 1 20 true [(22, 14); (23, 13); (25, 9)].
Proof. apply valid_rowb_spec. vm_compute. reflexivity. Qed.
Example C01_rejects_repeat : valid_rowb 30 1 20 true [(22, 13); (23, 14)] = false.
Proof. vm_compute. reflexivity. Qed.

Print Assumptions C01_checker_sound_complete.
Print Assumptions C01_one_to_one.

(* C16 — Vectorisation, blur and bin-to-bp mapping are exact; seeds are the top peaks.
   Models: model/Vec.v (vectorisePositions as its generator loop with the early return, blur as shifted copies / zip_longest /
   any / cut, toRelativeGenomicPositions), model/Peaks.v (PeaksSelector.selectPeaks, CorrelationResult.createPeaks with numpy's
   argpartition as the function argument `cut`, exception wrappers).  Coordinates are integers (base pairs); heights, noise
   levels and scores are integers in one arbitrary unit.
   inbin res start i p  :=  start + i*res <= p < start + (i+1)*res.
   eff_stop ps stop     :=  the code's `end or positions[-1]`  (None and 0 both mean "last label"). *)
From Coq Require Import ZArith List Bool Sorting.Permutation Sorting.Sorted.
Import ListNotations.
Require Import Py Vec Peaks VecProofs VecCovers BlurProofs Centre PeaksProofs SeedProofs.
Open Scope Z_scope.

(* every emitted bit i is 1 exactly when some label lies in bin i (ascending labels, any start, any end, resolution >= 1;
   includes the early return once window_start passes `end`) *)
Theorem C16_vector_bits ps res start stop : 1 <= res -> StronglySorted Z.le ps ->
  let v := vectorise ps res start stop in
  forall i, (i < length v)%nat ->
    (nth i v 0 = 1 /\ exists p, In p ps /\ inbin res start i p) \/ (nth i v 0 = 0 /\ forall p, In p ps -> ~ inbin res start i p).
Proof. exact (vectorise_bits ps res start stop). Qed.

(* ... for every label between start and end: such a label's bin is inside the vector (and therefore set) *)
Theorem C16_vector_covers ps res start stop : 1 <= res -> StronglySorted Z.le ps ->
  let v := vectorise ps res start stop in
  forall p, In p ps -> start <= p <= eff_stop ps stop ->
  exists i, (i < length v)%nat /\ inbin res start i p /\ nth i v 0 = 1.
Proof. exact (vectorise_covers ps res start stop). Qed.

(* list(vectorisePositions(...)) raises only for resolution < 1 or for "no label and no end" *)
Theorem C16_vector_no_error ps res start stop : 1 <= res -> (ps <> [] \/ exists e, stop = Some e /\ e <> 0) ->
  vectorise_py ps res start stop = Ok (vectorise ps res start stop).
Proof. exact (vectorise_py_ok ps res start stop). Qed.

(* blur keeps the length; bit i is set exactly when an original bit j with |i - j| <= radius is set *)
Theorem C16_blur v r :
  length (blur v r) = length v /\
  forall i, (i < length v)%nat ->
    (nth i (blur v r) 0 = 1 /\ exists j, (j < length v)%nat /\ (i <= j + r)%nat /\ (j <= i + r)%nat /\ nth j v 0 <> 0) \/
    (nth i (blur v r) 0 = 0 /\ forall j, (j < length v)%nat -> (i <= j + r)%nat -> (j <= i + r)%nat -> nth j v 0 = 0).
Proof. exact (conj (blur_length v r) (blur_bits v r)). Qed.

(* bin k converts back to a coordinate inside bin k, within half a resolution of every point x of the bin *)
Theorem C16_centre k res start x : 1 <= res -> start + k * res <= x < start + (k + 1) * res ->
  let bp := bin_to_bp k res start in
  start + k * res <= bp < start + (k + 1) * res /\ 2 * Z.abs (bp - x) <= res.
Proof. exact (bin_centre k res start x). Qed.

(* together: a label between start and end is located, from its set bit, to within half a resolution *)
Theorem C16_label_located ps res start stop : 1 <= res -> StronglySorted Z.le ps ->
  let v := vectorise ps res start stop in
  forall p, In p ps -> start <= p <= eff_stop ps stop ->
  exists i, (i < length v)%nat /\ nth i v 0 = 1 /\ 2 * Z.abs (bin_to_bp (Z.of_nat i) res start - p) <= res.
Proof. exact (label_located ps res start stop). Qed.

(* the seeds: with L = all peaks of all correlations in order, the result T is descending by score, has min(count, |L|)
   members, T ++ rest is a rearrangement of L, nothing left out scores higher than anything kept, and among equal scores
   the input order is kept and the kept ones come first (score_is c p := pscore p = c) *)
Theorem C16_top_n count ls :
  let L := concat ls in let T := select_peaks count ls in
  exists rest, Permutation L (T ++ rest) /\ length T = Nat.min count (length L) /\
    StronglySorted (fun a b => pscore b <= pscore a) T /\
    (forall x y, In x rest -> In y T -> pscore x <= pscore y) /\
    forall c, filter (score_is c) T ++ filter (score_is c) rest = filter (score_is c) L.
Proof. exact (select_top_n count ls). Qed.
(* [0:count] with a non-negative Python int is that selection *)
Theorem C16_top_n_slice count ls : 0 <= count -> select_peaks_z count ls = select_peaks (Z.to_nat count) ls.
Proof. exact (select_peaks_z_nonneg count ls). Qed.

(* the per-correlation cut of createPeaks never loses a global top seed.  For ANY function `cut` that returns, for each
   correlation, some arrangement of min(n, size) of its peaks such that no peak left out is higher than one kept (cut_ok; this
   is all np.argpartition promises: order and the choice among ties at the boundary are unspecified), with n >= count and one
   noise level per correlation (score = height - noise), the scores of the selected seeds are the same list as without the cut.
   Stated on scores because boundary ties may pick different but equal-scoring peaks; equality of the two descending lists
   is the same as equality of the score multisets. *)
Theorem C16_cut_harmless (cut : nat -> list peak -> list peak) count n ls : (count <= n)%nat ->
  (forall l, In l ls -> one_noise l) -> (forall l, In l ls -> cut_ok n l (cut n l)) ->
  map pscore (select_peaks count (map (cut n) ls)) = map pscore (select_peaks count ls).
Proof. exact (select_cut_harmless cut count n ls). Qed.
Corollary C16_cut_harmless_perm (cut : nat -> list peak -> list peak) count n ls : (count <= n)%nat ->
  (forall l, In l ls -> one_noise l) -> (forall l, In l ls -> cut_ok n l (cut n l)) ->
  Permutation (map pscore (select_peaks count (map (cut n) ls))) (map pscore (select_peaks count ls)).
Proof. exact (select_cut_harmless_perm cut count n ls). Qed.
(* the same through createPeaks itself (cut applied to (bin, height) pairs when peaksCount < size, same peaksCount as the selector);
   cs = one (noiseLevel, found peaks) per correlation *)
Theorem C16_cut_harmless_create cut res start count (cs : list (Z * list (Z * Z))) : raw_cut_ok cut ->
  map pscore (select_peaks count (map (fun c => create_peaks cut res start (fst c) count (snd c)) cs)) =
  map pscore (select_peaks count (map (fun c => map (mk_peak res start (fst c)) (snd c)) cs)).
Proof. exact (create_cut_harmless cut res start count cs). Qed.

(* ---------- non-vacuity ---------- *)
(* negative start, duplicate label, end before the last label: the generator returns after the first 0 past `end` *)
Example C16_ex_vector : vectorise [-2; 1; 1; 7; 12] 3 (-4) (Some 8) = [1; 1; 0; 1; 0] /\ StronglySorted Z.le [-2; 1; 1; 7; 12].
Proof. split; [vm_compute; reflexivity | repeat constructor; discriminate]. Qed.
Example C16_ex_vector_end0 : vectorise [0; 5] 2 (-3) (Some 0) = vectorise [0; 5] 2 (-3) None /\ vectorise [0; 5] 2 (-3) None = [0; 1; 0; 0; 1].
Proof. vm_compute. split; reflexivity. Qed.
Example C16_ex_blur : blur [1; 0; 0; 0; 0; 0; 0; 0; 1; 0] 2 = [1; 1; 1; 0; 0; 0; 1; 1; 1; 1].
Proof. vm_compute. reflexivity. Qed.
Example C16_ex_centre : map (fun k => bin_to_bp k 4 (-6)) [0; 1; 2] = [-5; -1; 3] /\ bin_to_bp 3 5 0 = 17.
Proof. vm_compute. split; reflexivity. Qed.
(* ties: the two peaks of score 7 stay in input order, of the three of score 5 the first one (in input order) is kept *)
Example C16_ex_top : map ppos (select_peaks 4 [[mkPeak 1 5 5; mkPeak 2 7 7]; [mkPeak 3 6 5; mkPeak 4 8 7; mkPeak 5 10 9]; [mkPeak 6 5 5]]) = [5; 2; 4; 1].
Proof. vm_compute. reflexivity. Qed.
(* an admissible cut exists, and cutting with it changes the seeds' identity order but not their scores *)
Example C16_ex_cut : raw_cut_ok cut_sorted /\
  map pscore (select_peaks 2 (map (fun c => create_peaks cut_sorted 10 0 (fst c) 2 (snd c)) [(1, [(0, 5); (3, 9); (7, 9); (9, 2)]); (0, [(2, 8); (4, 1)])])) = [8; 8].
Proof. split; [exact raw_cut_sorted_ok | vm_compute; reflexivity]. Qed.

Print Assumptions C16_vector_bits.
Print Assumptions C16_vector_covers.
Print Assumptions C16_vector_no_error.
Print Assumptions C16_blur.
Print Assumptions C16_centre.
Print Assumptions C16_label_located.
Print Assumptions C16_top_n.
Print Assumptions C16_top_n_slice.
Print Assumptions C16_cut_harmless.
Print Assumptions C16_cut_harmless_perm.
Print Assumptions C16_cut_harmless_create.

(* ==================================================================================================================================
   APPENDED: THE EXACT CROSS-CORRELATION OF THE SEEDING STAGE (model/Correlate.v; proofs/CorrelateProofs1-3.v)
   xcorr ref q           entry k = sum_i ref[k+i] * q[i], k = 0 .. len(ref) - len(q): what scipy.signal.correlate(ref, q, mode='valid')
                         returns for len(ref) >= len(q) >= 1 (correlate_valid: also the swapped branch for len(q) > len(ref) and the
                         IndexError on an empty input).  FFT rounding is not modelled (the true values are integers; the harness
                         compares np.rint of scipy's output).
   get_sequence          OpticalMap.getSequence = blur(vectorise(...)), reversed for the reverse strand
   norm2 / normalised    twice the normalising factor of getInitialAlignment / the normalised correlation as exact rationals
   is01 v                every entry is 0 or 1;  vsum v = sum of the entries (the number of 1-bits);  window ref k m = ref[k : k+m]
   covers ref q k        every 1-bit of q, placed at lag k, meets a 1-bit of ref;  sumn f n = f 0 + ... + f (n-1) *)
From Coq Require Import QArith Lia.
Require Import Correlate CorrelateProofs1 CorrelateProofs2 CorrelateProofs3.

Theorem C16_xcorr_entry ref q k : (k <= length ref - length q)%nat ->
  length (xcorr ref q) = (length ref - length q + 1)%nat /\
  nth k (xcorr ref q) 0 = sumn (fun i => nth (k + i) ref 0 * nth i q 0) (length q).
Proof. exact (fun Hk => conj (xcorr_length ref q) (xcorr_entry ref q k Hk)). Qed.
(* scipy's function on the inputs the lag theorems speak about *)
Theorem C16_correlate_valid ref q : q <> [] -> (length q <= length ref)%nat -> correlate_valid ref q = Ok (xcorr ref q).
Proof. exact (correlate_valid_xcorr ref q). Qed.
(* 0 <= entry <= 1-bits of the query, and <= 1-bits of the reference window *)
Theorem C16_xcorr_bounds ref q k : is01 ref -> is01 q -> (k <= length ref - length q)%nat ->
  0 <= nth k (xcorr ref q) 0 /\ nth k (xcorr ref q) 0 <= vsum q /\ nth k (xcorr ref q) 0 <= vsum (window ref k (length q)).
Proof. exact (xcorr_bounds ref q k). Qed.
(* the upper bound vsum q is reached exactly at the covered lags; a covered lag is a global maximum *)
Theorem C16_xcorr_max_iff_covered ref q k : is01 ref -> is01 q -> (k <= length ref - length q)%nat ->
  (nth k (xcorr ref q) 0 = vsum q <-> covers ref q k).
Proof. exact (xcorr_max_iff ref q k). Qed.
Theorem C16_xcorr_covered_is_max ref q k0 : is01 ref -> is01 q -> (k0 <= length ref - length q)%nat -> covers ref q k0 ->
  nth k0 (xcorr ref q) 0 = vsum q /\
  forall k, (k <= length ref - length q)%nat -> nth k (xcorr ref q) 0 <= nth k0 (xcorr ref q) 0.
Proof. exact (xcorr_covered_is_max ref q k0). Qed.
(* the normalising factor: twice it = 1-bits of the reference window + 1-bits of the query; 2 * correlation never exceeds it, with
   equality exactly when the reference window IS the query vector *)
Theorem C16_norm_factor ref q k : is01 ref -> is01 q -> (length q <= length ref)%nat -> (k <= length ref - length q)%nat ->
  nth k (norm2 ref q) 0 = vsum (window ref k (length q)) + vsum q /\
  2 * nth k (xcorr ref q) 0 <= nth k (norm2 ref q) 0 /\
  (2 * nth k (xcorr ref q) 0 = nth k (norm2 ref q) 0 <-> window ref k (length q) = q).
Proof. exact (fun Hr Hq Hl Hk => conj (norm2_nth ref q k Hk) (norm2_bound ref q k Hr Hq Hl Hk)). Qed.
(* the normalised correlation (exact rational; entries whose factor is 0 excluded): = corr / (norm2 / 2), at most 1, equal to 1 on an
   identical window and below 1 elsewhere *)
Theorem C16_normalised ref q k : is01 ref -> is01 q -> (length q <= length ref)%nat -> (k <= length ref - length q)%nat ->
  0 < nth k (norm2 ref q) 0 ->
  nth k (normalised ref q) 0%Q = (inject_Z (nth k (xcorr ref q) 0%Z) / (inject_Z (nth k (norm2 ref q) 0%Z) / inject_Z 2))%Q /\
  (nth k (normalised ref q) 0 <= 1)%Q /\
  (window ref k (length q) = q -> 0 < vsum q -> (nth k (normalised ref q) 0 == 1)%Q) /\
  (window ref k (length q) <> q -> (nth k (normalised ref q) 0 < 1)%Q).
Proof. exact (fun Hr Hq Hl Hk Hp => conj (normalised_nth ref q k Hk) (conj (normalised_le_1 ref q k Hr Hq Hl Hk Hp)
         (conj (fun Hw Hs => normalised_eq_1 ref q k Hr Hq Hl Hk Hs Hw) (normalised_lt_1 ref q k Hr Hq Hl Hk Hp)))). Qed.
(* getSequence: no exception for resolution >= 1, radius >= 0 and at least one label; the result is a 0/1 vector *)
Theorem C16_sequence ps res r b start stop : 1 <= res -> 0 <= r -> ps <> [] ->
  get_sequence_py ps res r b start stop = Ok (get_sequence ps res (Z.to_nat r) b start stop) /\
  is01 (get_sequence ps res (Z.to_nat r) b start stop).
Proof. exact (fun H1 H2 H3 => conj (get_sequence_py_ok ps res r b start stop H1 H2 H3) (get_sequence_is01 ps res (Z.to_nat r) b start stop)). Qed.
(* blur commutes with reversal; the vector never extends beyond a label's bin; vectors whose set bits sit within s bins of each
   other stay covered after blurring when the radii differ by at least s *)
Theorem C16_blur_rev v r : blur (rev v) r = rev (blur v r).
Proof. exact (blur_rev v r). Qed.
Theorem C16_vector_length_bound ps res start stop : 1 <= res ->
  forall i, (i < length (vectorise ps res start stop))%nat -> exists p, In p ps /\ start + Z.of_nat i * res <= p.
Proof. exact (vectorise_len_bound ps res start stop). Qed.
Theorem C16_blur_cover v w k0 r1 r2 s : (r1 + s <= r2)%nat -> (k0 + length v <= length w)%nat ->
  (forall j, (j < length v)%nat -> nth j v 0 <> 0 -> exists j', (j' < length w)%nat /\ nth j' w 0 <> 0 /\ (k0 + j <= j' <= k0 + j + s)%nat) ->
  covers (blur w r2) (blur v r1) k0.
Proof. exact (blur_cover v w k0 r1 r2 s). Qed.

(* ---------- non-vacuity ---------- *)
Example C16_ex_xcorr : xcorr [1; 0; 1; 1; 0] [1; 1] = [1; 1; 2; 1] /\ correlate_valid [1; 0; 1; 1; 0] [1; 1] = Ok [1; 1; 2; 1] /\
  correlate_valid [1; 1] [1; 0; 1; 1; 0] = Ok [1; 2; 1; 1] /\ correlate_valid [] [1] = Err /\
  norm2 [1; 0; 1; 1; 0] [1; 1] = [3; 3; 4; 3] /\ covers [1; 0; 1; 1; 0] [1; 1] 2 /\ ~ covers [1; 0; 1; 1; 0] [1; 1] 1.
Proof. repeat split; try (vm_compute; reflexivity).
  - intros i Hi H1. destruct i as [|[|i]]; [reflexivity | reflexivity | cbn in Hi; lia].
  - intros H. specialize (H O ltac:(cbn; lia) eq_refl). cbn in H. lia. Qed.
Example C16_ex_sequence : get_sequence [0; 25; 61] 10 1 false 0 None = [1; 1; 1; 1; 0; 1; 1] /\ get_sequence [0; 25; 61] 10 1 true 0 None = [1; 1; 0; 1; 1; 1; 1] /\
  get_sequence_py [0; 25; 61] 10 1 true 0 None = Ok [1; 1; 0; 1; 1; 1; 1] /\ get_sequence_py [] 10 1 true 0 None = Err /\
  get_sequence [0; 25; 61; 90] 10 1 false 20 (Some 70) = [1; 1; 0; 1; 1; 1].
Proof. vm_compute. repeat split; reflexivity. Qed.
(* the normalisation is not monotone: the query is covered at lag 0 only (correlation 3 = all its 1-bits, the strict global maximum) but
   the dense window there gives 2*3/(5+3) = 3/4, while lag 5, where only 2 of the 3 bits meet, gives 2*2/(2+3) = 4/5 *)
Example C16_normalised_not_monotone :
  let ref := [1;1;1;1;1;0;0;1;0;1;0;0] in let q := [1;0;1;0;1] in
  covers ref q 0 /\ xcorr ref q = [3; 2; 2; 2; 1; 2; 0; 2] /\ norm2 ref q = [8; 7; 6; 6; 5; 5; 5; 5] /\
  (nth 0 (normalised ref q) 0 == 3 # 4)%Q /\ (nth 5 (normalised ref q) 0 == 4 # 5)%Q /\ (nth 0 (normalised ref q) 0 < nth 5 (normalised ref q) 0)%Q.
Proof. cbv zeta. split; [intros i Hi H1; destruct i as [|[|[|[|[|i]]]]]; cbn in Hi, H1; first [reflexivity | lia]|]. vm_compute. repeat split; try reflexivity; intros; discriminate. Qed.

Print Assumptions C16_xcorr_entry.
Print Assumptions C16_correlate_valid.
Print Assumptions C16_xcorr_bounds.
Print Assumptions C16_xcorr_max_iff_covered.
Print Assumptions C16_xcorr_covered_is_max.
Print Assumptions C16_norm_factor.
Print Assumptions C16_normalised.
Print Assumptions C16_sequence.
Print Assumptions C16_blur_rev.
Print Assumptions C16_vector_length_bound.
Print Assumptions C16_blur_cover.

(* ==================================================================================================================================
   APPENDED (2): THE SEEDING STAGE, EXECUTABLE (model/FindPeaks.v, model/Seeding.v, model/SeqFast.v;
   proofs/FindPeaksProofs1-5.v, SeqFastProofs.v, SeedingProofs1-2.v; correspondence: harness/seeding.py streams find_peaks_unit,
   float_borders, seeding of this property)

   scipy.signal.find_peaks as COMA calls it (local maxima with plateaus -> height -> distance -> prominence; widths are computed by the
   code but select nothing and are not modelled), CorrelationResult.createPeaks, PeaksSelector.selectPeaks (exact order of
   height - sqrt(mean square), decided algebraically), InitialAlignment.refine and the coordinator's loop over references and strands
   are now a Gallina program: Seeding.seeds_model : Coordinator.seeding.  Generic statements are about an arbitrary sample type with a
   total preorder `leb` (instances: Z.leb for the integer secondary correlation, qleb = Qle_bool for the rational primary one).

     C16_local_maxima          the indices _local_maxima_1d returns are exactly the midpoints (l+r)//2 of the plateaus x[l..r] that lie
                               strictly inside the array and whose two neighbours are strictly lower (C16_is_peak spells the predicate out)
     C16_local_maxima_inside   hence never the first or last sample, height = x[index], ascending positions (C16_peaks_ascending)
     C16_peak_conditions       height / distance / prominence conditions only remove peaks, keeping the order
     C16_distance_condition    _select_by_peak_distance, for EVERY argsort numpy may return (valid_argsort: a permutation of the peak numbers
                               along which the heights do not decrease): kept peaks are at least `distance` apart, and every removed peak is
                               closer than `distance` to a kept peak of at least its own height; C16_distance_condition_stable: the
                               instance used by the model (stable argsort; C16_argsort_valid).  Which of two EQUAL peaks closer than the
                               distance survives is NOT specified by numpy (C16_ex_distance_tie shows two valid argsorts with different
                               survivors): the harness compares such cases with the recorded numpy order only.
     C16_fast_sequences        the faster vector / correlation functions used for evaluation are equal to the modelled ones
     C16_mean_square           the noise level under the square root is exactly np.mean(array[array != 0] ** 2) (the grouping by denominators in
                               the model is only an evaluation strategy); C16_score_same_correlation: peaks of one correlation are ranked by
                               height (the first shortcut of score_leb is the plain algebraic test le_sqrt)
     C16_seeds_model_ok        every seed of seeds_model is on a reference map that was given (RunProofs2.seeds_ok), and there are at most
                               peaksCount of them (C16_seeds_at_most_peaksCount): all run-level theorems proved for an arbitrary seeding
                               function instantiate for Seeding.program_run_full (C07_run_full_total in C07.v is the example).
   The planted-copy theorems on top of these are in C06.v (C06_true_lag_yields_seed and its variants). *)
From Coq Require Import QArith.
Require Import Correlate SeqFast FindPeaks Seeding Pairing Core Multi Coordinator DPProofs ResolverProofs1
  FindPeaksProofs1 FindPeaksProofs2 FindPeaksProofs3 FindPeaksProofs4 SeqFastProofs SeedingProofs1 SeedingProofs3 RunProofs2.
Open Scope Z_scope.

Theorem C16_is_peak {A} (leb : A -> A -> bool) (d : A) x l r :
  is_peak leb d x l r <->
  (1 <= l /\ l <= r /\ r + 1 < length x)%nat /\
  (forall k, (l <= k <= r)%nat -> eqb leb (nth k x d) (nth l x d) = true) /\
  ltb leb (nth (l - 1) x d) (nth l x d) = true /\ ltb leb (nth (r + 1) x d) (nth l x d) = true.
Proof. unfold is_peak. tauto. Qed.
Theorem C16_local_maxima {A} (leb : A -> A -> bool) (d : A) x m v :
  (forall a b, leb a b = true \/ leb b a = true) -> (forall a b c, leb a b = true -> leb b c = true -> leb a c = true) ->
  (In (m, v) (local_maxima leb x) <-> exists l r, is_peak leb d x l r /\ m = Nat.div2 (l + r) /\ v = nth m x d).
Proof. exact (fun Ht Htr => local_maxima_spec leb Ht Htr d x m v). Qed.
Theorem C16_local_maxima_inside {A} (leb : A -> A -> bool) (d : A) x m v :
  (forall a b, leb a b = true \/ leb b a = true) -> (forall a b c, leb a b = true -> leb b c = true -> leb a c = true) ->
  In (m, v) (local_maxima leb x) ->
  (1 <= m)%nat /\ (m + 1 < length x)%nat /\ v = nth m x d /\ exists l r, is_peak leb d x l r /\ (l <= m <= r)%nat.
Proof. exact (fun Ht Htr => local_maxima_inside leb Ht Htr d x m v). Qed.
Theorem C16_peaks_ascending {A} (leb : A -> A -> bool) hok d pok x :
  StronglySorted (fun a b : nat * A => (fst a < fst b)%nat) (find_peaks_ord leb hok d pok x).
Proof. exact (find_peaks_ord_sorted leb hok d pok x). Qed.
Theorem C16_peak_conditions {A} (leb : A -> A -> bool) hok d pok x hf pf (peaks : list (nat * A)) p :
  Sub (find_peaks_ord leb hok d pok x) (local_maxima leb x) /\
  (In p (select_height hf peaks) <-> In p peaks /\ hf (snd p) = true) /\
  (In p (select_prominence leb pf x peaks) <-> In p peaks /\ pf (snd p) (prom_base leb x (fst p) (snd p)) = true).
Proof. exact (conj (find_peaks_ord_sub leb hok d pok x) (conj (select_height_in hf peaks p) (select_prominence_in leb pf x peaks p))). Qed.
Theorem C16_distance_condition {A} (leb : A -> A -> bool) (dflt : A) ord d (peaks : list (nat * A)) :
  StronglySorted (fun a b : nat * A => (fst a < fst b)%nat) peaks ->
  valid_argsort leb (map fst peaks) (fun j => nth j (map snd peaks) dflt) ord ->
  let kept := select_distance_ord ord d peaks in
  Sub kept peaks /\
  (forall p q, In p kept -> In q kept -> (fst p < fst q)%nat -> (d <= fst q - fst p)%nat) /\
  (forall p, In p peaks -> ~ In p kept ->
     exists q, In q kept /\ (fst q - fst p < d)%nat /\ (fst p - fst q < d)%nat /\ leb (snd p) (snd q) = true).
Proof. exact (select_distance_ord_spec leb dflt ord d peaks). Qed.
Theorem C16_argsort_valid {A} (leb : A -> A -> bool) (dflt : A) (pos : list nat) (ps : list A) :
  (forall a b, leb a b = true \/ leb b a = true) -> (forall a b c, leb a b = true -> leb b c = true -> leb a c = true) ->
  length pos = length ps -> valid_argsort leb pos (fun j => nth j ps dflt) (argsort leb ps).
Proof. exact (fun Ht Htr => argsort_valid leb Ht Htr dflt pos ps). Qed.
Theorem C16_distance_condition_stable {A} (leb : A -> A -> bool) (dflt : A) d (peaks : list (nat * A)) :
  (forall a b, leb a b = true \/ leb b a = true) -> (forall a b c, leb a b = true -> leb b c = true -> leb a c = true) ->
  StronglySorted (fun a b : nat * A => (fst a < fst b)%nat) peaks ->
  let kept := select_distance leb d peaks in
  Sub kept peaks /\
  (forall p q, In p kept -> In q kept -> (fst p < fst q)%nat -> (d <= fst q - fst p)%nat) /\
  (forall p, In p peaks -> ~ In p kept ->
     exists q, In q kept /\ (fst q - fst p < d)%nat /\ (fst p - fst q < d)%nat /\ leb (snd p) (snd q) = true).
Proof. exact (fun Ht Htr => select_distance_spec leb Ht Htr dflt d peaks). Qed.
Theorem C16_valid_argsort {A} (leb : A -> A -> bool) pos prio ord :
  valid_argsort leb pos prio ord <->
  Permutation ord (seq 0 (length pos)) /\ StronglySorted (fun a b : nat => leb (prio a) (prio b) = true) ord.
Proof. unfold valid_argsort. tauto. Qed.
Theorem C16_qleb x y : qleb x y = Qle_bool x y.
Proof. exact (qleb_spec x y). Qed.
Theorem C16_fast_sequences ps res r rv start stop qlen qps rlen rps peak margin :
  get_sequence_py_f ps res r rv start stop = get_sequence_py ps res r rv start stop /\
  initial_correlation_f qlen qps rlen rps res r rv = initial_correlation qlen qps rlen rps res r rv /\
  refine_correlation_f qlen qps rps rv peak res r margin = refine_correlation qlen qps rps rv peak res r margin.
Proof. exact (conj (get_sequence_py_f_eq ps res r rv start stop) (conj (initial_correlation_f_eq qlen qps rlen rps res r rv)
               (refine_correlation_f_eq qlen qps rps rv peak res r margin))). Qed.
(* the noise level: mean_square is exactly np.mean(array[array != 0] ** 2); peaks of one correlation are ranked by height *)
Theorem C16_mean_square c : let nz := filter (fun v => negb (Qeq_bool v 0)) c in
  (mean_square c == fold_right (fun v a => v * v + a) 0 nz / inject_Z (Z.of_nat (length nz)))%Q.
Proof. exact (SeedingProofs3.mean_square_spec c). Qed.
Theorem C16_score_same_correlation a b : (0 <= pp_noise2 a)%Q -> pp_noise2 a = pp_noise2 b ->
  score_leb a b = score_leb_spec a b /\ score_leb a b = Qle_bool (pp_height a) (pp_height b).
Proof. exact (SeedingProofs3.score_leb_same_correlation a b). Qed.
Theorem C16_seeds_at_most_peaksCount sp refs q sds : seeds_res sp refs q = Ok sds ->
  (length sds <= pcount sp)%nat /\ forall sd, In sd sds -> In (sd_ref sd) refs.
Proof. exact (seeds_res_spec sp refs q sds). Qed.
Theorem C16_seeds_model_ok sp refs : seeds_ok refs (seeds_model sp).
Proof. exact (seeds_model_ok sp refs). Qed.

(* ---------- non-vacuity ---------- *)
(* plateaus: [3;3;3] at 1..3 -> midpoint 2; [5;5] at 5..6 -> midpoint (5+6)//2 = 5; the plateau [4;4] touches the right edge: no peak *)
Example C16_ex_local_maxima :
  local_maxima Z.leb [1;3;3;3;2;5;5;1;4;4] = [(2%nat, 3); (5%nat, 5)] /\ is_peak Z.leb 0 [1;3;3;3;2;5;5;1;4;4] 1 3 /\
  local_maxima Z.leb [0;2;2;1;2;2;2;2;0;3;0;2;3] = [(1%nat, 2); (5%nat, 2); (9%nat, 3)].
Proof. split; [vm_compute; reflexivity|]. split; [|vm_compute; reflexivity]. unfold is_peak. cbn [length]. repeat split; try lia.
  intros k Hk. assert (k = 1 \/ k = 2 \/ k = 3)%nat as [->|[->| ->]] by lia; reflexivity. Qed.
(* two peaks of equal height 5 at 1 and 3 (and 6 at 8 and 10), distance 3: numpy's argsort may list the equal ones in either order;
   the stable order keeps 3 and 10, another valid argsort keeps 1 and 10 *)
Example C16_ex_distance_tie :
  let x := [0;5;0;5;5;0;4;0;6;1;6;0] in let pk := local_maxima Z.leb x in
  pk = [(1%nat, 5); (3%nat, 5); (6%nat, 4); (8%nat, 6); (10%nat, 6)] /\
  argsort Z.leb (map snd pk) = [2; 0; 1; 3; 4]%nat /\
  select_distance Z.leb 3 pk = [(3%nat, 5); (6%nat, 4); (10%nat, 6)] /\
  valid_argsort Z.leb (map fst pk) (fun j => nth j (map snd pk) 0) [2; 1; 0; 3; 4]%nat /\
  select_distance_ord [2; 1; 0; 3; 4]%nat 3 pk = [(1%nat, 5); (6%nat, 4); (10%nat, 6)].
Proof. cbv zeta. split; [vm_compute; reflexivity|]. split; [vm_compute; reflexivity|]. split; [vm_compute; reflexivity|]. split; [|vm_compute; reflexivity].
  split.
  - vm_compute. apply (perm_trans (l' := [1; 2; 0; 3; 4]%nat)); [apply perm_swap|]. apply (perm_trans (l' := [1; 0; 2; 3; 4]%nat)); [apply perm_skip, perm_swap | apply perm_swap].
  - repeat constructor. Qed.
(* the two calls of COMA: refine (integers; height >= 27, prominence >= 0.05 * 40 = 2) and the primary call (height >= 0.75 * 1, distance 2) *)
Example C16_ex_find_peaks :
  find_peaks_refine [0;30;0;29;40;40;12;39;0;28;27;0] (27 # 1) = [(1%nat, 30); (4%nat, 40); (7%nat, 39); (9%nat, 28)] /\
  find_peaks_initial [0#1; 1#2; 0#1; 3#4; 1#3; 1#1; 1#1; 2#4; 4#5; 0#1]%Q 2 = [(3%nat, 3 # 4); (5%nat, 1); (8%nat, 4 # 5)]%Q.
Proof. vm_compute. split; reflexivity. Qed.
(* the whole seeding stage on a small map (unit: tenths of a bp; primary resolution 10 bp, blur 1, minPeakDistance 20 bp, peaksCount 3,
   secondary resolution 5 bp, blur 1, margin 40 bp, peakHeightThreshold 2): the query is the copy of reference labels 2..5;
   the first seed is the forward one at bin 7 (70 bp = the true diagonal 700/10), refined to 71 and 101 bp *)
Example C16_ex_seeds :
  let R := mkMap 1 4000 [0; 700; 1000; 1600; 2000; 2300; 3100; 3500] 0 in
  let q := mkMap 7 1310 [0; 300; 900; 1300] 0 in
  let sp := mkSP 10 1 20 3 5 1 40 (2 # 1) in
  match all_primary sp [R] q with Ok l => map (fun p => (pp_rev p, pp_pos p)) l = [(false, 74); (true, 64); (true, 104); (true, 194)] | Err => False end /\
  match seeds_res sp [R] q with
  | Ok l => map (fun s => (mid (sd_ref s), sd_rev s, sd_peaks s)) l = [(1, false, [710; 1010]); (1, true, [310; 610; 1010]); (1, true, [1610; 1910])]
  | Err => False end.
Proof. vm_compute. split; reflexivity. Qed.

Print Assumptions C16_is_peak.
Print Assumptions C16_local_maxima.
Print Assumptions C16_local_maxima_inside.
Print Assumptions C16_peaks_ascending.
Print Assumptions C16_peak_conditions.
Print Assumptions C16_distance_condition.
Print Assumptions C16_argsort_valid.
Print Assumptions C16_distance_condition_stable.
Print Assumptions C16_valid_argsort.
Print Assumptions C16_qleb.
Print Assumptions C16_fast_sequences.
Print Assumptions C16_mean_square.
Print Assumptions C16_score_same_correlation.
Print Assumptions C16_seeds_at_most_peaksCount.
Print Assumptions C16_seeds_model_ok.

(* C18 — XMAP written by COMA reads back to the same alignments.
   Model: model/Xmap.v — xmap_write_lines = the data lines XmapReader.writeAlignments emits (DataFrame.to_csv, tab separated, index 1..n);
   xmap_read_lines = what XmapReader(XmapAlignmentPairWithDistanceParser(refs, qrys)).readAlignments returns for these data lines
   (exceptions as XErr with their Python type).  The header lines (all starting with '#') are skipped by the reader (comment='#')
   and are compared by the harness only.  Units: the writer takes coordinates/lengths in tenths of a base pair and the confidence in
   hundredths (the values "{:.1f}" / "{:.2f}" print exactly); the reader returns whole base pairs (int(): truncation toward zero,
   Z.quot) and the confidence in hundredths.  The output modes only choose WHICH rows are handed to writeAlignments, so the
   quantification over all lists of rows covers them.
   This file contains only statements; every proof is `exact <lemma>`. *)
From Coq Require Import ZArith List Bool String Ascii.
Import ListNotations.
Require Import Py Cigar Xmap CigarProofs2 XmapProofs1 XmapProofs2.
Open Scope Z_scope.

(* ---- codecs of the single fields ---- *)
(* str.split(c) undoes c.join(fields) when no field contains c (no_char c s: no character of s equals c) *)
Theorem C18_split_join c fields : fields <> [] -> Forall (fun s => no_char c s = true) fields -> split_on c (join c fields) = fields.
Proof. exact (split_join c fields). Qed.
(* integers (ids, site ids, the index column), any sign *)
Theorem C18_codec_int z : parse_int (print_int z) = Some z.
Proof. exact (parse_print_int z). Qed.
(* "{:.1f}" of z tenths reads back as z tenths, "{:.2f}" of z hundredths as z hundredths, any sign *)
Theorem C18_codec_tenths z : parse_decimal1 (print_tenths z) = Some z.
Proof. exact (parse_print_tenths z). Qed.
Theorem C18_codec_hundredths z : parse_decimal2 (print_hundredths z) = Some z.
Proof. exact (parse_print_hundredths z). Qed.
(* int(float(text)) of a written coordinate: the written value truncated toward zero to whole base pairs *)
Theorem C18_codec_trunc z : parse_trunc (print_tenths z) = Some (Z.quot z 10).
Proof. exact (parse_trunc_tenths z). Qed.
(* the Alignment column "(r,q)(r,q)...": alignment[:-1].replace('(', '').split(')') and int() of both halves give the site ids back
   (any integers, not only positive ones); the list must be non-empty (an empty field is read as NaN) *)
Theorem C18_codec_pairs ps : ps <> [] -> parse_pairs (print_pairs ps) = Some ps.
Proof. exact (parse_print_pairs ps). Qed.

(* ---- the property ---- *)
(* row_ok refs qrys r: the reference and query maps of the record are among refs / qrys, every site id s of a pair satisfies
   1 <= s <= number of labels of its map, the record has at least one pair (the writer is never handed a record without pairs) and
   at least one HitEnum run (C03: a record with a pair has a non-empty HitEnum; an empty field would be read as NaN).
   expected refs qrys (i, r): alignmentId = i, same query/reference id, coordinates and lengths = Z.quot _ 10, reverseStrand = x_rev,
   confidence = x_conf, cigarString = render (x_runs r), pairs = the same site ids with the positions of those labels on the first map
   with that id, distance relative to the first pair as calculateDistance computes it. *)
Theorem C18_line refs qrys i r : row_ok refs qrys r -> read_line refs qrys (write_row i r) = XOk (expected refs qrys (i, r)).
Proof. exact (read_write_row refs qrys i r). Qed.

(* any number of records, including none and one *)
Theorem C18_roundtrip refs qrys rows : Forall (row_ok refs qrys) rows ->
  xmap_read_lines (xmap_write_lines rows) refs qrys = XOk (map (expected refs qrys) (number rows)).
Proof. exact (roundtrip refs qrys rows). Qed.

(* one alignment per record, in file order, numbered from 1 *)
Theorem C18_one_per_record refs qrys rows : Forall (row_ok refs qrys) rows ->
  exists als, xmap_read_lines (xmap_write_lines rows) refs qrys = XOk als /\ List.length als = List.length rows /\
    forall k d, (k < List.length rows)%nat ->
      nth k als (expected refs qrys (1 + Z.of_nat k, d)) = expected refs qrys (1 + Z.of_nat k, nth k rows d).
Proof. exact (roundtrip_nth refs qrys rows). Qed.

(* the HitEnum text that comes back is the text of C03 and decodes to the runs that were written *)
Theorem C18_hitenum refs qrys ir : exists s, a_cigar (expected refs qrys ir) = Some s /\ parse_hit s = Some (x_runs (snd ir)).
Proof. exact (cigar_decodes refs qrys ir). Qed.

(* the boolean test the harness evaluates implies the hypothesis of the theorems *)
Theorem C18_row_okb refs qrys r : row_okb refs qrys r = true -> row_ok refs qrys r.
Proof. exact (row_okb_sound refs qrys r). Qed.

(* ---- non-vacuity and regressions ---- *)
Definition ex_refs : list omap := [(5, [100; 200]); (2, [1000; 2500; 4000; 9000])].
Definition ex_qrys : list omap := [(7, [300; 1800; 3300; 5000])].
(* reverse strand, second-pass record (AlignedRest = True), negative confidence, a coordinate below one base pair *)
Definition ex_row1 : xrow :=
  {| x_qid := 7; x_rid := 2; x_qstart := 33000; x_qend := 3005; x_rstart := 10000; x_rend := 90009; x_rev := true; x_conf := -50;
     x_runs := [(2%nat, M); (1%nat, D); (1%nat, M)]; x_qlen := 53019; x_rlen := 5; x_rest := true; x_pairs := [(1, 3); (2, 2); (4, 1)] |}.
Definition ex_row2 : xrow :=
  {| x_qid := 7; x_rid := 5; x_qstart := 3000; x_qend := 3000; x_rstart := 2000; x_rend := 2000; x_rev := false; x_conf := 100025;
     x_runs := [(1%nat, M)]; x_qlen := 53010; x_rlen := 3010; x_rest := false; x_pairs := [(2, 1)] |}.

Example C18_rows_ok : Forall (row_ok ex_refs ex_qrys) [ex_row1; ex_row2].
Proof. apply Forall_cons; [|apply Forall_cons; [|apply Forall_nil]]; apply row_okb_sound; vm_compute; reflexivity. Qed.
Example C18_written : xmap_write_lines [ex_row1; ex_row2] =
  [ String.concat (String TAB "") ["1"; "7"; "2"; "3300.0"; "300.5"; "1000.0"; "9000.9"; "-"; "-0.50"; "2M1D1M"; "5301.9"; "0.5"; "True"; "1"; "(1,3)(2,2)(4,1)"];
    String.concat (String TAB "") ["2"; "7"; "5"; "300.0"; "300.0"; "200.0"; "200.0"; "+"; "1000.25"; "1M"; "5301.0"; "301.0"; "False"; "1"; "(2,1)"] ]%string.
Proof. vm_compute. reflexivity. Qed.
Example C18_read_back : xmap_read_lines (xmap_write_lines [ex_row1; ex_row2]) ex_refs ex_qrys =
  XOk [ {| a_id := 1; a_qid := 7; a_rid := 2; a_qstart := 3300; a_qend := 300; a_rstart := 1000; a_rend := 9000; a_rev := true;
           a_conf := -50; a_cigar := Some "2M1D1M"%string; a_qlen := 5301; a_rlen := 0;
           a_pairs := [(1, 1000, 3, 3300, 0); (2, 2500, 2, 1800, 0); (4, 9000, 1, 300, -5000)] |};
        {| a_id := 2; a_qid := 7; a_rid := 5; a_qstart := 300; a_qend := 300; a_rstart := 200; a_rend := 200; a_rev := false;
           a_conf := 100025; a_cigar := Some "1M"%string; a_qlen := 5301; a_rlen := 301; a_pairs := [(2, 200, 1, 300, 0)] |} ].
Proof. vm_compute. reflexivity. Qed.
(* zero records: now [], before the repair an AttributeError; one record *)
Example C18_zero_records : xmap_write_lines [] = [] /\ xmap_read_lines [] ex_refs ex_qrys = XOk [].
Proof. split; reflexivity. Qed.
Example C18_zero_records_before_repair : xmap_read_lines_gen false [] ex_refs ex_qrys = XErr EAttr.
Proof. reflexivity. Qed.
Example C18_one_record : xmap_read_lines (xmap_write_lines [ex_row2]) ex_refs ex_qrys = XOk [expected ex_refs ex_qrys (1, ex_row2)].
Proof. vm_compute. reflexivity. Qed.
(* sign handling: -0.5 is printed "-0.5" and int(-0.5) = 0; -12.7 truncates to -12 *)
Example C18_negative_half : print_tenths (-5) = "-0.5"%string /\ parse_trunc "-0.5" = Some 0 /\ parse_trunc (print_tenths (-127)) = Some (-12).
Proof. vm_compute. repeat split; reflexivity. Qed.
(* outside the hypotheses the model behaves as the code does: a missing map is StopIteration, a site id beyond the map IndexError,
   site id 0 silently reads positions[-1] (Python negative index), a record without pairs TypeError *)
Example C18_missing_map : xmap_read_lines (xmap_write_lines [ex_row2]) [(2, [1000])] ex_qrys = XErr EStop.
Proof. vm_compute. reflexivity. Qed.
Example C18_site_beyond_map : xmap_read_lines (xmap_write_lines [ex_row2]) [(5, [100])] ex_qrys = XErr EIndex.
Proof. vm_compute. reflexivity. Qed.
Example C18_site_zero : parse_alignment ex_refs ex_qrys "(0,1)" 7 5 false = XOk [(0, 200, 1, 300, 0)].
Proof. vm_compute. reflexivity. Qed.
Example C18_no_pairs : parse_alignment ex_refs ex_qrys "" 7 5 false = XErr EType.
Proof. reflexivity. Qed.

Print Assumptions C18_split_join.
Print Assumptions C18_codec_int.
Print Assumptions C18_codec_tenths.
Print Assumptions C18_codec_hundredths.
Print Assumptions C18_codec_trunc.
Print Assumptions C18_codec_pairs.
Print Assumptions C18_line.
Print Assumptions C18_roundtrip.
Print Assumptions C18_one_per_record.
Print Assumptions C18_hitenum.
Print Assumptions C18_row_okb.

(* ================================================================== the files of a WHOLE RUN (model/Coordinator.v) ================ *)
(* C18_roundtrip quantifies over row lists satisfying row_ok.  This section shows that the row lists Coordinator.program_run hands to
   writeAlignments satisfy it: "every XMAP file COMA writes, including one with zero records, can be read back by the project's own
   reader", at the level of the run model, for every seeding function with seeds_ok and every mode.
   Hypotheses: SU <= 0 < MS; seeds_ok refs seeds; references with shift 0, strictly ascending positions and DISTINCT ids (the reader takes the
   first map with the record's id: next(m for m in maps if m.moleculeId == id)); queries AS READ (q0s) with shift 0, strictly ascending
   positions, at least one label, distinct ids; the run is on the trimmed queries (Program.__readMaps).
   The reader is constructed with the two CMAP files as read: R = map xmap_of refs, Q = map xmap_of q0s (xmap_of m = (mid m, mpositions m);
   trimming changes neither ids nor numbers of labels).
   Printing: Record.xrow_of w = cigar_runs of the listed pairs, then Record.xrow_of_row (coordinates/lengths in tenths as they are, confidence
   5 * conf: 1/20 -> hundredths).  row_ok asks nothing of coordinates, lengths or confidence (C18_codec_tenths / _hundredths are exact for all
   integers), so the unit conversion needs no side condition.
   A file (row list) is READABLE when cigarString succeeds on every row with at least one run (xs = the printed dicts), every printed record
   satisfies row_ok R Q, and the reader returns XOk with exactly the alignments `expected` of C18_roundtrip: one per record, in order,
   numbered from 1.
   Covered without further hypothesis: every file that holds no joined row — _1 and _2 of `all`, _1 of `joined`, main and _1 of `separate`
   (a file that was not written, o_1/o_2 = None, counts as the empty row list; an empty file is readable: C18_zero_records).
   Main files of best / joined / all: every row is a valid matching (row_matching) or a joined row (joined_row: AlignmentResultRow.resolve of
   two valid rows); they are readable under the EXPLICIT hypothesis that their joined rows are valid matchings — that hypothesis is not a
   theorem (open finding F10: a joined row need not be a valid matching).
   row_matching refs q0s w := exists r q0, In r refs /\ In q0 q0s /\ rid w = mid r /\ qid w = mid q0 /\
                              valid_row (nlabels r) 1 (nlabels q0) (rrev w) (site_pairs (rsegs w))          (proofs/RunRecordProofs2.v)
   joined_row refs q0s w   := exists a b, row_matching refs q0s a /\ row_matching refs q0s b /\ join_rows a b = Ok w *)
Require Import Pairing Core Multi Coordinator Checkers CheckersProofs Cmap Record RecordProofs1 RunProofs2 RunProofs3
  RunRecordProofs1 RunRecordProofs2 RunRecordProofs3.

(* one record: a valid matching of labels of two maps of the files prints to a well-formed record *)
Theorem C18_matching_row_ok (refs q0s : list Pairing.omap) (w : Multi.row) :
  NoDup (map mid refs) -> NoDup (map mid q0s) -> row_matching refs q0s w ->
  exists runs, cigar_runs (site_pairs (rsegs w)) = Ok runs /\ runs <> [] /\ xrow_of w = Ok (xrow_of_row w runs) /\
               row_ok (map xmap_of refs) (map xmap_of q0s) (xrow_of_row w runs).
Proof. exact (fun Hr Hq => matching_row_ok refs q0s Hr Hq w). Qed.

Theorem C18_run_files_readable P (seeds : seeding) (refs q0s : list Pairing.omap) m maxdiff o :
  SU P <= 0 -> 0 < MS P -> seeds_ok refs seeds ->
  (forall r, In r refs -> mshift r = 0 /\ ascending r) ->
  (forall q0, In q0 q0s -> mshift q0 = 0 /\ ascending q0 /\ mpositions q0 <> []) ->
  NoDup (map mid refs) -> NoDup (map mid q0s) ->
  program_run P seeds m maxdiff refs (map trim q0s) = Ok o ->
  let R := map xmap_of refs in let Q := map xmap_of q0s in
  let readable (rows : list Multi.row) :=
    exists xs, mapM xrow_of rows = Ok xs /\
      Forall2 (fun w x => exists runs, cigar_runs (site_pairs (rsegs w)) = Ok runs /\ runs <> [] /\ x = xrow_of_row w runs) rows xs /\
      Forall (row_ok R Q) xs /\
      xmap_read_lines (xmap_write_lines xs) R Q = XOk (map (expected R Q) (number xs)) /\
      List.length (map (expected R Q) (number xs)) = List.length rows in
  readable (opt_rows (o_1 o)) /\ readable (opt_rows (o_2 o)) /\
  (m = Separate -> readable (o_main o)) /\
  ((forall w, In w (o_main o) -> joined_row refs q0s w -> row_matching refs q0s w) -> readable (o_main o)) /\
  (forall w, In w (o_main o) -> row_matching refs q0s w \/ (m <> Separate /\ joined_row refs q0s w)).
Proof. exact (fun Hsu Hms Hs Hr Hq Hrid Hqid => run_files_readable P seeds refs q0s Hsu Hms Hs Hr Hq Hrid Hqid m maxdiff o). Qed.

(* the same when the run is handed trimmed queries (trim leaves them unchanged; the reader gets them as they are) *)
Theorem C18_run_files_readable_trimmed P (seeds : seeding) (refs qq : list Pairing.omap) m maxdiff o :
  SU P <= 0 -> 0 < MS P -> seeds_ok refs seeds ->
  (forall r, In r refs -> mshift r = 0 /\ ascending r) -> NoDup (map mid refs) ->
  (forall q, In q qq -> trimmed q) -> NoDup (map mid qq) ->
  program_run P seeds m maxdiff refs qq = Ok o ->
  file_readable refs qq (opt_rows (o_1 o)) /\ file_readable refs qq (opt_rows (o_2 o)) /\
  (m = Separate -> file_readable refs qq (o_main o)) /\
  ((forall w, In w (o_main o) -> joined_row refs qq w -> row_matching refs qq w) -> file_readable refs qq (o_main o)) /\
  (forall w, In w (o_main o) -> row_matching refs qq w \/ (m <> Separate /\ joined_row refs qq w)).
Proof. exact (fun Hsu Hms Hs Hr Hrid => run_files_readable_trimmed P seeds refs Hsu Hms Hs Hr Hrid qq m maxdiff o). Qed.

(* the fields that come back, in terms of the row that was printed: whole base pairs (truncation of tenths), the confidence in hundredths
   = 5 * (confidence in 1/20), the rendered HitEnum, the listed site ids *)
Theorem C18_run_record_fields R Q i (w : Multi.row) runs :
  let a := expected R Q (i, xrow_of_row w runs) in
  a_id a = i /\ a_qid a = qid w /\ a_rid a = Multi.rid w /\
  a_qstart a = Z.quot (qs w) 10 /\ a_qend a = Z.quot (qe w) 10 /\ a_rstart a = Z.quot (rs w) 10 /\ a_rend a = Z.quot (re w) 10 /\
  a_rev a = rrev w /\ a_conf a = 5 * conf w /\ a_cigar a = Some (render runs) /\
  a_qlen a = Z.quot (qlen w) 10 /\ a_rlen a = Z.quot (rlen w) 10 /\
  map (fun x => match x with (rsite, _, qsite, _, _) => (rsite, qsite) end) (a_pairs a) = site_pairs (rsegs w).
Proof. exact (expected_of_row R Q i w runs). Qed.

(* non-vacuity: the run of proofs/ModesExamples.v with its query read at an offset of 1234.5 bp (rr_q0s; reference rr_refs) meets the
   hypotheses, and every file of every mode — written by xmap_write_lines from the rows of program_run, read back by xmap_read_lines with the
   maps as read — comes back: per file (number of data lines, every printed record passes row_okb, alignments as (alignmentId, queryId,
   referenceId, (qryStart, qryEnd, refStart, refEnd), reverseStrand, confidence, cigarString, (qryLen, refLen), [(rsite, qsite, distance)])).
   `joined` with maxDifference just below the gap joins nothing: its main file has ZERO records and reads back as [] *)
Example C18_run_files_nonvacuous :
  SU ModesExamples.ex_P <= 0 /\ 0 < MS ModesExamples.ex_P /\ seeds_ok rr_refs ModesExamples.ex_seeds /\
  (forall r, In r rr_refs -> mshift r = 0 /\ ascending r) /\
  (forall q0, In q0 rr_q0s -> mshift q0 = 0 /\ ascending q0 /\ mpositions q0 <> []) /\
  NoDup (map mid rr_refs) /\ NoDup (map mid rr_q0s) /\
  let first_ := (1, 7, 1, (0, 51000, 10000, 61000), false, 600000, Some "6M"%string, (142001, 2000000),
                 [(1, 1, 0); (2, 2, 0); (3, 3, 0); (4, 4, 0); (5, 5, 0); (6, 6, 0)]) in
  let second_ i := (i, 7, 1, (92000, 142000, 72000, 122000), false, 600000, Some "6M"%string, (142001, 2000000),
                    [(7, 7, 0); (8, 8, 0); (9, 9, 0); (10, 10, 0); (11, 11, 0); (12, 12, 0)]) in
  let joined_ := (1, 7, 1, (0, 142000, 10000, 122000), false, 1200000, Some "12M"%string, (142001, 2000000),
                  [(1, 1, 0); (2, 2, 0); (3, 3, 0); (4, 4, 0); (5, 5, 0); (6, 6, 0);
                   (7, 7, 300000); (8, 8, 300000); (9, 9, 300000); (10, 10, 300000); (11, 11, 300000); (12, 12, 300000)]) in
  rr_run_read Separate 110000 = Some (Some (1%nat, true, Some [first_]), Some (Some (1%nat, true, Some [second_ 1])), None) /\
  rr_run_read Joined 109999 = Some (Some (0%nat, true, Some []), Some (Some (2%nat, true, Some [first_; second_ 2])), None) /\
  rr_run_read All_ 110000 = Some (Some (1%nat, true, Some [joined_]), Some (Some (1%nat, true, Some [first_])), Some (Some (1%nat, true, Some [second_ 1]))) /\
  rr_run_read Best 110000 = Some (Some (1%nat, true, Some [joined_]), None, None).
Proof. split; [discriminate|]. split; [reflexivity|]. split; [exact RunProofs4.ex_seeds_ok|]. split; [exact rr_refs_ok|].
  split; [exact rr_q0s_ok|]. split; [exact rr_rid|]. split; [exact rr_qid|]. vm_compute. repeat split; reflexivity. Qed.
(* the data lines of the `joined` run's _1 file (two records, XmapEntryID 1 and 2) and what the reader returns for them, in full *)
Example C18_run_file_in_full :
  rr_run Joined 109999 =
    Some (Some ([], XOk []),
          Some (Some ([ ["1"; "7"; "1"; "0.0"; "51000.0"; "10000.0"; "61000.0"; "+"; "6000.00"; "6M"; "142001.0"; "2000000.0"; "False"; "1";
                         "(1,1)(2,2)(3,3)(4,4)(5,5)(6,6)"];
                        ["2"; "7"; "1"; "92000.0"; "142000.0"; "72000.0"; "122000.0"; "+"; "6000.00"; "6M"; "142001.0"; "2000000.0"; "True"; "1";
                         "(7,7)(8,8)(9,9)(10,10)(11,11)(12,12)"] ]%string,
                      XOk [ {| a_id := 1; a_qid := 7; a_rid := 1; a_qstart := 0; a_qend := 51000; a_rstart := 10000; a_rend := 61000; a_rev := false;
                               a_conf := 600000; a_cigar := Some "6M"%string; a_qlen := 142001; a_rlen := 2000000;
                               a_pairs := [(1, 100000, 1, 12345, 0); (2, 170000, 2, 82345, 0); (3, 290000, 3, 202345, 0);
                                           (4, 380000, 4, 292345, 0); (5, 530000, 5, 442345, 0); (6, 610000, 6, 522345, 0)] |};
                            {| a_id := 2; a_qid := 7; a_rid := 1; a_qstart := 92000; a_qend := 142000; a_rstart := 72000; a_rend := 122000; a_rev := false;
                               a_conf := 600000; a_cigar := Some "6M"%string; a_qlen := 142001; a_rlen := 2000000;
                               a_pairs := [(7, 720000, 7, 932345, 0); (8, 780000, 8, 992345, 0); (9, 910000, 9, 1122345, 0);
                                           (10, 1005000, 10, 1217345, 0); (11, 1145000, 11, 1357345, 0); (12, 1220000, 12, 1432345, 0)] |} ])),
          None).
Proof. vm_compute. reflexivity. Qed.

Print Assumptions C18_matching_row_ok.
Print Assumptions C18_run_files_readable.
Print Assumptions C18_run_files_readable_trimmed.
Print Assumptions C18_run_record_fields.

(* C18 — XMAP written by COMA reads back to the same alignments.
   Model: model/Xmap.v — xmap_write_lines = the data lines XmapReader.writeAlignments emits (DataFrame.to_csv, tab separated, index 1..n);
   xmap_read_lines = what XmapReader(XmapAlignmentPairWithDistanceParser(refs, qrys)).readAlignments returns for these data lines
   (exceptions as XErr with their Python type).  The header lines (all starting with '#') are skipped by the reader (comment='#')
   and are compared by the harness only.  Units: the writer takes coordinates/lengths in tenths of a base pair and the confidence in
   hundredths (the values "{:.1f}" / "{:.2f}" print exactly); the reader returns whole base pairs (int(): truncation toward zero,
   Z.quot) and the confidence in hundredths.  The output modes only choose WHICH rows are handed to writeAlignments, so the
   quantification over all lists of rows covers them.
   This file contains only statements; every proof is `exact <lemma>`. *)
From Coq Require Import ZArith List Bool String Ascii.
Import ListNotations.
Require Import Py Cigar Xmap CigarProofs2 XmapProofs1 XmapProofs2.
Open Scope Z_scope.

(* ---- codecs of the single fields ---- *)
(* str.split(c) undoes c.join(fields) when no field contains c (no_char c s: no character of s equals c) *)
Theorem C18_split_join c fields : fields <> [] -> Forall (fun s => no_char c s = true) fields -> split_on c (join c fields) = fields.
Proof. exact (split_join c fields). Qed.
(* integers (ids, site ids, the index column), any sign *)
Theorem C18_codec_int z : parse_int (print_int z) = Some z.
Proof. exact (parse_print_int z). Qed.
(* "{:.1f}" of z tenths reads back as z tenths, "{:.2f}" of z hundredths as z hundredths, any sign *)
Theorem C18_codec_tenths z : parse_decimal1 (print_tenths z) = Some z.
Proof. exact (parse_print_tenths z). Qed.
Theorem C18_codec_hundredths z : parse_decimal2 (print_hundredths z) = Some z.
Proof. exact (parse_print_hundredths z). Qed.
(* int(float(text)) of a written coordinate: the written value truncated toward zero to whole base pairs *)
Theorem C18_codec_trunc z : parse_trunc (print_tenths z) = Some (Z.quot z 10).
Proof. exact (parse_trunc_tenths z). Qed.
(* the Alignment column "(r,q)(r,q)...": alignment[:-1].replace('(', '').split(')') and int() of both halves give the site ids back
   (any integers, not only positive ones); the list must be non-empty (an empty field is read as NaN) *)
Theorem C18_codec_pairs ps : ps <> [] -> parse_pairs (print_pairs ps) = Some ps.
Proof. exact (parse_print_pairs ps). Qed.

(* ---- the property ---- *)
(* row_ok refs qrys r: the reference and query maps of the record are among refs / qrys, every site id s of a pair satisfies
   1 <= s <= number of labels of its map, the record has at least one pair (the writer is never handed a record without pairs) and
   at least one HitEnum run (C03: a record with a pair has a non-empty HitEnum; an empty field would be read as NaN).
   expected refs qrys (i, r): alignmentId = i, same query/reference id, coordinates and lengths = Z.quot _ 10, reverseStrand = x_rev,
   confidence = x_conf, cigarString = render (x_runs r), pairs = the same site ids with the positions of those labels on the first map
   with that id, distance relative to the first pair as calculateDistance computes it. *)
Theorem C18_line refs qrys i r : row_ok refs qrys r -> read_line refs qrys (write_row i r) = XOk (expected refs qrys (i, r)).
Proof. exact (read_write_row refs qrys i r). Qed.

(* any number of records, including none and one *)
Theorem C18_roundtrip refs qrys rows : Forall (row_ok refs qrys) rows ->
  xmap_read_lines (xmap_write_lines rows) refs qrys = XOk (map (expected refs qrys) (number rows)).
Proof. exact (roundtrip refs qrys rows). Qed.

(* one alignment per record, in file order, numbered from 1 *)
Theorem C18_one_per_record refs qrys rows : Forall (row_ok refs qrys) rows ->
  exists als, xmap_read_lines (xmap_write_lines rows) refs qrys = XOk als /\ List.length als = List.length rows /\
    forall k d, (k < List.length rows)%nat ->
      nth k als (expected refs qrys (1 + Z.of_nat k, d)) = expected refs qrys (1 + Z.of_nat k, nth k rows d).
Proof. exact (roundtrip_nth refs qrys rows). Qed.

(* the HitEnum text that comes back is the text of C03 and decodes to the runs that were written *)
Theorem C18_hitenum refs qrys ir : exists s, a_cigar (expected refs qrys ir) = Some s /\ parse_hit s = Some (x_runs (snd ir)).
Proof. exact (cigar_decodes refs qrys ir). Qed.

(* the boolean test the harness evaluates implies the hypothesis of the theorems *)
Theorem C18_row_okb refs qrys r : row_okb refs qrys r = true -> row_ok refs qrys r.
Proof. exact (row_okb_sound refs qrys r). Qed.

(* ---- non-vacuity and regressions ---- *)
Definition ex_refs : list omap := [(5, [100; 200]); (2, [1000; 2500; 4000; 9000])].
Definition ex_qrys : list omap := [(7, [300; 1800; 3300; 5000])].
(* reverse strand, second-pass record (AlignedRest = True), negative confidence, a coordinate below one base pair *)
Definition ex_row1 : xrow :=
  {| x_qid := 7; x_rid := 2; x_qstart := 33000; x_qend := 3005; x_rstart := 10000; x_rend := 90009; x_rev := true; x_conf := -50;
     x_runs := [(2%nat, M); (1%nat, D); (1%nat, M)]; x_qlen := 53019; x_rlen := 5; x_rest := true; x_pairs := [(1, 3); (2, 2); (4, 1)] |}.
Definition ex_row2 : xrow :=
  {| x_qid := 7; x_rid := 5; x_qstart := 3000; x_qend := 3000; x_rstart := 2000; x_rend := 2000; x_rev := false; x_conf := 100025;
     x_runs := [(1%nat, M)]; x_qlen := 53010; x_rlen := 3010; x_rest := false; x_pairs := [(2, 1)] |}.

Example C18_rows_ok : Forall (row_ok ex_refs ex_qrys) [ex_row1; ex_row2].
Proof. apply Forall_cons; [|apply Forall_cons; [|apply Forall_nil]]; apply row_okb_sound; vm_compute; reflexivity. Qed.
Example C18_written : xmap_write_lines [ex_row1; ex_row2] =
  [ String.concat (String TAB "") ["1"; "7"; "2"; "3300.0"; "300.5"; "1000.0"; "9000.9"; "-"; "-0.50"; "2M1D1M"; "5301.9"; "0.5"; "True"; "1"; "(1,3)(2,2)(4,1)"];
    String.concat (String TAB "") ["2"; "7"; "5"; "300.0"; "300.0"; "200.0"; "200.0"; "+"; "1000.25"; "1M"; "5301.0"; "301.0"; "False"; "1"; "(2,1)"] ]%string.
Proof. vm_compute. reflexivity. Qed.
Example C18_read_back : xmap_read_lines (xmap_write_lines [ex_row1; ex_row2]) ex_refs ex_qrys =
  XOk [ {| a_id := 1; a_qid := 7; a_rid := 2; a_qstart := 3300; a_qend := 300; a_rstart := 1000; a_rend := 9000; a_rev := true;
           a_conf := -50; a_cigar := Some "2M1D1M"%string; a_qlen := 5301; a_rlen := 0;
           a_pairs := [(1, 1000, 3, 3300, 0); (2, 2500, 2, 1800, 0); (4, 9000, 1, 300, -5000)] |};
        {| a_id := 2; a_qid := 7; a_rid := 5; a_qstart := 300; a_qend := 300; a_rstart := 200; a_rend := 200; a_rev := false;
           a_conf := 100025; a_cigar := Some "1M"%string; a_qlen := 5301; a_rlen := 301; a_pairs := [(2, 200, 1, 300, 0)] |} ].
Proof. vm_compute. reflexivity. Qed.
(* zero records: now [], before the repair an AttributeError; one record *)
Example C18_zero_records : xmap_write_lines [] = [] /\ xmap_read_lines [] ex_refs ex_qrys = XOk [].
Proof. split; reflexivity. Qed.
Example C18_zero_records_before_repair : xmap_read_lines_gen false [] ex_refs ex_qrys = XErr EAttr.
Proof. reflexivity. Qed.
Example C18_one_record : xmap_read_lines (xmap_write_lines [ex_row2]) ex_refs ex_qrys = XOk [expected ex_refs ex_qrys (1, ex_row2)].
Proof. vm_compute. reflexivity. Qed.
(* sign handling: -0.5 is printed "-0.5" and int(-0.5) = 0; -12.7 truncates to -12 *)
Example C18_negative_half : print_tenths (-5) = "-0.5"%string /\ parse_trunc "-0.5" = Some 0 /\ parse_trunc (print_tenths (-127)) = Some (-12).
Proof. vm_compute. repeat split; reflexivity. Qed.
(* outside the hypotheses the model behaves as the code does: a missing map is StopIteration, a site id beyond the map IndexError,
   site id 0 silently reads positions[-1] (Python negative index), a record without pairs TypeError *)
Example C18_missing_map : xmap_read_lines (xmap_write_lines [ex_row2]) [(2, [1000])] ex_qrys = XErr EStop.
Proof. vm_compute. reflexivity. Qed.
Example C18_site_beyond_map : xmap_read_lines (xmap_write_lines [ex_row2]) [(5, [100])] ex_qrys = XErr EIndex.
Proof. vm_compute. reflexivity. Qed.
Example C18_site_zero : parse_alignment ex_refs ex_qrys "(0,1)" 7 5 false = XOk [(0, 200, 1, 300, 0)].
Proof. vm_compute. reflexivity. Qed.
Example C18_no_pairs : parse_alignment ex_refs ex_qrys "" 7 5 false = XErr EType.
Proof. reflexivity. Qed.

Print Assumptions C18_split_join.
Print Assumptions C18_codec_int.
Print Assumptions C18_codec_tenths.
Print Assumptions C18_codec_hundredths.
Print Assumptions C18_codec_trunc.
Print Assumptions C18_codec_pairs.
Print Assumptions C18_line.
Print Assumptions C18_roundtrip.
Print Assumptions C18_one_per_record.
Print Assumptions C18_hitenum.
Print Assumptions C18_row_okb.

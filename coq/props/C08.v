(* INTERIM placeholder so that the run-model correspondence can be exercised *)
From Coq Require Import ZArith List.
Require Import Py Pairing Core Multi Coordinator.
Theorem C08_placeholder : forall w, rest (set_rest w) = true.
Proof. exact (fun w => eq_refl). Qed.
Print Assumptions C08_placeholder.

(* C08 — Output modes agree; joined records are justified by and faithful to their parts.
   Model: model/Coordinator.v (multi_execute = _MultiPassWorkflowCoordinator.execute, program_run = Program.run),
          model/Multi.v (filter_subsequent = filterOutSubsequentAlignmentsForSingleQuery, results_resolve / resolve_groups =
          AlignmentResults.resolve, check_overlap, join_rows = AlignmentResultRow.resolve), model/Core.v (resolve_pair).
   Every run-level theorem holds for EVERY seeding function `seeds`, every parameter set P, every maxDifference `maxdiff`,
   all references and queries.  Outputs: o_main = main file, o_1 / o_2 = the additional files _1 / _2.  Err = the run raises.
   Proofs: proofs/ModesProofs1.v (filter), ModesProofs2.v (groups, partition), ModesProofs3.v (join), ModesProofs4.v (runs). *)
From Coq Require Import ZArith QArith List Bool Sorting.Permutation.
Import ListNotations.
Require Import Py Pairing Core Multi Coordinator Checkers ConflictProofs ModesProofs1 ModesProofs2 ModesProofs3 ModesProofs4 ModesExamples.
Require TotalProofs3.
Open Scope Z_scope.

(* ---- the modes report the same alignments.  f1 / f2 = first-/second-pass rows, one per query each.
   `separate` writes (f1, f2) and never calls AlignmentResults.resolve: it can succeed where `joined` and `all` raise (second match);
   whenever `separate` raises, so do the other two; `joined` and `all` raise together and otherwise share the main file;
   the _1/_2 files of `all` are the main/_1 files of `separate`.  Program.run filters the main rows once more: for `separate` that is the
   identity (C08_filter_idempotent), for the joined rows it is a re-ordering by query id (C08_run: Permutation). *)
Theorem C08_modes (P : params) (seeds : seeding) (maxdiff : Z) (refs qs : list omap) :
  match program_run P seeds Separate maxdiff refs qs with
  | Err => program_run P seeds Joined maxdiff refs qs = Err /\ program_run P seeds All_ maxdiff refs qs = Err
  | Ok s => exists f1 f2, s = mkOut f1 (Some f2) None /\
      match results_resolve (f1 ++ f2) maxdiff with
      | Err => program_run P seeds Joined maxdiff refs qs = Err /\ program_run P seeds All_ maxdiff refs qs = Err
      | Ok js =>
          program_run P seeds Joined maxdiff refs qs = Ok (mkOut (filter_subsequent (fst js)) (Some (snd js)) None) /\
          program_run P seeds All_ maxdiff refs qs = Ok (mkOut (filter_subsequent (fst js)) (Some f1) (Some f2))
      end
  end.
Proof. exact (modes_agree P seeds refs qs maxdiff). Qed.

Theorem C08_separate_ignores_maxdiff P seeds refs qs d d' :
  program_run P seeds Separate d refs qs = program_run P seeds Separate d' refs qs.
Proof. exact (separate_ignores_maxdiff P seeds refs qs d d'). Qed.

(* filterOutSubsequentAlignmentsForSingleQuery: strictly ascending query ids (one row per query), a sub-list, idempotent,
   and only a re-ordering of rows whose query ids are already distinct *)
Theorem C08_filter_unique rows : ssorted qid (filter_subsequent rows) /\ NoDup (map qid (filter_subsequent rows)) /\
  forall w, In w (filter_subsequent rows) -> In w rows.
Proof. exact (conj (fs_sorted rows) (conj (fs_nodup rows) (fun w => fs_in w rows))). Qed.
Theorem C08_filter_idempotent rows : filter_subsequent (filter_subsequent rows) = filter_subsequent rows.
Proof. exact (fs_idem rows). Qed.
Theorem C08_filter_distinct rows : NoDup (map qid rows) -> Permutation (filter_subsequent rows) rows.
Proof. exact (fs_distinct_perm rows). Qed.

(* ---- AlignedRest: False on every first-pass row and every joined row, True on every second-pass row *)
Theorem C08_rest_flags P seeds maxdiff refs qs o : program_run P seeds All_ maxdiff refs qs = Ok o ->
  exists f1 f2, o_1 o = Some f1 /\ o_2 o = Some f2 /\
    Forall (fun w => rest w = false) f1 /\ Forall (fun w => rest w = true) f2 /\ Forall (fun w => rest w = false) (o_main o).
Proof. exact (rest_flags P seeds maxdiff refs qs o). Qed.

(* ---- partition.  AlignmentResults.resolve groups the rows by (reference id, query id), keeping the original order inside a group
   (both sorts are stable); of a group with >= 2 members only the first two are looked at, and when they are joined the third and later
   members are DROPPED (C08_third_member_dropped below).  After filterOutSubsequentAlignmentsForSingleQuery each of f1, f2 has at most
   one row per query, so a group has one member, or two: the first-pass row followed by the second-pass row (C08_group_bound); hence
   every single-pass row is in `separate` or is one of the two parts of exactly one joined row (Permutation = equality of multisets).
   A joined row is reported only if it has at least one pair (joined_ok j = true; repair F9 `if resolved and resolved.alignedPairs`):
   a group that passes the guard but whose join has no pair goes to `separate` like a group that fails the guard
   (C08_unjoined_group_stays_separate below). *)
Theorem C08_groups_partition rows : Permutation (concat (groups_of rows)) rows /\
  forall g, In g (groups_of rows) -> g <> [] /\ exists r c, g = filter (fun w => qid w =? c) (filter (fun w => rid w =? r) rows).
Proof. exact (conj (groups_partition rows) (groups_are_filters rows)). Qed.
Theorem C08_group_bound f1 f2 : NoDup (map qid f1) -> NoDup (map qid f2) ->
  Forall (fun g => (exists x, g = [x]) \/
                   (exists x y, g = [x; y] /\ In x f1 /\ In y f2 /\ qid x = qid y /\ rid x = rid y)) (groups_of (f1 ++ f2)).
Proof. exact (groups_shape f1 f2). Qed.
Theorem C08_partition f1 f2 maxdiff joined sep :
  NoDup (map qid f1) -> NoDup (map qid f2) -> results_resolve (f1 ++ f2) maxdiff = Ok (joined, sep) ->
  exists parts : list (row * row),
    Forall2 (fun p j => check_overlap (fst p) (snd p) maxdiff = true /\ join_rows (fst p) (snd p) = Ok j /\ joined_ok j = true) parts joined /\
    Forall (fun p => In (fst p) f1 /\ In (snd p) f2 /\ qid (fst p) = qid (snd p) /\ rid (fst p) = rid (snd p)) parts /\
    Permutation (f1 ++ f2) (sep ++ flat_map (fun p => [fst p; snd p]) parts).
Proof. exact (results_resolve_partition f1 f2 maxdiff joined sep). Qed.

(* for AlignmentResults.resolve on ANY row list: a group that is not joined — one member; first two members fail the guard; or (repair
   F9) first two members pass the guard but their join has no pair — keeps ALL its members in the un-joined rows *)
Theorem C08_unjoined_group_stays_separate rows maxdiff joined sep g : results_resolve rows maxdiff = Ok (joined, sep) ->
  In g (groups_of rows) ->
  match g with
  | x :: y :: _ => check_overlap x y maxdiff = false \/ exists j, join_rows x y = Ok j /\ joined_ok j = false
  | _ => True
  end -> incl g sep.
Proof. exact (unjoined_group_separate rows maxdiff joined sep g). Qed.

(* ---- the whole run in mode `all`, with the files of `joined` and `separate` on the same input:
   main = the joined rows re-ordered by query id (none lost: their query ids are distinct); _1 = f1; _2 = f2; the un-joined file `sep`
   of `joined` and the parts of the joined rows partition f1 ++ f2; every joined row j comes from a first-pass row a and a second-pass
   row b (justified, unfolded in C08_justified_unfold): same query, same reference, same strand, reference gap <= maxdiff,
   j = join_rows a b, j has at least one pair, and every pair of j is a pair of a or of b. *)
Theorem C08_run P seeds refs qs maxdiff o : program_run P seeds All_ maxdiff refs qs = Ok o ->
  exists f1 f2 joined sep parts,
    o = mkOut (filter_subsequent joined) (Some f1) (Some f2) /\
    program_run P seeds Joined maxdiff refs qs = Ok (mkOut (filter_subsequent joined) (Some sep) None) /\
    program_run P seeds Separate maxdiff refs qs = Ok (mkOut f1 (Some f2) None) /\
    ssorted qid f1 /\ ssorted qid f2 /\
    Forall (fun w => rest w = false) f1 /\ Forall (fun w => rest w = true) f2 /\
    NoDup (map qid joined) /\ Permutation (filter_subsequent joined) joined /\
    Forall2 (justified maxdiff f1 f2) parts joined /\
    Permutation (f1 ++ f2) (sep ++ flat_map (fun p => [fst p; snd p]) parts).
Proof. exact (all_mode_run P seeds refs qs maxdiff o). Qed.
Theorem C08_justified_unfold maxdiff f1 f2 a b j : justified maxdiff f1 f2 (a, b) j <->
  In a f1 /\ In b f2 /\ rest a = false /\ rest b = true /\
  qid a = qid b /\ rid a = rid b /\ rrev a = rrev b /\ Z.abs (Z.max (rs a) (rs b) - Z.min (re a) (re b)) <= maxdiff /\
  join_rows a b = Ok j /\ joined_ok j = true /\
  qid j = qid a /\ rid j = rid a /\ rrev j = rrev a /\ rest j = false /\
  (forall x, In x (row_pairs (rsegs j)) -> In x (row_pairs (rsegs a)) \/ In x (row_pairs (rsegs b))).
Proof. exact (conj (fun H => H) (fun H => H)). Qed.

(* ---- the guard, for AlignmentResults.resolve on ANY row list: a joined row exists only for two rows of the same query on the same
   reference and strand whose reference gap |max(starts) - min(ends)| is at most maxDifference, and it has at least one pair *)
Theorem C08_join_guard rows maxdiff joined sep j : results_resolve rows maxdiff = Ok (joined, sep) -> In j joined ->
  exists a b, In a rows /\ In b rows /\ qid a = qid b /\ rid a = rid b /\ rrev a = rrev b /\
    Z.abs (Z.max (rs a) (rs b) - Z.min (re a) (re b)) <= maxdiff /\ join_rows a b = Ok j /\ joined_ok j = true.
Proof. exact (join_guard rows maxdiff joined sep j). Qed.

(* ---- a joined row adds nothing: its pairs are pairs of segments[0] of one of the parts (hence of the union of the parts' pairs);
   ids, lengths and strand are those of the first part.  No well-formedness assumption. *)
Theorem C08_join_subset a b j : join_rows a b = Ok j ->
  forall p, In p (row_pairs (rsegs j)) -> In p (row_pairs (rsegs a)) \/ In p (row_pairs (rsegs b)).
Proof. exact (join_rows_subset a b j). Qed.
Theorem C08_join_subset_segment0 a b j : join_rows a b = Ok j ->
  exists sa ta sb tb, rsegs a = sa :: ta /\ rsegs b = sb :: tb /\
    forall p, In p (row_pairs (rsegs j)) -> In p (aligned sa) \/ In p (aligned sb).
Proof. exact (join_rows_subset0 a b j). Qed.
Theorem C08_join_header a b j : join_rows a b = Ok j ->
  qid j = qid a /\ rid j = rid a /\ qlen j = qlen a /\ rlen j = rlen a /\ rrev j = rrev a /\ rest j = false.
Proof. exact (join_rows_header a b j). Qed.
(* sharper (from ConflictProofs.resolve_pair_subrun), when the two segments[0] are well formed: the joined row is a leading run of the
   positions of the segment that starts first on the reference followed by a trailing run of the positions of the other one *)
Theorem C08_join_subrun a b j : join_rows a b = Ok j ->
  exists pa pb sa ta sb tb s1' s2',
    first_pair_rpos a = Ok pa /\ first_pair_rpos b = Ok pb /\ rsegs a = sa :: ta /\ rsegs b = sb :: tb /\ rsegs j = [s1'; s2'] /\
    let s1 := fst (join_order a b sa sb pa pb) in let s2 := snd (join_order a b sa sb pa pb) in
    (wfL s1 -> wfR s2 -> trimmed_left s1 s1' /\ trimmed_right s2 s2').
Proof. exact (join_rows_subrun a b j). Qed.

(* ---- "when the union of the parts' pairs is itself a valid matching the joined record is exactly the union".
   FULL STATEMENT (FALSE of the faithful model = of the code: open finding F7):
     forall a b j maxdiff, check_overlap a b maxdiff = true -> join_rows a b = Ok j ->
       let union := sort_by_reference_label (site_pairs_of a ++ site_pairs_of b) (duplicates removed) in
       valid_rowb nref qlo qhi (rrev a) union = true -> site_pairs_of j = union.
   AlignmentResultRow.resolve hands only segments[0] of each part to the conflict resolver; the pairs of the further segments of a part
   are lost.  Witness: first-pass row with pairs (1,1)(2,2)(3,3); second-pass row of the same query/reference/strand with two segments
   (5,5)(6,6) and (8,8)(9,9); guard holds; union = 7 pairs, a valid matching; joined row = 5 pairs, (8,8) and (9,9) are gone. *)
Theorem C08_join_is_union_refuted :
  exists (a b j : row) (maxdiff : Z),
    rest a = false /\ rest b = true /\ qid a = qid b /\ check_overlap a b maxdiff = true /\ join_rows a b = Ok j /\
    let union := site_pairs_of a ++ site_pairs_of b in
    valid_rowb 9 1 9 false union = true /\
    site_pairs_of j <> union /\ In (8, 8) union /\ ~ In (8, 8) (site_pairs_of j).
Proof. exact join_is_union_refuted. Qed.
(* proved positive part: parts of ONE segment each whose segments have no conflict region (end_overlaps = false: the second starts
   after the first ends on both sequences) are concatenated unchanged — every pair of both parts is kept and none is added.
   Missing for the full statement: parts with several segments (false, see above) and single segments with a conflict region (there the
   resolver removes the overlap from one side; that the remainder is the union when the union is valid is not proved). *)
Theorem C08_join_is_union_single_segment_partial a b j sa sb pa pb :
  rsegs a = [sa] -> rsegs b = [sb] -> first_pair_rpos a = Ok pa -> first_pair_rpos b = Ok pb ->
  end_overlaps (fst (join_order a b sa sb pa pb)) (snd (join_order a b sa sb pa pb)) = Ok false ->
  join_rows a b = Ok j ->
  row_pairs (rsegs j) = (if pa <? pb then row_pairs (rsegs a) ++ row_pairs (rsegs b) else row_pairs (rsegs b) ++ row_pairs (rsegs a)) /\
  Permutation (row_pairs (rsegs j)) (row_pairs (rsegs a) ++ row_pairs (rsegs b)).
Proof. exact (join_rows_single_no_overlap a b j sa sb pa pb). Qed.

(* ---- non-vacuity.  A whole run (default parameters, one reference of 16 labels, one query = reference labels 1-6, a 30 kb
   insertion, reference labels 7-12; the seeding function seeds the query at its true offset and its second-pass fragment 30 kb to the
   left).  First pass: pairs 1-6; second pass: pairs 7-12 (label numbers of the whole query); reference gap 11 kb = 110000 tenths. *)
Example C08_example_joined_at_bound :
  ex_run All_ 110000 = Some ([ex_p16 ++ ex_p712], Some [ex_p16], Some [ex_p712]) /\
  ex_run Joined 110000 = Some ([ex_p16 ++ ex_p712], Some [], None) /\
  ex_run Separate 110000 = Some ([ex_p16], Some [ex_p712], None).
Proof. vm_compute. repeat split; reflexivity. Qed.
Example C08_example_not_joined_below_bound :
  ex_run All_ 109999 = Some ([], Some [ex_p16], Some [ex_p712]) /\
  ex_run Joined 109999 = Some ([], Some [ex_p16; ex_p712], None).
Proof. vm_compute. repeat split; reflexivity. Qed.
(* AlignmentResults.resolve on the rows of the refutation witness: one joined row, nothing un-joined; with maxDifference below the gap
   both rows stay un-joined *)
Example C08_example_resolve :
  results_resolve ([f7_first] ++ [f7_second]) 100000 = Ok ([ex_joined_f7], []) /\
  results_resolve ([f7_first] ++ [f7_second]) 199999 = Ok ([ex_joined_f7], []) /\
  results_resolve ([f7_first] ++ [f7_second]) 19999 = Ok ([], [f7_first; f7_second]).
Proof. vm_compute. repeat split; reflexivity. Qed.
(* the pair-less case of C08_unjoined_group_stays_separate is not vacuous (rows of the witness of finding F9, props/C07.v): the two rows
   form one group, pass the guard, their join is a row without any pair, both stay un-joined *)
Example C08_example_pairless_join_not_reported :
  groups_of [TotalProofs3.f9_row1; TotalProofs3.f9_row2] = [[TotalProofs3.f9_row1; TotalProofs3.f9_row2]] /\
  check_overlap TotalProofs3.f9_row1 TotalProofs3.f9_row2 1000000 = true /\
  (exists j, join_rows TotalProofs3.f9_row1 TotalProofs3.f9_row2 = Ok j /\ joined_ok j = false) /\
  results_resolve [TotalProofs3.f9_row1; TotalProofs3.f9_row2] 1000000 = Ok ([], [TotalProofs3.f9_row1; TotalProofs3.f9_row2]).
Proof. split; [vm_compute; reflexivity|]. split; [vm_compute; reflexivity|]. split; [eexists; split; vm_compute; reflexivity|]. vm_compute. reflexivity. Qed.
(* why the bound on the group size matters: a third row of the same query on the same reference disappears when the first two join *)
Example C08_third_member_dropped :
  results_resolve [f7_first; f7_second; ex_third] 100000 = Ok ([ex_joined_f7], []).
Proof. vm_compute. reflexivity. Qed.

Print Assumptions C08_modes.
Print Assumptions C08_separate_ignores_maxdiff.
Print Assumptions C08_filter_unique.
Print Assumptions C08_filter_idempotent.
Print Assumptions C08_filter_distinct.
Print Assumptions C08_rest_flags.
Print Assumptions C08_groups_partition.
Print Assumptions C08_group_bound.
Print Assumptions C08_partition.
Print Assumptions C08_unjoined_group_stays_separate.
Print Assumptions C08_run.
Print Assumptions C08_justified_unfold.
Print Assumptions C08_join_guard.
Print Assumptions C08_join_subset.
Print Assumptions C08_join_subset_segment0.
Print Assumptions C08_join_header.
Print Assumptions C08_join_subrun.
Print Assumptions C08_join_is_union_refuted.
Print Assumptions C08_join_is_union_single_segment_partial.

(* C17 — CMAP reading returns every labelled molecule exactly; trimming keeps geometry.
   Model: model/Cmap.v.  cmap_read rows ids transliterates CmapReader.__read / __parseCmapRowsGroup on the DataFrame rows
   (CMapId, LabelChannel, Position) in file order; trim transliterates OpticalMap.trim.  Positions and lengths are Z in
   TENTHS of a base pair (K = 10 is one base pair), ids and channels plain integers.
   The step from the file text to the rows (BionanoFileReader + pandas.read_csv; cmap_rows in the model) carries no theorem:
   it is tied to the code by the correspondence runs only (see the header of model/Cmap.v).
   This file contains only statements; every proof is `exact <lemma>`.

   Vocabulary (proofs/CmapProofs.v, CmapProofs2.v):
     sel ids i          := ids = [] \/ In i ids                       (`if moleculeIds:` — an empty filter selects everything)
     labels_of rows i   := positions of the rows with CMapId i and LabelChannel <> 0, in file order
     markers_of rows i  := positions of the rows with CMapId i and LabelChannel = 0 (end markers), in file order
     trunc_bp p         := Z.quot p 10 * 10                           (int() of the float, kept in tenths) *)
From Coq Require Import ZArith List Bool String Sorting.Permutation Sorting.Sorted.
Import ListNotations.
Require Import Py Pairing Cmap CmapProofs CmapProofs2.
Open Scope Z_scope.

(* When every selected molecule that has a label also has an end marker, the read succeeds and returns:
   ids strictly ascending and exactly the selected ids with >= 1 label row (so: one map per labelled molecule, molecules
   without labels skipped, unselected ids absent); each map carries that molecule's label positions, ascending, as a multiset
   exactly those of the file; its length is the truncated position of the molecule's first end-marker row; shift 0. *)
Theorem C17_read_exact rows ids :
  (forall i, sel ids i -> labels_of rows i <> [] -> markers_of rows i <> []) ->
  exists ms, cmap_read rows ids = Ok ms /\
    StronglySorted Z.lt (map mid ms) /\
    (forall i, In i (map mid ms) <-> sel ids i /\ labels_of rows i <> []) /\
    Forall (fun m => StronglySorted Z.le (mpositions m) /\ Permutation (mpositions m) (labels_of rows (mid m)) /\
                     mlen m = trunc_bp (hd 0 (markers_of rows (mid m))) /\ mshift m = 0) ms.
Proof. exact (read_exact rows ids). Qed.

(* "nothing else": the three clauses above determine the returned list completely *)
Theorem C17_read_unique rows ids ms ms' : read_ok rows ids ms -> read_ok rows ids ms' -> ms = ms'.
Proof. exact (read_ok_unique rows ids ms ms'). Qed.
(* ... and every successful read satisfies them (no hypothesis on the file) *)
Theorem C17_read_ok_only rows ids ms : cmap_read rows ids = Ok ms -> read_ok rows ids ms.
Proof. exact (read_exact_only rows ids ms). Qed.

(* the read raises exactly when some selected molecule has a label row but no end-marker row (IndexError on .iloc[0]) *)
Theorem C17_read_err rows ids :
  cmap_read rows ids = Err <-> exists i, sel ids i /\ labels_of rows i <> [] /\ markers_of rows i = [].
Proof. exact (read_err rows ids). Qed.

(* row order and molecule order in the file are irrelevant (one end marker per molecule at most; with two markers the
   FIRST one in file order gives the length, so the hypothesis cannot be dropped — see C17_two_markers below) *)
Theorem C17_perm rows rows' ids :
  Permutation rows rows' -> (forall i, (List.length (markers_of rows i) <= 1)%nat) -> cmap_read rows' ids = cmap_read rows ids.
Proof. exact (read_perm rows rows' ids). Qed.

(* a non-empty id filter selects exactly the listed ids out of the unfiltered result ... *)
Theorem C17_filter rows ids ms : ids <> [] -> cmap_read rows [] = Ok ms ->
  cmap_read rows ids = Ok (filter (fun m => mem_id (mid m) ids) ms).
Proof. exact (read_filter rows ids ms). Qed.
(* ... it never introduces an error (the converse fails: C17_filter_hides_error), and C17_read_exact / C17_read_err
   describe the filtered read directly when the unfiltered one raises *)
Theorem C17_filter_err rows ids : cmap_read rows ids = Err -> cmap_read rows [] = Err.
Proof. exact (read_filter_err rows ids). Qed.

(* trimming a map with at least one label: same id, shift 0, same number of labels, first label at 0, every inter-label
   distance kept, length = last - first + 1 bp, ascending order kept (no ordering hypothesis is needed for the other clauses) *)
Theorem C17_trim m first rest : mpositions m = first :: rest ->
  mid (trim m) = mid m /\ mshift (trim m) = 0 /\
  List.length (mpositions (trim m)) = List.length (mpositions m) /\
  nth 0 (mpositions (trim m)) 0 = 0 /\
  (forall a b, (a < List.length (mpositions m))%nat -> (b < List.length (mpositions m))%nat ->
     nth a (mpositions (trim m)) 0 - nth b (mpositions (trim m)) 0 = nth a (mpositions m) 0 - nth b (mpositions m) 0) /\
  mlen (trim m) = last (mpositions m) 0 - first + K /\
  (StronglySorted Z.le (mpositions m) -> StronglySorted Z.le (mpositions (trim m))).
Proof. exact (trim_spec m first rest). Qed.
Theorem C17_trim_empty m : mpositions m = [] -> trim m = m.
Proof. exact (trim_empty m). Qed.
Theorem C17_trim_idempotent m : trim (trim m) = trim m.
Proof. exact (trim_idempotent m). Qed.

(* the boolean checkers the harness evaluates on the implementation's outputs decide exactly these statements *)
Theorem C17_checker_read rows ids ms : read_ok_b rows ids ms = true <-> read_ok rows ids ms.
Proof. exact (read_ok_b_correct rows ids ms). Qed.
Theorem C17_checker_err rows ids : read_err_b rows ids = true <-> cmap_read rows ids = Err.
Proof. exact (read_err_b_correct rows ids). Qed.
Theorem C17_checker_trim m t : trim_ok_b m t = true <-> t = trim m.
Proof. exact (trim_ok_b_correct m t). Qed.

(* ---- non-vacuity and boundary examples.  Rows are (CMapId, LabelChannel, Position in tenths). *)
Definition ex_rows : list row :=
  [(7, 1, 3005); (3, 1, 120); (7, 0, 9999); (7, 1, 1001); (5, 0, 4000); (3, 2, 75); (7, 1, 1001); (3, 0, 2507); (3, 1, 2222)].
(* shuffled rows, three molecules (5 has no label and is skipped), duplicate position, truncated lengths 999.9 -> 999, 250.7 -> 250 *)
Example C17_nonvacuous :
  (forall i, sel [] i -> labels_of ex_rows i <> [] -> markers_of ex_rows i <> []) /\
  cmap_read ex_rows [] = Ok [mkMap 3 2500 [75; 120; 2222] 0; mkMap 7 9990 [1001; 1001; 3005] 0] /\
  cmap_read ex_rows [7; 5; 42] = Ok [mkMap 7 9990 [1001; 1001; 3005] 0] /\
  cmap_read (rev ex_rows) [] = cmap_read ex_rows [] /\
  trim (mkMap 7 9990 [1001; 1001; 3005] 4) = mkMap 7 2014 [0; 0; 2004] 0.
Proof.
  split; [|vm_compute; repeat split; reflexivity].
  intros i _ Hl Hm. assert (E : cmap_read ex_rows [] = Err) by (apply read_err; exists i; split; [left; reflexivity | split; assumption]).
  vm_compute in E. discriminate E.
Qed.
(* a labelled molecule without end marker raises; a molecule with only an end marker is skipped silently *)
Example C17_missing_marker : cmap_read [(1, 1, 100); (2, 0, 500)] [] = Err /\ cmap_read [(1, 1, 100); (2, 0, 500)] [2] = Ok [].
Proof. vm_compute. split; reflexivity. Qed.
(* the unfiltered read raises while the filtered one succeeds *)
Example C17_filter_hides_error :
  cmap_read [(1, 1, 100); (2, 1, 70); (2, 0, 500)] [] = Err /\
  cmap_read [(1, 1, 100); (2, 1, 70); (2, 0, 500)] [2] = Ok [mkMap 2 500 [70] 0].
Proof. vm_compute. split; reflexivity. Qed.
(* with two end markers the first one in file order wins, so row order matters there *)
Example C17_two_markers :
  cmap_read [(1, 1, 100); (1, 0, 500); (1, 0, 900)] [] = Ok [mkMap 1 500 [100] 0] /\
  cmap_read [(1, 0, 900); (1, 1, 100); (1, 0, 500)] [] = Ok [mkMap 1 900 [100] 0].
Proof. vm_compute. split; reflexivity. Qed.
(* the text layer on a small file: extra columns, comment lines, header-driven column choice *)
Example C17_text :
  cmap_read_text ("# CMAP File Version:	0.1
#h CMapId	ContigLength	NumSites	SiteID	LabelChannel	Position	StdDev
#f int	float	int	int	int	float	float
9	300.7	2	2	1	200.5	0.0
9	300.7	2	3	0	300.7	0.0
9	300.7	2	1	1	20.0	0.0
")%string [] = Ok [mkMap 9 3000 [200; 2005] 0].
Proof. vm_compute. reflexivity. Qed.

Print Assumptions C17_read_exact.
Print Assumptions C17_read_unique.
Print Assumptions C17_read_ok_only.
Print Assumptions C17_read_err.
Print Assumptions C17_perm.
Print Assumptions C17_filter.
Print Assumptions C17_filter_err.
Print Assumptions C17_trim.
Print Assumptions C17_trim_empty.
Print Assumptions C17_trim_idempotent.
Print Assumptions C17_checker_read.
Print Assumptions C17_checker_err.
Print Assumptions C17_checker_trim.

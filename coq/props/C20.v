(* C20 — Indel calls are self-consistent and clustering conserves every call.
   Model: model/Indels.v  (cluster_indels fixed blur l: fixed = true is the current, repaired sv/write_indel_files.py:cluster_indels;
                           fixed = false is the code before the repair, kept as a regression witness only)
          model/Indels2.v (mol_call / seg_call: the call builders of molecule_indels.py / segment_indels.py; look_mol / look_seg: the two
                           look_for_indels_in_breakage loops; sort_calls, write_lines: write_indel_file; mol_file / seg_file: finder + writer).
   A call is [Type, Chromosome, RefStart, RefStop, QueryId, QueryStart, QueryStop, Length] = ctyp cchr crs cre cq cqs cqe clen, a cluster has
   lids (the comma-joined QueryId as a list) and lcount in addition.  T_INS / T_DEL stand for the strings "insertion" / "deletion".
   Positions are integers (base pairs).

   The clustering theorems hold for EVERY blur and EVERY input list: sortedness of the input (by Chromosome, RefStop, as the writer sorts)
   is not needed for conservation, no-mixing or interval cover.  It is needed only for C20_sorted_separation (which calls end up together). *)
From Coq Require Import ZArith QArith List Bool Permutation.
Import ListNotations.
Require Import Py Indels Indels2 IndelProofs IndelProofs2 IndelProofs3.
Open Scope Z_scope.

(* ---- clustering conserves every call ---- *)
(* the Count values sum to the number of input calls *)
Theorem C20_conserve_count blur l : fold_right Z.add 0 (map lcount (cluster_indels true blur l)) = Z.of_nat (length l).
Proof. exact (count_conserved blur l). Qed.
(* the id lists of the clusters, concatenated, are the input ids in input order: nothing lost, nothing invented, nothing duplicated *)
Theorem C20_conserve_ids blur l : concat (map lids (cluster_indels true blur l)) = map cq l.
Proof. exact (ids_conserved blur l). Qed.
(* hence, when the calls have distinct query ids, every input id appears in exactly one cluster *)
Theorem C20_ids_exactly_one blur l q : NoDup (map cq l) -> In q (map cq l) ->
  exists a k b, cluster_indels true blur l = a ++ k :: b /\ In q (lids k) /\ forall k', In k' (a ++ b) -> ~ In q (lids k').
Proof. exact (ids_exactly_one blur l q). Qed.

(* ---- the clusters partition the input into consecutive groups of members (master statement);
        cluster_of k g :=  g <> [] /\ lcount k = |g| /\ lids k = map cq g
                           /\ (forall m in g, ctyp m = ltyp k /\ cchr m = lchr k)
                           /\ (forall m in g, lrs k <= crs m /\ cre m <= lre k)
                           /\ (exists m in g, crs m = lrs k) /\ (exists m in g, cre m = lre k) ---- *)
Theorem C20_members blur l : exists groups, concat groups = l /\ Forall2 cluster_of (cluster_indels true blur l) groups.
Proof. exact (cluster_members blur l). Qed.
(* clusters never mix indel types or chromosomes *)
Theorem C20_no_mix blur l : exists groups, concat groups = l /\
  Forall2 (fun k g => lids k = map cq g /\ forall m, In m g -> ctyp m = ltyp k /\ cchr m = lchr k) (cluster_indels true blur l) groups.
Proof. exact (cluster_no_mix blur l). Qed.
(* RefStart = min of the members' RefStart, RefStop = max of the members' RefStop (lower/upper bound, and attained): covers every member *)
Theorem C20_interval_cover blur l : exists groups, concat groups = l /\
  Forall2 (fun k g => lids k = map cq g /\ (forall m, In m g -> lrs k <= crs m /\ cre m <= lre k) /\
                      (exists m, In m g /\ crs m = lrs k) /\ (exists m, In m g /\ cre m = lre k)) (cluster_indels true blur l) groups.
Proof. exact (cluster_interval_cover blur l). Qed.
(* exact form: each cluster is fold_left merge over its members starting from the first one (so QueryStart/QueryStop are the first member's and
   Length is the running pairwise mean (prev + new) / 2), and the members all have the first member's type and chromosome *)
Theorem C20_exact_summary blur l : exists groups, concat groups = l /\
  Forall2 (fun k g => exists m r, g = m :: r /\ k = fold_left merge r (new_cluster m) /\ Forall (fun c => ctyp c = ctyp m /\ cchr c = cchr m) r)
          (cluster_indels true blur l) groups.
Proof. exact (cluster_partition blur l). Qed.

(* ---- the writer (sort by (Chromosome, RefStop), cluster deletions and insertions separately, sort again): same conservation up to order ---- *)
Theorem C20_write_members d : exists groups, Permutation (concat groups) (snd d ++ fst d) /\ Forall2 cluster_of (write_lines d) groups.
Proof. exact (write_members d). Qed.
Theorem C20_write_conserve_count d : fold_right Z.add 0 (map lcount (write_lines d)) = Z.of_nat (length (fst d) + length (snd d)).
Proof. exact (write_count d). Qed.
Theorem C20_write_conserve_ids d : Permutation (concat (map lids (write_lines d))) (map cq (snd d ++ fst d)).
Proof. exact (write_ids d). Qed.

(* ---- where sortedness matters: for one list as the writer passes it (sorted, one type) two consecutive clusters are on different
        chromosomes or their RefStop values are more than blur apart, i.e. no two neighbouring clusters could have been merged ---- *)
Theorem C20_sort_calls_sorted l : lex_sorted (sort_calls l).
Proof. exact (sort_calls_sorted l). Qed.
Theorem C20_sorted_separation blur l : lex_sorted l -> (forall a b, In a l -> In b l -> ctyp a = ctyp b) ->
  adjacent (fun k1 k2 => lchr k1 < lchr k2 \/ (lchr k1 = lchr k2 /\ lre k1 + blur < lre k2)) (cluster_indels true blur l).
Proof. exact (sorted_separation blur l). Qed.

(* ---- every un-merged call is self-consistent ---- *)
(* molecule_indels.py: a call is produced iff 2000 < |diff| < 100000 where diff = |r_s - r_e| - |q_s - q_e|; its fields are the arguments, its Length is
   diff, its type is insertion exactly when Length is negative — which on produced calls coincides with the code's test diff < -2000 *)
Theorem C20_call_consistent_molecule rid qid r_s r_e q_s q_e c : mol_call rid qid r_s r_e q_s q_e = Some c ->
  let diff := Z.abs (r_s - r_e) - Z.abs (q_s - q_e) in
  cchr c = rid /\ cq c = qid /\ crs c = r_s /\ cre c = r_e /\ cqs c = q_s /\ cqe c = q_e /\ clen c = inject_Z diff /\
  2000 < Z.abs diff < 100000 /\
  (ctyp c = T_INS <-> diff < 0) /\ (ctyp c = T_INS <-> diff < -2000) /\ (ctyp c = T_DEL <-> 2000 < diff) /\ (ctyp c = T_INS \/ ctyp c = T_DEL).
Proof. exact (mol_call_spec rid qid r_s r_e q_s q_e c). Qed.
Theorem C20_call_produced_molecule rid qid r_s r_e q_s q_e :
  mol_call rid qid r_s r_e q_s q_e = None <-> ~ (2000 < Z.abs (Z.abs (r_s - r_e) - Z.abs (q_s - q_e)) < 100000).
Proof. exact (mol_call_none rid qid r_s r_e q_s q_e). Qed.
(* segment_indels.py: the same with threshold 100 *)
Theorem C20_call_consistent_segment rid qid r_s r_e q_s q_e c : seg_call rid qid r_s r_e q_s q_e = Some c ->
  let diff := Z.abs (r_s - r_e) - Z.abs (q_s - q_e) in
  cchr c = rid /\ cq c = qid /\ crs c = r_s /\ cre c = r_e /\ cqs c = q_s /\ cqe c = q_e /\ clen c = inject_Z diff /\
  100 < Z.abs diff < 100000 /\
  (ctyp c = T_INS <-> diff < 0) /\ (ctyp c = T_INS <-> diff < -100) /\ (ctyp c = T_DEL <-> 100 < diff) /\ (ctyp c = T_INS \/ ctyp c = T_DEL).
Proof. exact (seg_call_spec rid qid r_s r_e q_s q_e c). Qed.
Theorem C20_call_produced_segment rid qid r_s r_e q_s q_e :
  seg_call rid qid r_s r_e q_s q_e = None <-> ~ (100 < Z.abs (Z.abs (r_s - r_e) - Z.abs (q_s - q_e)) < 100000).
Proof. exact (seg_call_none rid qid r_s r_e q_s q_e). Qed.
(* stated on the call alone:  call_consistent c := clen c == |crs c - cre c| - |cqs c - cqe c|  /\  (ctyp c = T_INS <-> that < 0)  /\  ctyp c is T_INS or T_DEL.
   Whatever alignments, maps and breakage entries the two finders are fed, every call they return is consistent and filed under its own type *)
Theorem C20_calls_molecule alns rd qd bd d : look_mol alns rd qd bd = Ok d ->
  Forall (fun c => call_consistent c /\ ctyp c = T_INS) (fst d) /\ Forall (fun c => call_consistent c /\ ctyp c = T_DEL) (snd d).
Proof. exact (look_mol_calls alns rd qd bd d). Qed.
Theorem C20_calls_segment alns rd qd bd d : look_seg alns rd qd bd = Ok d ->
  Forall (fun c => call_consistent c /\ ctyp c = T_INS) (fst d) /\ Forall (fun c => call_consistent c /\ ctyp c = T_DEL) (snd d).
Proof. exact (look_seg_calls alns rd qd bd d). Qed.
(* finder + writer: every line of the file summarises a group of self-consistent calls, and the groups are exactly the calls found *)
Theorem C20_file_molecule alns rd qd bd ks : mol_file alns rd qd bd = Ok ks ->
  exists d groups, look_mol alns rd qd bd = Ok d /\ Permutation (concat groups) (snd d ++ fst d) /\ Forall2 cluster_of ks groups /\ Forall call_consistent (concat groups).
Proof. exact (mol_file_members alns rd qd bd ks). Qed.
Theorem C20_file_segment alns rd qd bd ks : seg_file alns rd qd bd = Ok ks ->
  exists d groups, look_seg alns rd qd bd = Ok d /\ Permutation (concat groups) (snd d ++ fst d) /\ Forall2 cluster_of ks groups /\ Forall call_consistent (concat groups).
Proof. exact (seg_file_members alns rd qd bd ks). Qed.

(* ---- soundness of the boolean checkers the harness runs on the implementation's own output (code 2 of the check) ---- *)
Theorem C20_checker_clusters_sound ks l : clusters_ok l ks = true -> exists groups, concat groups = l /\ Forall2 cluster_of ks groups.
Proof. exact (clusters_ok_sound ks l). Qed.
Theorem C20_checker_written_sound d ks : written_ok d ks = true -> exists groups, Permutation (concat groups) (snd d ++ fst d) /\ Forall2 cluster_of ks groups.
Proof. exact (perm_ok_sound ks (snd d ++ fst d)). Qed.
Theorem C20_checker_calls_sound ins dels : calls_ok ins dels = true ->
  Forall (fun c => call_consistent c /\ ctyp c = T_INS) ins /\ Forall (fun c => call_consistent c /\ ctyp c = T_DEL) dels.
Proof. exact (calls_ok_sound ins dels). Qed.

(* ---- regression witness: before the repair (fix "cluster_indels keeps a call that is near the previous cluster but of another type or
        chromosome") a call within blur of the previous cluster but of another chromosome was lost ---- *)
Example C20_conserve_before_F4_refuted : exists l, fold_right Z.add 0 (map lcount (cluster_indels false 30000 l)) <> Z.of_nat (length l).
Proof. exact conserve_refuted. Qed.

(* ---- non-vacuity ---- *)
Definition ex_calls : list call :=
  [mkCall 1 1 1000 50000 7 10 20 (inject_Z 3001); mkCall 1 1 900 80000 8 30 45 (inject_Z 4000); mkCall 1 1 2000 110001 9 11 21 (inject_Z 2500);
   mkCall 0 1 2100 110002 10 5 6 (inject_Z (-2500)); mkCall 1 2 500 110003 11 1 2 (inject_Z 2600); mkCall 1 2 400 140003 12 1 2 (inject_Z 2601);
   mkCall 1 2 300 150000 13 1 2 (inject_Z 2602)].
(* RefStop steps of exactly blur merge (7,8 and 11,12), blur + 1 does not (8 -> 9); a call of another type (10) or chromosome (11) within blur opens a cluster *)
Example C20_nonvacuous_cluster : cluster_indels true 30000 ex_calls =
  [mkCl 1 1 900 80000 [7; 8] 10 20 (7001 # 2) 2; mkCl 1 1 2000 110001 [9] 11 21 (inject_Z 2500) 1; mkCl 0 1 2100 110002 [10] 5 6 (inject_Z (-2500)) 1;
   mkCl 1 2 300 150000 [11; 12; 13] 1 2 (10405 # 4) 3].
Proof. vm_compute. reflexivity. Qed.
(* the same list under the old code: calls 10 and 11 disappear *)
Example C20_nonvacuous_old_code_loses : map lids (cluster_indels false 30000 ex_calls) = [[7; 8]; [9]; [12; 13]].
Proof. vm_compute. reflexivity. Qed.
Example C20_nonvacuous_checker : clusters_ok ex_calls (cluster_indels true 30000 ex_calls) = true /\ clusters_ok ex_calls (cluster_indels false 30000 ex_calls) = false.
Proof. vm_compute. split; reflexivity. Qed.
(* thresholds: |diff| = 2001 gives a call, 2000 does not (molecule); 101 / 100 (segment) *)
Example C20_nonvacuous_calls :
  mol_call 1 7 10000 30000 500 22501 = Some (mkCall T_INS 1 10000 30000 7 500 22501 (inject_Z (-2001))) /\ mol_call 1 7 10000 30000 500 22500 = None /\
  mol_call 1 7 10000 30000 500 18499 = Some (mkCall T_DEL 1 10000 30000 7 500 18499 (inject_Z 2001)) /\ mol_call 1 7 10000 30000 500 18500 = None /\
  seg_call 1 7 10000 30000 20601 500 = Some (mkCall T_INS 1 10000 30000 7 20601 500 (inject_Z (-101))) /\ seg_call 1 7 10000 30000 20600 500 = None.
Proof. vm_compute. repeat split; reflexivity. Qed.
(* finder + writer on two alignments of one reference: one insertion, one deletion, one line each *)
Example C20_nonvacuous_file :
  mol_file [mkAln 10 1 [(1, 1); (2, 2); (3, 3)]; mkAln 11 1 [(4, 3); (5, 2); (6, 1)]] [(1, [1000; 9000; 20000; 50000; 61000; 70000])]
           [(10, [100; 8100; 25000]); (11, [0; 5000; 13000])] [(10, (1, (2, 2))); (11, (0, (4, 3)))] =
  Ok [mkCl T_INS 1 9000 20000 [10] 8100 25000 (inject_Z (-5900)) 1; mkCl T_DEL 1 50000 61000 [11] 13000 5000 (inject_Z 3000) 1].
Proof. vm_compute. reflexivity. Qed.

Print Assumptions C20_conserve_count.
Print Assumptions C20_conserve_ids.
Print Assumptions C20_ids_exactly_one.
Print Assumptions C20_members.
Print Assumptions C20_no_mix.
Print Assumptions C20_interval_cover.
Print Assumptions C20_exact_summary.
Print Assumptions C20_write_members.
Print Assumptions C20_write_conserve_count.
Print Assumptions C20_write_conserve_ids.
Print Assumptions C20_sort_calls_sorted.
Print Assumptions C20_sorted_separation.
Print Assumptions C20_call_consistent_molecule.
Print Assumptions C20_call_produced_molecule.
Print Assumptions C20_call_consistent_segment.
Print Assumptions C20_call_produced_segment.
Print Assumptions C20_calls_molecule.
Print Assumptions C20_calls_segment.
Print Assumptions C20_file_molecule.
Print Assumptions C20_file_segment.
Print Assumptions C20_checker_clusters_sound.
Print Assumptions C20_checker_written_sound.
Print Assumptions C20_checker_calls_sound.

(* C15 — Conflict resolution only trims inside the overlap and leaves no shared label.
   Model: Core.resolve_pair (checkForConflicts + resolveConflict), Core.chain, Core.retry / Core.resolve_loop (the repaired stack loop
   of __pairAndResolveConflicts), Core.resolve_conflicts, Core.aligner_align.  Statements only; proofs in proofs/ResolverProofs1..14.v.

   Vocabulary
   - before dir x y : wherever x and y both carry a reference (query) label, x's is strictly smaller in site and position
     (query sites move in direction dir = 1 / -1).  seg_ord dir l = every earlier position of l stands `before` every later one.
   - cwf dir s : seg_ord, score = sum of position scores, and a segment with pairs starts and ends with a pair (factory output).
   - coherent dir l1 l2 : the labels of l1 and l2 come from one pair of maps (equal position <-> equal site, order of positions = order of sites).
   - subrun_of c s : same peak, score = sum, positions s = firstn x (skipn m (positions c)).
   - derived c s   : same peak, score = sum, positions s is a sub-list of positions c of the shape junk ++ contiguous sub-run of c ++ junk
                     (junk = unaligned positions only).
   - chain P segs = Ok (sel ++ empties): sel is a sub-sequence of the pre-ordered non-empty inputs with finite join scores; inputs the
     chain does not select are DROPPED, the empty ones are appended. *)
From Coq Require Import ZArith QArith List Bool Sorting.Sorted Sorting.Permutation.
Import ListNotations.
Require Import Py Pairing Core ConflictProofs DPProofs
  ResolverProofs1 ResolverProofs2 ResolverProofs3 ResolverProofs4 ResolverProofs5 ResolverProofs6 ResolverProofs7 ResolverProofs8 ResolverProofs9 ResolverProofs10
  ResolverProofs11 ResolverProofs12 ResolverProofs14.
Open Scope Z_scope.

(* ---- C15_subrun ---- *)
(* for any ordered, correctly scored inputs (no assumption on how segments relate to each other): nothing is added, moved or re-scored;
   every result is junk ++ (contiguous sub-run of the chain member at the same index) ++ junk *)
Theorem C15_subrun_any_input dir P segs out :
  Forall (seg_wf0 dir) segs -> resolve_conflicts P segs = Ok out ->
  ((length segs < 2)%nat /\ out = segs) \/
  exists pre sel, Permutation pre (filter (fun s => negb (seg_empty s)) segs) /\ Sub sel pre /\ adjacent (admissible P) sel /\
    (pre <> [] -> sel <> []) /\ chain P segs = Ok (sel ++ filter seg_empty segs) /\
    Forall2 derived (sel ++ filter seg_empty segs) out.
Proof. exact (resolve_conflicts_derived dir P segs out). Qed.

(* full: for factory-shaped inputs with labels of one pair of maps, every result is a CONTIGUOUS sub-run of the chain member at its index *)
Theorem C15_subrun dir P segs out :
  (forall s, In s segs -> cwf dir s) ->
  (forall s s', In s segs -> In s' segs -> coherent dir (positions s) (positions s')) ->
  resolve_conflicts P segs = Ok out ->
  ((length segs < 2)%nat /\ out = segs) \/
  exists pre sel, Permutation pre (filter (fun s => negb (seg_empty s)) segs) /\ Sub sel pre /\ adjacent (admissible P) sel /\
    (pre <> [] -> sel <> []) /\ chain P segs = Ok (sel ++ filter seg_empty segs) /\
    Forall2 subrun_of (sel ++ filter seg_empty segs) out.
Proof. exact (resolve_conflicts_subrun dir P segs out). Qed.

(* the segments Aligner.align builds satisfy those hypotheses (maps with strictly ascending positions, maxDistance >= 0, minScore > 0,
   unmatched penalty <= 0) *)
Theorem C15_inputs_wellformed P reference query reverse : engine_ok P reference query ->
  forall peaks it,
  (forall s, In s (segs_for_peaks P it reference query peaks reverse) -> cwf (strand reverse) s) /\
  (forall s s', In s (segs_for_peaks P it reference query peaks reverse) -> In s' (segs_for_peaks P it reference query peaks reverse) ->
     coherent (strand reverse) (positions s) (positions s')).
Proof. exact (fun H peaks it => match H with conj Hd (conj Hms (conj Hsu (conj HR HQ))) =>
  conj (fun s Hs => proj1 (segs_for_peaks_wf P reference query reverse Hd Hms Hsu HR HQ peaks it s Hs))
       (segs_for_peaks_coherent P reference query reverse Hd Hms Hsu HR HQ peaks it) end). Qed.

Theorem C15_subrun_aligner P it reference query peaks reverse out : engine_ok P reference query ->
  aligner_align P it reference query peaks reverse = Ok out ->
  let segs := segs_for_peaks P it reference query peaks reverse in
  ((length segs < 2)%nat /\ out = segs) \/
  exists pre sel, Permutation pre (filter (fun s => negb (seg_empty s)) segs) /\ Sub sel pre /\ adjacent (admissible P) sel /\
    (pre <> [] -> sel <> []) /\ chain P segs = Ok (sel ++ filter seg_empty segs) /\
    Forall2 subrun_of (sel ++ filter seg_empty segs) out.
Proof. exact (aligner_align_subrun P it reference query peaks reverse out). Qed.

(* ---- C15_keeps_outside ---- *)
(* one resolveConflict call: pairs of the left member before the right member's first pair on both sequences, and pairs of the right
   member after the left member's last pair on both sequences, are kept *)
Theorem C15_keeps_outside_step dir a b a' b' :
  seg_ord dir (positions a) -> seg_ord dir (positions b) ->
  sscore a = sum_scores (positions a) -> sscore b = sum_scores (positions b) ->
  resolve_pair a b = Ok (a', b') ->
  (forall cs p, start_position b = Ok cs -> In p (positions a) -> is_pair p = true -> less_both p cs = true -> In p (positions a')) /\
  (forall ce p, end_position a = Ok ce -> In p (positions b) -> is_pair p = true -> after_both p ce = true -> In p (positions b')).
Proof. exact (resolve_pair_keeps_outside dir a b a' b'). Qed.

(* the whole loop: a pair of chain member i that is before the first pair of every later member and after the last pair of every earlier one
   is still in member i of the result *)
Theorem C15_keeps_outside dir ch out :
  Forall (seg_wf0 dir) ch -> resolve_loop (length ch) 0 ch [] = Ok out ->
  forall i s0 s p, nth_error ch i = Some s0 -> nth_error out i = Some s ->
    In p (positions s0) -> is_pair p = true -> outside ch i p -> In p (positions s).
Proof. exact (resolve_loop_keeps_outside dir ch out). Qed.

(* ---- the verified checker ---- *)
Theorem C15_checker_spec segs : segments_disjointb segs = true <-> segments_disjoint 1 segs \/ segments_disjoint (-1) segs.
Proof. exact (segments_disjointb_spec segs). Qed.
Theorem C15_checker_dir_spec dir segs : disjoint_dirb dir segs = true <-> segments_disjoint dir segs.
Proof. exact (disjoint_dirb_spec dir segs). Qed.
Theorem C15_disjoint_meaning dir segs : segments_disjoint dir segs ->
  forall i j si sj p p', i <> j -> nth_error segs i = Some si -> nth_error segs j = Some sj ->
    In p (aligned si) -> In p' (aligned sj) -> ~ shares p p' /\ ~ crosses dir p p'.
Proof. exact (segments_disjoint_no_conflict dir segs). Qed.

(* ---- C15_disjoint ---- *)
(* full, for Aligner.align: maps with strictly ascending label positions, query labels inside [0, length - 1bp], maxDistance >= 0,
   minScore > 0, unmatched penalty <= 0.  After chaining and resolving the segments of any list of seed peaks, on either strand, no two
   segments share a reference or query label or cross each other, and inside every segment the pairs are strictly ordered. *)
Theorem C15_disjoint P it reference query peaks reverse out : engine_ok P reference query -> qry_in_range query ->
  aligner_align P it reference query peaks reverse = Ok out -> segments_disjoint (strand reverse) out.
Proof. exact (aligner_align_disjoint P it reference query peaks reverse out). Qed.

(* how it is proved, 1: the loop.  For ANY factory-shaped inputs with labels of one pair of maps, the result is disjoint provided every
   resolution of two ADJACENT chain members (the left one possibly already trimmed at its start, the right one untouched) that leaves both
   with pairs leaves them strictly apart.  Members two or more apart in the chain never overlap (finite join scores: each member starts at or
   after the middle of its predecessor and ends at or before the middle of its successor), an emptied member is popped and the retry is
   between members at least two apart, where resolve_pair either changes nothing or only removes the one shared end label. *)
Theorem C15_disjoint_if_adjacent dir P segs out :
  (forall s, In s segs -> cwf dir s) ->
  (forall s s', In s segs -> In s' segs -> coherent dir (positions s) (positions s')) ->
  resolve_conflicts P segs = Ok out ->
  (forall sel, adjacent (admissible P) sel -> chain P segs = Ok (sel ++ filter seg_empty segs) -> adjacent_resolutions_separate sel) ->
  segments_disjoint dir out.
Proof. exact (resolve_conflicts_disjoint_if_adjacent dir P segs out). Qed.

(* how it is proved, 2: the two-member problem.  For the segments of Aligner.align every adjacent resolution separates: the whole-sub-run
   outcomes by the slicing tests, the middle outcome by counting labels (both conflicting sub-runs list the same number of consecutive
   labels of one map, the left one ending at the left member's last label, the right one starting at the right member's first label) and,
   on the other sequence, because pairings of two seed peaks never cross (cross_monotone / cross_monotone_q in ResolverProofs11). *)
Theorem C15_adjacent_separate P it reference query peaks reverse : engine_ok P reference query -> qry_in_range query ->
  let segs := segs_for_peaks P it reference query peaks reverse in
  forall sel, adjacent (admissible P) sel -> chain P segs = Ok (sel ++ filter seg_empty segs) -> adjacent_resolutions_separate sel.
Proof. exact (engine_adjacent_sep P it reference query peaks reverse). Qed.

(* pairings of two seed peaks A >= B against the same maps do not cross *)
Theorem C15_cross_peaks d dir R Q A B c c' : 0 <= d ->
  StronglySorted (fun a b => site a < site b /\ lpos a < lpos b) R ->
  StronglySorted (fun a b => 0 < dir * (site b - site a) /\ lpos a < lpos b) Q ->
  B <= A -> In c (PairingProofs2.P d A R Q) -> In c' (PairingProofs2.P d B R Q) ->
  (PairingProofs2.rsite c < PairingProofs2.rsite c' -> lpos (cq c) < lpos (cq c')) /\
  (lpos (cq c') < lpos (cq c) -> PairingProofs2.rsite c' < PairingProofs2.rsite c).
Proof. exact (fun Hd HR HQ HAB Hc Hc' => conj
  (cross_monotone d dir R Q HR HQ A B c c' HAB (PairingProofs2.P_in_P1 d A R Q c Hc) (PairingProofs2.P_in_P1 d B R Q c' Hc'))
  (cross_monotone_q d dir R Q Hd HR HQ B A c' c HAB Hc' Hc)). Qed.

(* one step between a left member that ends with a pair and a right member that starts with a pair: contiguous results, and they are
   strictly apart unless the step took the middle outcome (both trimmed at an inner merge index) *)
Theorem C15_step_fresh dir a b a' b' :
  seg_ord dir (positions a) -> seg_ord dir (positions b) ->
  sscore a = sum_scores (positions a) -> sscore b = sum_scores (positions b) ->
  last_is_pair (positions a) -> first_is_pair (positions b) -> has_pairs a = true -> has_pairs b = true ->
  coherent dir (positions a) (positions b) ->
  resolve_pair a b = Ok (a', b') ->
  exists x y, positions a' = firstn x (positions a) /\ positions b' = skipn y (positions b) /\
    speak a' = speak a /\ speak b' = speak b /\ sscore a' = sum_scores (positions a') /\ sscore b' = sum_scores (positions b') /\
    (psep (positions a') (positions b') \/ ((x < length (positions a))%nat /\ (0 < y)%nat)).
Proof. exact (rp_fresh_main dir a b a' b'). Qed.

(* non-vacuity: reverse strand, three peaks; the chain has four members, two are trimmed and one is emptied *)
Definition exP := mkP 200 2 (-20) 100 60 10 0 0.
Definition exR := mkMap 1 0 [0; 10; 40; 60; 70; 80] 0.
Definition exQ := mkMap 7 130 [0; 30; 60; 70; 80; 110; 120] 0.
Example C15_nonvacuous :
  match aligner_align exP 1 exR exQ [-10; 40; 50] true, chain exP (segs_for_peaks exP 1 exR exQ [-10; 40; 50] true) with
  | Ok out, Ok ch => map (fun s => length (positions s)) ch = [1; 4; 1; 1]%nat /\ map (fun s => length (positions s)) out = [1; 2; 0; 1]%nat /\
                     disjoint_dirb (-1) out = true
  | _, _ => False
  end.
Proof. vm_compute. repeat split; reflexivity. Qed.
Example C15_nonvacuous_hyp : engine_ok exP exR exQ /\ qry_in_range exQ.
Proof. split; [repeat split; try (vm_compute; congruence); repeat constructor|]. intros p Hp. cbn in Hp. unfold K. cbn. repeat (destruct Hp as [<-|Hp]; [split; vm_compute; congruence|]). destruct Hp. Qed.

(* why the resolver loop retries: three chained members A, B, C (hand-built, first case of the resolver_direct stream); resolving the adjacent
   pairs only - (A,B), then (B,C) - empties B and leaves query label 55 in both A and C (the verified checker rejects it); the loop of the
   code pops the emptied member, resolves A against C as well, and the result is disjoint *)
Definition exPair (rs rp qs qp s : Z) : spos := mkS (Pair (mkLabel rs rp) (mkLabel qs qp) 0 0) s.
Definition exA := seg_create [exPair 30 30000 30 30000 20000; exPair 40 40000 40 40000 20000; exPair 52 52000 55 55000 20000] 0.
Definition exB := seg_create [exPair 50 50000 50 50000 18000; exPair 60 60000 60 60000 18000] 10.
Definition exC := seg_create [exPair 58 58000 55 55000 20000; exPair 70 70000 70 70000 20000; exPair 80 80000 80 80000 20000] 20.
Definition exP0 := mkP 0 0 0 0 0 0 (20 # 1) 0.
Example C15_retry_needed :
  match chain exP0 [exC; exA; exB], resolve_conflicts exP0 [exC; exA; exB], resolve_pair exA exB with
  | Ok ch, Ok out, Ok (a1, b1) =>
    match resolve_pair b1 exC with
    | Ok (b2, c1) => map speak ch = [0; 10; 20] /\ disjoint_dirb 1 [a1; b2; c1] = false /\ positions b2 = [] /\
                     disjoint_dirb 1 out = true /\ map (fun s => length (positions s)) out = [2; 0; 3]%nat
    | Err => False
    end
  | _, _, _ => False
  end.
Proof. vm_compute. repeat split; reflexivity. Qed.

Print Assumptions C15_subrun_any_input.
Print Assumptions C15_subrun.
Print Assumptions C15_inputs_wellformed.
Print Assumptions C15_subrun_aligner.
Print Assumptions C15_keeps_outside_step.
Print Assumptions C15_keeps_outside.
Print Assumptions C15_checker_spec.
Print Assumptions C15_checker_dir_spec.
Print Assumptions C15_disjoint_meaning.
Print Assumptions C15_disjoint.
Print Assumptions C15_disjoint_if_adjacent.
Print Assumptions C15_adjacent_separate.
Print Assumptions C15_cross_peaks.
Print Assumptions C15_step_fresh.

(* C15 — Conflict resolution only trims inside the overlap and leaves no shared label.
   Model: Core.resolve_pair / retry / resolve_loop / resolve_conflicts (segments.py, segment_with_resolved_conflicts.py).
   INTERIM version: the one-step theorem; the lift to the whole resolver loop, keeps-outside and disjointness are being
   proved in proofs/ResolverProofs*.v and will be added here. *)
From Coq Require Import ZArith QArith List Bool.
Import ListNotations.
Require Import Py Pairing Core ConflictProofs.
Open Scope Z_scope.

(* one resolution step returns a prefix of the left member and a suffix of the right member, same peaks,
   scores recomputed as sums, whichever of the five outcomes is taken: nothing is added, moved or re-scored *)
Theorem C15_subrun_step a b a' b' : wfL a -> wfR b -> resolve_pair a b = Ok (a', b') ->
  trimmed_left a a' /\ trimmed_right b b'.
Proof. exact (resolve_pair_subrun a b a' b'). Qed.

(* __sub__ with the code's __eq__ removes exactly a suffix / prefix of a key-distinct position list *)
Theorem C15_remove_suffix l n : nodupkey l -> filter (fun p => negb (existsb (pos_eqb p) (skipn n l))) l = firstn n l.
Proof. exact (remove_suffix l n). Qed.
Theorem C15_remove_prefix l n : nodupkey l -> filter (fun p => negb (existsb (pos_eqb p) (firstn n l))) l = skipn n l.
Proof. exact (remove_prefix l n). Qed.

Print Assumptions C15_subrun_step.
Print Assumptions C15_remove_suffix.
Print Assumptions C15_remove_prefix.

(* C06 — A noise-free copy of an interior reference region is placed exactly.            *** PARTIAL BY CONSTRUCTION ***

   Property text: "If a query's labels are an exact copy of at least 15 consecutive labels from the interior of a reference with
   realistic label spacing, given on either strand and with any coordinate offset, COMA reports that query on that reference and
   strand with exactly the true label-to-label pairs, each within 200 bp of the seed diagonal, and with no HitEnum gaps."

   WHAT IS PROVED HERE AND WHAT IS NOT.
   COMA finds the diagonal numerically: FFT cross-correlation of blurred bit vectors (scipy.signal.correlate, method='fft'),
   scipy.signal.find_peaks on floating-point heights (primary resolution 1400/blur 1, then secondary resolution 100/blur 4 inside a
   16 kb margin), and finally the candidate with the highest confidence wins.  The statement "some seed peak of the winning
   candidate lies within 200 bp of the true diagonal, and no other candidate scores higher" is a statement about floating-point FFT
   output and scipy's peak finder; it is NOT modelled in Gallina and NOT proved.  It is MEASURED: harness/props/C06.py runs the real
   COMA end to end on generated single-reference data sets (spacing >= 2 kb, mean >= 9 kb; interior windows of 15-45 labels; both
   strands; coordinate offsets and trailing lengths; four output modes) and checks the complete property text on the files and, from
   the captured winning candidate, |queryShift| <= 200 for every pair.

   The DETERMINISTIC HALF is proved below, under the hypothesis
        Z.abs (peak - r_a) <= delta          "the seed lies within delta of the true diagonal"
   (r_a = position of the first copied reference label; the true diagonal of a trimmed query is reference start = r_a):
     C06_pairing_exact   the list AlignerEngine.align returns is, label by label, the search window in order: every copied reference
                         label paired with its copy (offset = peak - r_a, so |offset| <= delta), every other window label unpaired,
                         no unpaired query label.  Spacing needed: NEIGHBOURING REFERENCE LABELS MORE THAN 2*delta APART
                         (with delta = 200 bp: more than 400 bp; the 2 kb of the quantifier is far inside.  This is sharper than
                         "more than d + delta": a second reference label within maxPairDistance of a query label does produce a
                         competing candidate pair, but AlignedPair.deduplicate keeps the strictly nearer one; C06_spacing_sharp
                         shows that at 2*delta or less the wrong neighbour can win).  delta <= maxPairDistance.
     C06_factory_blocks  the segment builder on a score list  su^u ++ x^n ++ su^v  (su <= 0 < x, x + bs > 0, n*x >= ms) returns exactly
                         the one range [u, u+n): it starts at the first positive score and ends at the last maximum; unpaired
                         reference labels before/after the copy are cut.
     C06_single_segment  hence exactly one segment, holding exactly the n true pairs, each scored SP - DPU*|peak - r_a|.
     C06_row             with that single seed peak Aligner.align returns that segment; the row lists exactly the true pairs
                         (a+1+k, k+1) on '+', (a+1+k, n-k) on '-'; all offsets equal peak - r_a; confidence n*(SP - DPU*|peak - r_a|);
                         HitEnum is "nM".  (One peak only: with several secondary peaks the conflict resolver runs; that case is
                         covered by the end-to-end measurement and by C15/C01, not by this theorem.)
     C06_default         the same instantiated at the default parameters with delta = 200 bp: every side condition holds for n >= 2,
                         a fortiori for the 15-45 labels of the quantifier.
     C06_centre          (re-export of C16_centre) a correlation bin converts back to within half a resolution of every coordinate of
                         the bin: with the secondary resolution 100 the quantisation contributes <= 50 bp; the rest of the 200 bp budget covers
                         the plateau that the secondary blur (4 bins of 100 bp on either side of every label) gives the correlation maximum
                         and scipy's choice of a point on it — measured (the check's evidence file records the distribution of the measured
                         max |queryShift|), not proved.

   Units as in model/Core.v: positions/lengths in tenths of a base pair (K = 10 = one bp), scores x20, DPU = 2*dp.
   Labels are numbered from 1; the window is R[a .. a+n-1] with 0-based a, i.e. reference labels a+1 .. a+n.
   This file contains only statements; every proof is `exact <lemma>`. *)
From Coq Require Import ZArith QArith List Bool String.
Import ListNotations.
Require Import Py Pairing PairingProofs4 Core Multi Cigar Fac Vec Centre PlantedProofs1 PlantedProofs2 PlantedProofs3.
Open Scope Z_scope.

(* Vocabulary (proofs/PlantedProofs1-3.v):
     consec_gt g l        every two neighbouring elements of l are more than g apart (ascending)
     win R a n            = firstn n (skipn a R), the copied positions
     planted R a n rev q  q is the TRIMMED noise-free copy: mshift q = 0, mlen q = R[a+n-1] - R[a] + K, and
                          mpositions q = map (fun p => p - R[a]) (win R a n)                       on '+'
                                       = map (fun p => R[a+n-1] - p) (rev (win R a n))  (mirror image) on '-'
     qnum a n rev s       the query label number matched with reference label number s: s - a on '+', a + n + 1 - s on '-'
     true_pairs a n rev   [(a+1, 1); (a+2, 2); ...; (a+n, n)] on '+',  [(a+1, n); (a+2, n-1); ...; (a+n, 1)] on '-'
     pair_sites segs      (reference label, query label) of the aligned pairs of a row, in row order
     pair_shifts segs     their queryShift values *)

Theorem C06_vocabulary R a n rev q :
  (planted R a n rev q <->
     mshift q = 0 /\ mlen q = nth (a + n - 1) R 0 - nth a R 0 + K /\
     mpositions q = if rev then map (fun p => nth (a + n - 1) R 0 - p) (List.rev (firstn n (skipn a R)))
                    else map (fun p => p - nth a R 0) (firstn n (skipn a R))) /\
  List.length (true_pairs a n rev) = n /\
  forall k, (k < n)%nat -> nth k (true_pairs a n rev) (0, 0) = (Z.of_nat a + 1 + Z.of_nat k, if rev then Z.of_nat n - Z.of_nat k else 1 + Z.of_nat k).
Proof. exact (planted_vocabulary R a n rev q). Qed.

(* ---- the pairing along a seed within delta of the true diagonal is exact (both strands) ---- *)
Theorem C06_pairing_exact d delta it ref q a n start stop (rev : bool) :
  0 <= delta <= d ->
  consec_gt (2 * delta) (mpositions ref) ->
  mshift ref = 0 -> (1 <= n)%nat -> (a + n <= List.length (mpositions ref))%nat ->
  planted (mpositions ref) a n rev q ->
  let ra := nth a (mpositions ref) 0 in let rl := nth (a + n - 1) (mpositions ref) 0 in
  Z.abs (start - ra) <= delta ->
  start + (rl - ra) <= stop ->                       (* holds for stop = start + mlen q, the value Aligner.getSegments passes *)
  let L := positions_with_ids ref false in
  let inw := fun r => (start - d <=? lpos r) && (lpos r <=? stop + d) in
  align_engine d it ref q start stop rev =
    map URef (filter inw (firstn a L)) ++
    map (fun r => Pair r (mkLabel (qnum a n rev (site r)) (lpos r - ra)) (start - ra) it) (firstn n (skipn a L)) ++
    map URef (filter inw (skipn (a + n) L)).
Proof. exact (planted_engine_exact d delta it ref q a n start stop rev). Qed.

(* ---- the segment builder on unpaired^u ++ pair^n ++ unpaired^v ---- *)
Theorem C06_factory_blocks ms bs su x u n v :
  0 < ms -> su <= 0 -> 0 < x -> 0 < x + bs -> ms <= Z.of_nat n * x ->
  factory_ranges ms bs (repeat su u ++ repeat x n ++ repeat su v) = [(u, (u + n)%nat, Z.of_nat n * x)].
Proof. exact (factory_three_blocks ms bs su x u n v). Qed.

(* ---- exactly one segment with exactly the n true pairs ---- *)
Theorem C06_single_segment P delta it ref q a n peak (rev : bool) :
  0 <= delta <= DMAX P ->
  consec_gt (2 * delta) (mpositions ref) ->
  mshift ref = 0 -> (1 <= n)%nat -> (a + n <= List.length (mpositions ref))%nat ->
  planted (mpositions ref) a n rev q ->
  let ra := nth a (mpositions ref) 0 in
  Z.abs (peak - ra) <= delta ->
  0 <= DPU P -> SU P <= 0 -> 0 < MS P -> 0 <= BS P ->
  0 < SP P - DPU P * delta ->
  MS P <= Z.of_nat n * (SP P - DPU P * delta) ->
  get_segments P (map (score_pos P) (align_engine (DMAX P) it ref q peak (peak + mlen q) rev)) peak =
    [seg_create (map (fun r => mkS (Pair r (mkLabel (qnum a n rev (site r)) (lpos r - ra)) (peak - ra) it) (SP P - DPU P * Z.abs (peak - ra)))
                     (firstn n (skipn a (positions_with_ids ref false)))) peak].
Proof. exact (planted_segments_for_peak P delta it ref q a n peak rev). Qed.

(* ---- the candidate row built from that single seed peak ---- *)
Theorem C06_row P delta it ref q a n peak (rev : bool) :
  0 <= delta <= DMAX P ->
  consec_gt (2 * delta) (mpositions ref) ->
  mshift ref = 0 -> (1 <= n)%nat -> (a + n <= List.length (mpositions ref))%nat ->
  planted (mpositions ref) a n rev q ->
  let ra := nth a (mpositions ref) 0 in
  Z.abs (peak - ra) <= delta ->
  0 <= DPU P -> SU P <= 0 -> 0 < MS P -> 0 <= BS P ->
  0 < SP P - DPU P * delta ->
  MS P <= Z.of_nat n * (SP P - DPU P * delta) ->
  exists seg,
    aligner_align P it ref q [peak] rev = Ok [seg] /\
    let w := row_create [seg] (mid q) (mid ref) (mlen q) (mlen ref) rev in
    rsegs w = [seg] /\ qid w = mid q /\ rid w = mid ref /\ rrev w = rev /\
    pair_sites (rsegs w) = true_pairs a n rev /\
    pair_shifts (rsegs w) = repeat (peak - ra) n /\
    conf w = Z.of_nat n * (SP P - DPU P * Z.abs (peak - ra)) /\
    cigar_string (pair_sites (rsegs w)) = Ok (print_nat n ++ "M")%string.
Proof. exact (planted_row_full P delta it ref q a n peak rev). Qed.

(* ---- default parameters, delta = 200 bp, spacing >= 2 kb ---- *)
Theorem C06_default_side_conditions n : (2 <= n)%nat ->
  let P := default_params in let delta := 2000 in
  0 <= delta <= DMAX P /\ 0 <= DPU P /\ SU P <= 0 /\ 0 < MS P /\ 0 <= BS P /\ 0 < SP P - DPU P * delta /\
  MS P <= Z.of_nat n * (SP P - DPU P * delta).
Proof. exact (default_side_conditions n). Qed.

Theorem C06_default it ref q a n peak (rev : bool) :
  consec_gt 19999 (mpositions ref) ->
  mshift ref = 0 -> (2 <= n)%nat -> (a + n <= List.length (mpositions ref))%nat ->
  planted (mpositions ref) a n rev q ->
  Z.abs (peak - nth a (mpositions ref) 0) <= 2000 ->
  let seg := planted_segment default_params it ref a n peak rev in
  aligner_align default_params it ref q [peak] rev = Ok [seg] /\
  pair_sites [seg] = true_pairs a n rev /\
  pair_shifts [seg] = repeat (peak - nth a (mpositions ref) 0) n /\
  cigar_string (pair_sites [seg]) = Ok (print_nat n ++ "M")%string.
Proof. exact (planted_default it ref q a n peak rev). Qed.

(* ---- seed quantisation: a correlation bin converts back to within half a resolution (re-export of C16_centre) ---- *)
Theorem C06_centre k res start x : 1 <= res -> start + k * res <= x < start + (k + 1) * res ->
  let bp := bin_to_bp k res start in
  start + k * res <= bp < start + (k + 1) * res /\ 2 * Z.abs (bp - x) <= res.
Proof. exact (bin_centre k res start x). Qed.

(* ---- non-vacuity: a 26-label reference (gaps of exactly 2 kb and 2000.1 bp among them), its labels 6..21 copied (a = 5, n = 16),
        the seed 200 bp beyond / before the true diagonal, default parameters ---- *)
Definition ex_ref : omap :=
  mkMap 1 1515507 [50000; 70000; 90001; 110001; 200001; 245006; 365006; 388006; 458006; 478006; 509006; 659006; 685006; 767006; 787007; 837007;
                   857007; 956007; 989007; 1199007; 1226507; 1287507; 1307507; 1351507; 1481507; 1510507] 0.
Definition ex_fwd : omap :=
  mkMap 7 981511 [0; 120000; 143000; 213000; 233000; 264000; 414000; 440000; 522000; 542001; 592001; 612001; 711001; 744001; 954001; 981501] 0.
Definition ex_rev : omap :=      (* the mirror image of ex_fwd *)
  mkMap 7 981511 [0; 27500; 237500; 270500; 369500; 389500; 439500; 459501; 541501; 567501; 717501; 748501; 768501; 838501; 861501; 981501] 0.

Example C06_nonvacuous_forward :
  consec_gt 19999 (mpositions ex_ref) /\ planted (mpositions ex_ref) 5 16 false ex_fwd /\
  Z.abs (247006 - nth 5 (mpositions ex_ref) 0) <= 2000 /\
  match aligner_align default_params 1 ex_ref ex_fwd [247006] false with
  | Ok segs => List.length segs = 1%nat /\
               pair_sites segs = [(6,1); (7,2); (8,3); (9,4); (10,5); (11,6); (12,7); (13,8); (14,9); (15,10); (16,11); (17,12); (18,13); (19,14); (20,15); (21,16)] /\
               pair_shifts segs = repeat 2000 16 /\
               cigar_string (pair_sites segs) = Ok "16M"%string /\
               conf (row_create segs 7 1 981511 1515507 false) = 16 * (20000 - 2 * 2000)
  | Err => False
  end.
Proof. vm_compute. repeat split; intros; discriminate || reflexivity. Qed.

Example C06_nonvacuous_reverse :
  planted (mpositions ex_ref) 5 16 true ex_rev /\
  Z.abs (243006 - nth 5 (mpositions ex_ref) 0) <= 2000 /\
  match aligner_align default_params 1 ex_ref ex_rev [243006] true with
  | Ok segs => List.length segs = 1%nat /\
               pair_sites segs = [(6,16); (7,15); (8,14); (9,13); (10,12); (11,11); (12,10); (13,9); (14,8); (15,7); (16,6); (17,5); (18,4); (19,3); (20,2); (21,1)] /\
               pair_shifts segs = repeat (-2000) 16 /\
               cigar_string (pair_sites segs) = Ok "16M"%string
  | Err => False
  end.
Proof. vm_compute. repeat split; intros; discriminate || reflexivity. Qed.

(* the general theorem applies to the example (its hypotheses are met) and gives the same answer *)
Example C06_example_by_theorem :
  pair_sites [planted_segment default_params 1 ex_ref 5 16 247006 false] = true_pairs 5 16 false /\
  aligner_align default_params 1 ex_ref ex_fwd [247006] false = Ok [planted_segment default_params 1 ex_ref 5 16 247006 false].
Proof. split; vm_compute; reflexivity. Qed.

(* sharpness of the spacing condition: two reference labels 300 bp apart (<= 2*delta = 400 bp), seed 200 bp before the true diagonal:
   the copy of reference label 2 is paired with reference label 1 *)
Example C06_spacing_sharp :
  let ref := mkMap 1 200000 [100000; 103000; 140000; 180000] 0 in
  let q := mkMap 7 37010 [0; 37000] 0 in
  planted (mpositions ref) 1 2 false q /\ Z.abs (101000 - nth 1 (mpositions ref) 0) <= 2000 /\
  filter is_pair_apos (align_engine 15000 1 ref q 101000 (101000 + 37010) false)
    = [Pair (mkLabel 1 100000) (mkLabel 1 0) 1000 1; Pair (mkLabel 3 140000) (mkLabel 2 37000) (-2000) 1].
Proof. vm_compute. repeat split; intros; discriminate || reflexivity. Qed.

Print Assumptions C06_vocabulary.
Print Assumptions C06_pairing_exact.
Print Assumptions C06_factory_blocks.
Print Assumptions C06_single_segment.
Print Assumptions C06_row.
Print Assumptions C06_default_side_conditions.
Print Assumptions C06_default.
Print Assumptions C06_centre.

(* ==================================================================================================================================
   APPENDED: THE SEEDING STAGE IN EXACT ARITHMETIC (model/Correlate.v; proofs/CorrelateProofs1-4.v)

   The header above says that the seeding half is not modelled.  Its exact-arithmetic core now is: OpticalMap.getSequence
   (vectorise, blur, strand reversal), the integer cross-correlation that scipy.signal.correlate(mode='valid') computes (by FFT,
   then rounded) and the normalising factor of getInitialAlignment are modelled in model/Correlate.v and tied to the real functions
   by the streams xcorr / xcorr_random / sequence / seeding_correlation of harness/props/C16.py.  What is proved here:

     C06_true_lag_is_global_max      a noise-free copy of CONSECUTIVE reference labels whose first label R[a] is a multiple k0*res of the
                                     resolution (either strand; on '-' the copied labels must moreover lie on the lattice R[a] + res*Z,
                                     the C11 condition, so that the reversed vector of the mirrored labels is the forward vector):
                                     the query's blurred vector placed at lag k0 is covered by the reference's blurred vector, the
                                     correlation at k0 equals the number of 1-bits of the query vector, and no lag has more.
     C06_true_lag_window_normalised  moreover the reference window at lag k0 IS the query vector (foreign labels cannot change it: what
                                     they blur into the window is already set by the first / last copied label), so the normalised
                                     correlation of getInitialAlignment is exactly 1 at k0, and it is <= 1 everywhere: k0 is a global
                                     maximum of the normalised correlation too.  (In general the normalisation is NOT monotone: a
                                     covered lag need not maximise the normalised correlation, C16_normalised_not_monotone.)
     C06_true_lag_any_offset_partial any offset R[a] = k0*res + o, 0 <= o < res, blur radius r >= 1: a label's query bin and its
                                     reference bin (minus k0) differ by 0 or 1, so only the query vector blurred with radius r-1 is
                                     covered: correlation at k0 >= number of 1-bits of the (r-1)-blurred query vector, while every lag is
                                     <= the number of 1-bits of the r-blurred query vector.  The full statement "k0 is a global maximum
                                     for every offset" is FALSE: C06_off_lattice_not_max.
   THE MAXIMUM NEED NOT BE STRICT: neighbouring lags can reach the same value (C06_plateau: the blur makes plateaus); which point of
   a plateau scipy.signal.find_peaks reports, its prominence/height/distance filters and the edge rule (the first and last lag are
   never peaks) stay outside these theorems, as does floating-point rounding of the FFT (measured: |error| ~ 1e-10 against integers).
   These theorems do not depend on the unit: positions, offsets and the resolution are integers in one common unit (in the unit of
   Pairing.v, tenths of a bp, the primary resolution 1400 bp is res = 14000). *)
From Coq Require Import Sorting.Sorted.
Require Import Peaks Correlate CorrelateProofs1 CorrelateProofs3 CorrelateProofs4.

Theorem C06_true_lag_is_global_max R a n res r k0 (rev : bool) q :
  1 <= res -> StronglySorted Z.le R -> (1 <= n)%nat -> (a + n <= List.length R)%nat ->
  planted R a n rev q -> nth a R 0 = Z.of_nat k0 * res ->
  (rev = true -> Forall (fun x => (res | x - nth a R 0)) (win R a n)) ->
  let vr := get_sequence R res r false 0 None in
  let vq := get_sequence (mpositions q) res r rev 0 None in
  (List.length vq <= List.length vr)%nat /\ (k0 <= List.length vr - List.length vq)%nat /\ covers vr vq k0 /\
  0 < vsum vq /\ nth k0 (xcorr vr vq) 0 = vsum vq /\
  forall k, (k <= List.length vr - List.length vq)%nat -> nth k (xcorr vr vq) 0 <= nth k0 (xcorr vr vq) 0.
Proof. exact (planted_seed_true_lag R a n res r k0 rev q). Qed.

Theorem C06_true_lag_window_normalised R a n res r k0 (rev : bool) q :
  1 <= res -> StronglySorted Z.le R -> (1 <= n)%nat -> (a + n <= List.length R)%nat ->
  planted R a n rev q -> nth a R 0 = Z.of_nat k0 * res ->
  (rev = true -> Forall (fun x => (res | x - nth a R 0)) (win R a n)) ->
  let vr := get_sequence R res r false 0 None in
  let vq := get_sequence (mpositions q) res r rev 0 None in
  window vr k0 (List.length vq) = vq /\ (nth k0 (normalised vr vq) 0 == 1)%Q /\
  forall k, (k <= List.length vr - List.length vq)%nat -> (nth k (normalised vr vq) 0 <= nth k0 (normalised vr vq) 0)%Q.
Proof. exact (planted_seed_normalised R a n res r k0 rev q). Qed.

(* full statement (false, see C06_off_lattice_not_max):  ... nth a R 0 = Z.of_nat k0 * res + o -> 0 <= o < res ->
     forall k, k <= length vr - length vq -> nth k (xcorr vr vq) 0 <= nth k0 (xcorr vr vq) 0 *)
Theorem C06_true_lag_any_offset_partial R a n res r k0 o q :
  1 <= res -> StronglySorted Z.le R -> (1 <= n)%nat -> (a + n <= List.length R)%nat ->
  planted R a n false q -> 0 <= o < res -> nth a R 0 = Z.of_nat k0 * res + o -> (1 <= r)%nat ->
  let vr := get_sequence R res r false 0 None in
  let vq := get_sequence (mpositions q) res r false 0 None in
  (List.length vq <= List.length vr)%nat /\ (k0 <= List.length vr - List.length vq)%nat /\
  vsum (get_sequence (mpositions q) res (r - 1) false 0 None) <= nth k0 (xcorr vr vq) 0 /\
  forall k, (k <= List.length vr - List.length vq)%nat -> nth k (xcorr vr vq) 0 <= vsum vq.
Proof. exact (planted_seed_any_offset R a n res r k0 o q). Qed.

(* ---- non-vacuity (unit: tenths of a bp; resolution 100 = 10 bp, blur 1) ---- *)
(* reference labels at 0, 70, 100, 110, 200 bp; the copy of labels 2..3 (a = 1, n = 2) on '+'; R[a] = 7 * res.
   The correlation is [2;1;0;1;2;3;4;4;4;4;3;2;1;0;0;0;1;2]: the true lag 7 reaches 4 = all 1-bits of the query vector, and so do lags 6, 8
   and 9 (a plateau: the maximum is not strict; the normalised correlation is 1 on all four). *)
Definition sx_R : list Z := [0; 700; 1000; 1100; 2000].
Definition sx_q : omap := mkMap 7 310 [0; 300] 0.
Example C06_seed_nonvacuous :
  StronglySorted Z.le sx_R /\ planted sx_R 1 2 false sx_q /\ nth 1 sx_R 0 = Z.of_nat 7 * 100 /\
  get_sequence sx_R 100 1 false 0 None = [1;1;0;0;0;0;1;1;1;1;1;1;1;0;0;0;0;0;0;1;1] /\
  get_sequence (mpositions sx_q) 100 1 false 0 None = [1;1;1;1] /\
  xcorr (get_sequence sx_R 100 1 false 0 None) (get_sequence (mpositions sx_q) 100 1 false 0 None) = [2;1;0;1;2;3;4;4;4;4;3;2;1;0;0;0;1;2] /\
  vsum (get_sequence (mpositions sx_q) 100 1 false 0 None) = 4 /\
  (nth 7 (normalised (get_sequence sx_R 100 1 false 0 None) (get_sequence (mpositions sx_q) 100 1 false 0 None)) 0 == 1)%Q.
Proof. split; [repeat constructor; discriminate|]. split; [vm_compute; repeat split; reflexivity|]. vm_compute. repeat split; reflexivity. Qed.
Example C06_plateau :
  let x := xcorr (get_sequence sx_R 100 1 false 0 None) (get_sequence (mpositions sx_q) 100 1 false 0 None) in
  nth 6 x 0 = 4 /\ nth 7 x 0 = 4 /\ nth 8 x 0 = 4 /\ nth 9 x 0 = 4 /\ nth 5 x 0 = 3 /\ nth 10 x 0 = 3.
Proof. vm_compute. repeat split; reflexivity. Qed.
(* the reverse strand: reference labels on the 10 bp lattice, the mirror image of the copy of labels 2..4, read on '-' *)
Definition sx_R2 : list Z := [0; 700; 1000; 1600; 2000; 2300].
Definition sx_q2 : omap := mkMap 7 910 [0; 600; 900] 0.        (* 1600-1600, 1600-1000, 1600-700 *)
Example C06_seed_nonvacuous_reverse :
  planted sx_R2 1 3 true sx_q2 /\ Forall (fun x => (100 | x - nth 1 sx_R2 0)) (win sx_R2 1 3) /\
  get_sequence (mpositions sx_q2) 100 1 true 0 None = [1;1;1;1;1;0;0;0;1;1] /\
  nth 7 (xcorr (get_sequence sx_R2 100 1 false 0 None) (get_sequence (mpositions sx_q2) 100 1 true 0 None)) 0 = 7 /\
  window (get_sequence sx_R2 100 1 false 0 None) 7 10 = get_sequence (mpositions sx_q2) 100 1 true 0 None.
Proof. split; [vm_compute; repeat split; reflexivity|].
  split; [repeat (apply Forall_cons; [match goal with |- (_ | ?p) => exists (p / 100); vm_compute; reflexivity end|]); apply Forall_nil|].
  vm_compute. repeat split; reflexivity. Qed.
(* off the lattice the true lag need not be a maximum: labels 0, 33, 59, 92 bp, the copy of labels 2..4 (offset 33 bp = 3 * 10 bp + 3 bp):
   the correlation is [6;6;5;5;5], the true lag 3 (and 4) reaches 5, lags 0 and 1 reach 6.  The partial theorem's bounds hold: 3 <= 5 <= 6. *)
Example C06_off_lattice_not_max :
  let R := [0; 330; 590; 920] in let q := mkMap 7 600 [0; 260; 590] 0 in
  planted R 1 3 false q /\ nth 1 R 0 = Z.of_nat 3 * 100 + 30 /\
  xcorr (get_sequence R 100 1 false 0 None) (get_sequence (mpositions q) 100 1 false 0 None) = [6; 6; 5; 5; 5] /\
  vsum (get_sequence (mpositions q) 100 0 false 0 None) = 3 /\ vsum (get_sequence (mpositions q) 100 1 false 0 None) = 6.
Proof. vm_compute. repeat split; reflexivity. Qed.

Print Assumptions C06_true_lag_is_global_max.
Print Assumptions C06_true_lag_window_normalised.
Print Assumptions C06_true_lag_any_offset_partial.

(* ==================================================================================================================================
   APPENDED (2): THE TRUE LAG YIELDS A PRIMARY SEED (model/FindPeaks.v, model/Seeding.v; proofs/FindPeaksProofs4-5.v, SeedingProofs2.v)

   The text above says that which point of a plateau find_peaks reports, its filters and the edge rule stay outside the theorems.
   For the PRIMARY stage they no longer do.  For a planted grid-aligned copy (the hypotheses of C06_true_lag_window_normalised), on the
   EXACT normalised correlation c (what getInitialAlignment would compute if the FFT with the float kernel were exact; the code's doubles
   are within ~1e-15 of c, see model/Seeding.v), and provided c is below 1 somewhere on each side of the true lag k0 (the edge rule:
   scipy never reports a plateau that touches the first or last lag — a copy of the reference's very first labels at lag 0 yields NO peak
   at its true lag):

     C06_true_lag_yields_seed          the plateau [l, r] of k0 is a local maximum of c; every lag on it has c = 1 and a reference window
                                       that is bit for bit the query vector; find_peaks(height = 0.75 max, distance d) returns a peak of
                                       height exactly 1 whose bin is the plateau's midpoint (l+r)//2 or closer than d bins to it, and at
                                       that bin too the reference window IS the query vector; no returned peak is higher than 1.
     C06_true_lag_yields_seed_at_lag   if the query vector contains a 0 (its labels are not all within 2*blur+1 bins of each other), two
                                       neighbouring lags cannot both see an identical window: the plateau is the single bin k0, k0 itself
                                       is a local maximum, and the peak is AT k0 or closer than d bins to it (the latter only if another
                                       lag within d bins also shows an identical window: a repeat in the reference).
     C06_true_lag_yields_primary_peak  the same through OpticalMap.getInitialAlignment as modelled (Seeding.primary_peaks: no exception, no
                                       EmptyInitialAlignment, createPeaks' cut for peaksCount >= 1): it returns a peak of height 1 — the
                                       maximum — on this reference and strand at a bin m whose reference window is the query vector;
                                       its position is toRelativeGenomicPositions(m) = bin_to_bp m res 0 (within res/2 of every point of
                                       bin m: C06_centre).

   THE REMAINING GAP to the hypothesis of C06_pairing_exact ("the seed lies within delta of the true diagonal"):
   (1) identical windows elsewhere: the peak of height 1 is at k0 unless another lag shows the same blurred bit pattern (within d bins, or
       anywhere when more than peaksCount such peaks exist); a reference without such repeats is not characterised here;
   (2) selectPeaks ranks the peaks of ALL references and strands by height - noise level: that this peak is among the peaksCount best is
       not proved (heights elsewhere are at most 1, but noise levels differ between correlations);
   (3) InitialAlignment.refine (secondary resolution, height >= peakHeightThreshold, prominence) turns the primary position (within
       res1/2 = 700 bp of the true diagonal when m = k0) into the secondary peaks the aligner uses: C06_true_lag_is_global_max says the raw
       secondary correlation is maximal at the true lag of the secondary window when that window starts on the secondary lattice, nothing
       more is proved about the secondary stage;
   (4) floating point: see model/Seeding.v (ties of the exact correlation can be broken either way by FFT rounding noise). *)
From Coq Require Import QArith Lia.
Require Import FindPeaks Seeding FindPeaksProofs1 FindPeaksProofs4 FindPeaksProofs5 SeedingProofs2.
Open Scope Z_scope.

Theorem C06_true_lag_yields_seed R a n res r k0 (rev : bool) q d :
  1 <= res -> StronglySorted Z.le R -> (1 <= n)%nat -> (a + n <= List.length R)%nat ->
  planted R a n rev q -> nth a R 0 = Z.of_nat k0 * res ->
  (rev = true -> Forall (fun x => (res | x - nth a R 0)) (win R a n)) ->
  let vr := get_sequence R res r false 0 None in
  let vq := get_sequence (mpositions q) res r rev 0 None in
  let c := normalised vr vq in
  (exists a', (a' < k0)%nat /\ (nth a' c 0 < 1)%Q) ->
  (exists b', (k0 < b' <= List.length vr - List.length vq)%nat /\ (nth b' c 0 < 1)%Q) ->
  exists l r', (l <= k0 <= r')%nat /\ is_peak qleb 0%Q c l r' /\
    (forall k, (l <= k <= r')%nat -> (nth k c 0 == 1)%Q /\ window vr k (List.length vq) = vq) /\
    (forall p, In p (find_peaks_initial c d) -> (snd p <= 1)%Q) /\
    exists m' h', In (m', h') (find_peaks_initial c d) /\ (h' == 1)%Q /\ window vr m' (List.length vq) = vq /\
      (m' = Nat.div2 (l + r') \/ (m' - Nat.div2 (l + r') < d /\ Nat.div2 (l + r') - m' < d)%nat).
Proof. exact (planted_yields_peak R a n res r k0 rev q d). Qed.

Theorem C06_true_lag_yields_seed_at_lag R a n res r k0 (rev : bool) q d :
  1 <= res -> StronglySorted Z.le R -> (1 <= n)%nat -> (a + n <= List.length R)%nat ->
  planted R a n rev q -> nth a R 0 = Z.of_nat k0 * res ->
  (rev = true -> Forall (fun x => (res | x - nth a R 0)) (win R a n)) ->
  let vr := get_sequence R res r false 0 None in
  let vq := get_sequence (mpositions q) res r rev 0 None in
  let c := normalised vr vq in
  (exists i, (i < List.length vq)%nat /\ nth i vq 0 = 0) ->
  (exists a', (a' < k0)%nat /\ (nth a' c 0 < 1)%Q) ->
  (exists b', (k0 < b' <= List.length vr - List.length vq)%nat /\ (nth b' c 0 < 1)%Q) ->
  is_peak qleb 0%Q c k0 k0 /\ In (k0, nth k0 c 0%Q) (local_maxima qleb c) /\
  exists m' h', In (m', h') (find_peaks_initial c d) /\ (h' == 1)%Q /\ window vr m' (List.length vq) = vq /\
    (m' = k0 \/ (m' - k0 < d /\ k0 - m' < d)%nat).
Proof. exact (planted_yields_peak_at_lag R a n res r k0 rev q d). Qed.

Theorem C06_true_lag_yields_primary_peak sp ref q a n k0 (rev : bool) :
  1 <= res1 sp -> 0 <= blur1 sp -> res1 sp <= min_dist sp -> (1 <= pcount sp)%nat ->
  StronglySorted Z.le (mpositions ref) -> (1 <= n)%nat -> (a + n <= List.length (mpositions ref))%nat ->
  planted (mpositions ref) a n rev q -> mlen q <= mlen ref ->
  nth a (mpositions ref) 0 = Z.of_nat k0 * (K * res1 sp) ->
  (rev = true -> Forall (fun x => (K * res1 sp | x - nth a (mpositions ref) 0)) (win (mpositions ref) a n)) ->
  let vr := get_sequence (mpositions ref) (K * res1 sp) (Z.to_nat (blur1 sp)) false 0 None in
  let vq := get_sequence (mpositions q) (K * res1 sp) (Z.to_nat (blur1 sp)) rev 0 None in
  let c := normalised vr vq in
  (exists a', (a' < k0)%nat /\ (nth a' c 0 < 1)%Q) ->
  (exists b', (k0 < b' <= List.length vr - List.length vq)%nat /\ (nth b' c 0 < 1)%Q) ->
  exists l p m, primary_peaks sp ref q rev = Ok l /\ In p l /\ pp_ref p = ref /\ pp_rev p = rev /\ (pp_height p == 1)%Q /\
    (forall p', In p' l -> (pp_height p' <= 1)%Q) /\
    pp_pos p = bin_to_bp (Z.of_nat m) (res1 sp) 0 /\ (m <= List.length vr - List.length vq)%nat /\ window vr m (List.length vq) = vq.
Proof. exact (planted_primary_peak sp ref q a n k0 rev). Qed.

(* ---- non-vacuity ---- *)
(* sx_R / sx_q above (all-ones query vector): the plateau of the true lag 7 is [6, 9] (midpoint 7); find_peaks returns (7, 1) *)
Example C06_yields_seed_nonvacuous :
  let c := normalised (get_sequence sx_R 100 1 false 0 None) (get_sequence (mpositions sx_q) 100 1 false 0 None) in
  (nth 5 c 0 < 1)%Q /\ (nth 10 c 0 < 1)%Q /\ (10 <= 21 - 4)%nat /\ is_peak qleb 0%Q c 6 9 /\
  find_peaks_initial c 2 = [(7%nat, 8 # 8)].
Proof. cbv zeta. split; [reflexivity|]. split; [reflexivity|]. split; [lia|]. split; [|vm_compute; reflexivity].
  unfold is_peak. split; [lia|]. split; [lia|]. split; [vm_compute; lia|]. split; [|split; vm_compute; reflexivity].
  intros k Hk. assert (k = 6 \/ k = 7 \/ k = 8 \/ k = 9)%nat as [->|[->|[->| ->]]] by lia; vm_compute; reflexivity. Qed.
(* sx_R2 / sx_q2 above (reverse strand; the query vector [1;1;1;1;1;0;0;0;1;1] contains a 0): the plateau is the single bin 7 *)
Example C06_yields_seed_at_lag_nonvacuous :
  let vq := get_sequence (mpositions sx_q2) 100 1 true 0 None in
  let c := normalised (get_sequence sx_R2 100 1 false 0 None) vq in
  nth 5 vq 0 = 0 /\ (nth 6 c 0 < 1)%Q /\ (nth 8 c 0 < 1)%Q /\ is_peak qleb 0%Q c 7 7 /\ find_peaks_initial c 2 = [(7%nat, 14 # 14)].
Proof. cbv zeta. split; [reflexivity|]. split; [reflexivity|]. split; [reflexivity|]. split; [|vm_compute; reflexivity].
  unfold is_peak. split; [lia|]. split; [lia|]. split; [vm_compute; lia|]. split; [|split; vm_compute; reflexivity].
  intros k Hk. assert (k = 7)%nat as -> by lia. vm_compute. reflexivity. Qed.
(* through getInitialAlignment as modelled: the map of C16_ex_seeds (resolution 10 bp): the forward copy of labels 2..5, true lag 7 *)
Example C06_yields_primary_peak_nonvacuous :
  let ref := mkMap 1 4000 [0; 700; 1000; 1600; 2000; 2300; 3100; 3500] 0 in
  let q := mkMap 7 1310 [0; 300; 900; 1300] 0 in
  let sp := mkSP 10 1 20 3 5 1 40 (2 # 1) in
  planted (mpositions ref) 1 4 false q /\ nth 1 (mpositions ref) 0 = Z.of_nat 7 * (K * res1 sp) /\ mlen q <= mlen ref /\
  match primary_peaks sp ref q false with Ok l => List.map (fun p => (pp_pos p, pp_height p)) l = [(74, (20 # 20)%Q)] | Err => False end /\
  bin_to_bp 7 10 0 = 74.
Proof. cbv zeta. split; [vm_compute; repeat split; reflexivity|]. vm_compute. repeat split; try reflexivity; intros; discriminate. Qed.

Print Assumptions C06_true_lag_yields_seed.
Print Assumptions C06_true_lag_yields_seed_at_lag.
Print Assumptions C06_true_lag_yields_primary_peak.

(* ==================================================================================================================================
   APPENDED (3): THE FULL STATEMENT IS REFUTED FOR THE CODE AS IT IS  (open findings F13 and F15, known_findings.json)

   FULL C06: "If a query's labels are an exact copy of at least 15 consecutive labels from the interior of a reference with realistic
   label spacing, given on either strand and with any coordinate offset, COMA reports that query on that reference and strand with exactly
   the true label-to-label pairs, each within 200 bp of the seed diagonal, and with no HitEnum gaps" — for all single-reference maps with
   label spacing >= 2 kb (mean >= 9 kb), all interior windows of 15-45 labels at least 4 labels from either reference end, both strands,
   any query coordinate offset and trailing length; default parameters, every output mode.

   The two gaps left open above, (1)/(2) "the peak of the true lag is among the peaksCount best" and "no other candidate scores higher",
   are not merely unproved: they are FALSE on references that contain DIVERGED DUPLICATES of the window (segmental duplications with a label
   lost, gained or moved), which the quantifier admits.  Both witnesses below are inside the quantifier (every spacing >= 2 kb, mean
   >= 9 kb, 15-label window >= 4 labels from either end, forward strand, offset 0), are evaluated with the DEFAULT parameters at real
   scale (positions in tenths of a base pair) through the executable whole-run model Seeding.program_run_full, and are run through the real
   program by harness/props/C06.py (stream planted_decoys: same records in all four output modes).

   F13  C06_top_seeds_refuted.  The primary correlation (1400-bp bins, blur 1) of an exact copy reaches height 1 only when the window
        starts near a bin border (C06_true_lag_yields_seed needs r_a = k0 * res).  The witness window starts in the middle of a bin and
        reaches 72/81 = 0.889; three duplicates of it with ONE label missing each start on bin borders and reach 80/81, 78/80, 76/79.
        createPeaks keeps the peaksCount = 3 highest peaks of the correlation, selectPeaks the 3 best scores: the true lag is 4th, it is
        never refined, never aligned; every seed is more than 20 kb away; the run reports the query on the first duplicate with 14 pairs
        and HitEnum 12M1I2M instead of (6,1)..(20,15), 15M.  Not a small repair: keeping only the best few correlation peaks IS the seeding
        heuristic (more peaks = proportionally more refinement and alignment work per query), and the height lost to the bin phase
        (up to ~13 %) is inherent to a 1400-bp grid with blur 1.
   F15  C06_best_candidate_refuted.  Even when the true locus IS refined and its candidate is perfect (exactly the true pairs, 15M), the
        candidate's confidence is 15 * (1000 - e) where e = distance of the secondary seed peak (100-bp bins, blur 4, midpoint of a plateau)
        from the true diagonal: an artefact of up to ~125 bp, here 48 bp.  ONE duplicate of the window with one EXTRA label whose
        secondary peak happens to fall 2 bp from its diagonal scores 15 * 998 - 250 = 14720 > 14280 and is reported (8M1D7M).
        Not a small repair either: the score of a pair is defined relative to the seed diagonal, not to the other pairs. *)
From Coq Require Import String.
Require Import Pairing Core Multi Cigar Coordinator PlantedProofs1 PlantedProofs2 PlantedProofs3 SeedingProofsF13.
Local Open Scope Z_scope.

Theorem C06_top_seeds_refuted :
  exists (ref q : omap) (a n : nat),
    (* inside the quantifier: spacings > 1999.9 bp, mean spacing >= 9 kb, an exact forward copy of n = 15 labels, >= 4 labels from either end *)
    consec_gt 19999 (mpositions ref) /\
    90000 * (Z.of_nat (List.length (mpositions ref)) - 1) <= last (mpositions ref) 0 - hd 0 (mpositions ref) /\
    planted (mpositions ref) a n false q /\ n = 15%nat /\ (4 <= a)%nat /\ (a + n + 4 <= List.length (mpositions ref))%nat /\
    (* find_peaks does return a peak at the true lag (bin 40 = the bin of r_a = 56700.0 bp), but three other peaks are higher *)
    (exists l t, primary_peaks sp_all ref q false = Ok l /\ In t l /\ pp_pos t = bin_to_bp (nth a (mpositions ref) 0 / (K * 1400)) 1400 0 /\
       (3 <= List.length (filter (fun p => negb (Qle_bool (pp_height p) (pp_height t))) l))%nat) /\
    (* the seeds of the default parameters: all three on the forward strand, every secondary peak more than minPeakDistance = 20 kb from the true lag *)
    (exists l, seeds_model default_sparams [ref] q = l /\ List.length l = 3%nat /\
       forall s, In s l -> sd_rev s = false /\ forall p, In p (sd_peaks s) -> K * 20000 < Z.abs (p - nth a (mpositions ref) 0)) /\
    (* the whole run, mode best: ONE record, not the true pairs, with a HitEnum gap *)
    (exists o w, program_run_full default_params default_sparams Best (K * 100000) [ref] [q] = Ok o /\ o_main o = [w] /\
       pair_sites (rsegs w) <> true_pairs a n false /\ List.length (pair_sites (rsegs w)) = 14%nat /\
       cigar_string (pair_sites (rsegs w)) = Ok "12M1I2M"%string).
Proof. exact f13_refuted. Qed.

Theorem C06_best_candidate_refuted :
  exists (ref q : omap) (a n : nat),
    consec_gt 19999 (mpositions ref) /\
    90000 * (Z.of_nat (List.length (mpositions ref)) - 1) <= last (mpositions ref) 0 - hd 0 (mpositions ref) /\
    planted (mpositions ref) a n false q /\ n = 15%nat /\ (4 <= a)%nat /\ (a + n + 4 <= List.length (mpositions ref))%nat /\
    (* the FIRST seed is the true locus: forward strand, one secondary peak, 48 bp (<= 200 bp) from the true diagonal *)
    (exists pk rest, seeds_model default_sparams [ref] q = mkSeed ref false [pk] :: rest /\ Z.abs (pk - nth a (mpositions ref) 0) = K * 48) /\
    (* its candidate is perfect: exactly the true pairs, all 48 bp from the seed diagonal, 15M, confidence 15 * (1000 - 48) *)
    (exists pk segs, Z.abs (pk - nth a (mpositions ref) 0) = K * 48 /\ aligner_align default_params 1 ref q [pk] false = Ok segs /\
       pair_sites segs = true_pairs a n false /\ pair_shifts segs = repeat (K * 48) n /\ cigar_string (pair_sites segs) = Ok "15M"%string /\
       conf (row_create segs (mid q) (mid ref) (mlen q) (mlen ref) false) = 20 * 14280) /\
    (* and still the whole run (mode best) reports ONE record that is not the true pairs: a duplicate, 8M1D7M, confidence 14720 > 14280 *)
    (exists o w, program_run_full default_params default_sparams Best (K * 100000) [ref] [q] = Ok o /\ o_main o = [w] /\
       pair_sites (rsegs w) <> true_pairs a n false /\ List.length (pair_sites (rsegs w)) = 15%nat /\
       cigar_string (pair_sites (rsegs w)) = Ok "8M1D7M"%string /\ conf w = 20 * 14720).
Proof. exact f14_refuted. Qed.

(* the hypotheses of the partial theorems hold on F13's witness (so it is a witness against the missing half, not against them): the deterministic
   half C06_default applied to a seed ON the true diagonal gives the true pairs and 15M — the run never gets there *)
Example C06_refuted_witness_true_seed_would_do :
  match aligner_align default_params 1 f13_ref f13_q [567000] false with
  | Ok segs => pair_sites segs = true_pairs 5 15 false /\ cigar_string (pair_sites segs) = Ok "15M"%string
  | Err => False end.
Proof. vm_compute. split; reflexivity. Qed.

Print Assumptions C06_top_seeds_refuted.
Print Assumptions C06_best_candidate_refuted.

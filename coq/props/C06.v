(* C06 — A noise-free copy of an interior reference region is placed exactly.            *** PARTIAL BY CONSTRUCTION ***

   Property text: "If a query's labels are an exact copy of at least 15 consecutive labels from the interior of a reference with
   realistic label spacing, given on either strand and with any coordinate offset, COMA reports that query on that reference and
   strand with exactly the true label-to-label pairs, each within 200 bp of the seed diagonal, and with no HitEnum gaps."

   WHAT IS PROVED HERE AND WHAT IS NOT.
   COMA finds the diagonal numerically: FFT cross-correlation of blurred bit vectors (scipy.signal.correlate, method='fft'),
   scipy.signal.find_peaks on floating-point heights (primary resolution 1400/blur 1, then secondary resolution 100/blur 4 inside a
   16 kb margin), and finally the candidate with the highest confidence wins.  The statement "some seed peak of the winning
   candidate lies within 200 bp of the true diagonal, and no other candidate scores higher" is a statement about floating-point FFT
   output and scipy's peak finder; it is NOT modelled in Gallina and NOT proved.  It is MEASURED: harness/props/C06.py runs the real
   COMA end to end on generated single-reference data sets (spacing >= 2 kb, mean >= 9 kb; interior windows of 15-45 labels; both
   strands; coordinate offsets and trailing lengths; four output modes) and checks the complete property text on the files and, from
   the captured winning candidate, |queryShift| <= 200 for every pair.

   The DETERMINISTIC HALF is proved below, under the hypothesis
        Z.abs (peak - r_a) <= delta          "the seed lies within delta of the true diagonal"
   (r_a = position of the first copied reference label; the true diagonal of a trimmed query is reference start = r_a):
     C06_pairing_exact   the list AlignerEngine.align returns is, label by label, the search window in order: every copied reference
                         label paired with its copy (offset = peak - r_a, so |offset| <= delta), every other window label unpaired,
                         no unpaired query label.  Spacing needed: NEIGHBOURING REFERENCE LABELS MORE THAN 2*delta APART
                         (with delta = 200 bp: more than 400 bp; the 2 kb of the quantifier is far inside.  This is sharper than
                         "more than d + delta": a second reference label within maxPairDistance of a query label does produce a
                         competing candidate pair, but AlignedPair.deduplicate keeps the strictly nearer one; C06_spacing_sharp
                         shows that at 2*delta or less the wrong neighbour can win).  delta <= maxPairDistance.
     C06_factory_blocks  the segment builder on a score list  su^u ++ x^n ++ su^v  (su <= 0 < x, x + bs > 0, n*x >= ms) returns exactly
                         the one range [u, u+n): it starts at the first positive score and ends at the last maximum; unpaired
                         reference labels before/after the copy are cut.
     C06_single_segment  hence exactly one segment, holding exactly the n true pairs, each scored SP - DPU*|peak - r_a|.
     C06_row             with that single seed peak Aligner.align returns that segment; the row lists exactly the true pairs
                         (a+1+k, k+1) on '+', (a+1+k, n-k) on '-'; all offsets equal peak - r_a; confidence n*(SP - DPU*|peak - r_a|);
                         HitEnum is "nM".  (One peak only: with several secondary peaks the conflict resolver runs; that case is
                         covered by the end-to-end measurement and by C15/C01, not by this theorem.)
     C06_default         the same instantiated at the default parameters with delta = 200 bp: every side condition holds for n >= 2,
                         a fortiori for the 15-45 labels of the quantifier.
     C06_centre          (re-export of C16_centre) a correlation bin converts back to within half a resolution of every coordinate of
                         the bin: with the secondary resolution 100 the quantisation contributes <= 50 bp; the rest of the 200 bp budget covers
                         the plateau that the secondary blur (4 bins of 100 bp on either side of every label) gives the correlation maximum
                         and scipy's choice of a point on it — measured (the check's evidence file records the distribution of the measured
                         max |queryShift|), not proved.

   Units as in model/Core.v: positions/lengths in tenths of a base pair (K = 10 = one bp), scores x20, DPU = 2*dp.
   Labels are numbered from 1; the window is R[a .. a+n-1] with 0-based a, i.e. reference labels a+1 .. a+n.
   This file contains only statements; every proof is `exact <lemma>`. *)
From Coq Require Import ZArith QArith List Bool String.
Import ListNotations.
Require Import Py Pairing PairingProofs4 Core Multi Cigar Fac Vec Centre PlantedProofs1 PlantedProofs2 PlantedProofs3.
Open Scope Z_scope.

(* Vocabulary (proofs/PlantedProofs1-3.v):
     consec_gt g l        every two neighbouring elements of l are more than g apart (ascending)
     win R a n            = firstn n (skipn a R), the copied positions
     planted R a n rev q  q is the TRIMMED noise-free copy: mshift q = 0, mlen q = R[a+n-1] - R[a] + K, and
                          mpositions q = map (fun p => p - R[a]) (win R a n)                       on '+'
                                       = map (fun p => R[a+n-1] - p) (rev (win R a n))  (mirror image) on '-'
     qnum a n rev s       the query label number matched with reference label number s: s - a on '+', a + n + 1 - s on '-'
     true_pairs a n rev   [(a+1, 1); (a+2, 2); ...; (a+n, n)] on '+',  [(a+1, n); (a+2, n-1); ...; (a+n, 1)] on '-'
     pair_sites segs      (reference label, query label) of the aligned pairs of a row, in row order
     pair_shifts segs     their queryShift values *)

Theorem C06_vocabulary R a n rev q :
  (planted R a n rev q <->
     mshift q = 0 /\ mlen q = nth (a + n - 1) R 0 - nth a R 0 + K /\
     mpositions q = if rev then map (fun p => nth (a + n - 1) R 0 - p) (List.rev (firstn n (skipn a R)))
                    else map (fun p => p - nth a R 0) (firstn n (skipn a R))) /\
  List.length (true_pairs a n rev) = n /\
  forall k, (k < n)%nat -> nth k (true_pairs a n rev) (0, 0) = (Z.of_nat a + 1 + Z.of_nat k, if rev then Z.of_nat n - Z.of_nat k else 1 + Z.of_nat k).
Proof. exact (planted_vocabulary R a n rev q). Qed.

(* ---- the pairing along a seed within delta of the true diagonal is exact (both strands) ---- *)
Theorem C06_pairing_exact d delta it ref q a n start stop (rev : bool) :
  0 <= delta <= d ->
  consec_gt (2 * delta) (mpositions ref) ->
  mshift ref = 0 -> (1 <= n)%nat -> (a + n <= List.length (mpositions ref))%nat ->
  planted (mpositions ref) a n rev q ->
  let ra := nth a (mpositions ref) 0 in let rl := nth (a + n - 1) (mpositions ref) 0 in
  Z.abs (start - ra) <= delta ->
  start + (rl - ra) <= stop ->                       (* holds for stop = start + mlen q, the value Aligner.getSegments passes *)
  let L := positions_with_ids ref false in
  let inw := fun r => (start - d <=? lpos r) && (lpos r <=? stop + d) in
  align_engine d it ref q start stop rev =
    map URef (filter inw (firstn a L)) ++
    map (fun r => Pair r (mkLabel (qnum a n rev (site r)) (lpos r - ra)) (start - ra) it) (firstn n (skipn a L)) ++
    map URef (filter inw (skipn (a + n) L)).
Proof. exact (planted_engine_exact d delta it ref q a n start stop rev). Qed.

(* ---- the segment builder on unpaired^u ++ pair^n ++ unpaired^v ---- *)
Theorem C06_factory_blocks ms bs su x u n v :
  0 < ms -> su <= 0 -> 0 < x -> 0 < x + bs -> ms <= Z.of_nat n * x ->
  factory_ranges ms bs (repeat su u ++ repeat x n ++ repeat su v) = [(u, (u + n)%nat, Z.of_nat n * x)].
Proof. exact (factory_three_blocks ms bs su x u n v). Qed.

(* ---- exactly one segment with exactly the n true pairs ---- *)
Theorem C06_single_segment P delta it ref q a n peak (rev : bool) :
  0 <= delta <= DMAX P ->
  consec_gt (2 * delta) (mpositions ref) ->
  mshift ref = 0 -> (1 <= n)%nat -> (a + n <= List.length (mpositions ref))%nat ->
  planted (mpositions ref) a n rev q ->
  let ra := nth a (mpositions ref) 0 in
  Z.abs (peak - ra) <= delta ->
  0 <= DPU P -> SU P <= 0 -> 0 < MS P -> 0 <= BS P ->
  0 < SP P - DPU P * delta ->
  MS P <= Z.of_nat n * (SP P - DPU P * delta) ->
  get_segments P (map (score_pos P) (align_engine (DMAX P) it ref q peak (peak + mlen q) rev)) peak =
    [seg_create (map (fun r => mkS (Pair r (mkLabel (qnum a n rev (site r)) (lpos r - ra)) (peak - ra) it) (SP P - DPU P * Z.abs (peak - ra)))
                     (firstn n (skipn a (positions_with_ids ref false)))) peak].
Proof. exact (planted_segments_for_peak P delta it ref q a n peak rev). Qed.

(* ---- the candidate row built from that single seed peak ---- *)
Theorem C06_row P delta it ref q a n peak (rev : bool) :
  0 <= delta <= DMAX P ->
  consec_gt (2 * delta) (mpositions ref) ->
  mshift ref = 0 -> (1 <= n)%nat -> (a + n <= List.length (mpositions ref))%nat ->
  planted (mpositions ref) a n rev q ->
  let ra := nth a (mpositions ref) 0 in
  Z.abs (peak - ra) <= delta ->
  0 <= DPU P -> SU P <= 0 -> 0 < MS P -> 0 <= BS P ->
  0 < SP P - DPU P * delta ->
  MS P <= Z.of_nat n * (SP P - DPU P * delta) ->
  exists seg,
    aligner_align P it ref q [peak] rev = Ok [seg] /\
    let w := row_create [seg] (mid q) (mid ref) (mlen q) (mlen ref) rev in
    rsegs w = [seg] /\ qid w = mid q /\ rid w = mid ref /\ rrev w = rev /\
    pair_sites (rsegs w) = true_pairs a n rev /\
    pair_shifts (rsegs w) = repeat (peak - ra) n /\
    conf w = Z.of_nat n * (SP P - DPU P * Z.abs (peak - ra)) /\
    cigar_string (pair_sites (rsegs w)) = Ok (print_nat n ++ "M")%string.
Proof. exact (planted_row_full P delta it ref q a n peak rev). Qed.

(* ---- default parameters, delta = 200 bp, spacing >= 2 kb ---- *)
Theorem C06_default_side_conditions n : (2 <= n)%nat ->
  let P := default_params in let delta := 2000 in
  0 <= delta <= DMAX P /\ 0 <= DPU P /\ SU P <= 0 /\ 0 < MS P /\ 0 <= BS P /\ 0 < SP P - DPU P * delta /\
  MS P <= Z.of_nat n * (SP P - DPU P * delta).
Proof. exact (default_side_conditions n). Qed.

Theorem C06_default it ref q a n peak (rev : bool) :
  consec_gt 19999 (mpositions ref) ->
  mshift ref = 0 -> (2 <= n)%nat -> (a + n <= List.length (mpositions ref))%nat ->
  planted (mpositions ref) a n rev q ->
  Z.abs (peak - nth a (mpositions ref) 0) <= 2000 ->
  let seg := planted_segment default_params it ref a n peak rev in
  aligner_align default_params it ref q [peak] rev = Ok [seg] /\
  pair_sites [seg] = true_pairs a n rev /\
  pair_shifts [seg] = repeat (peak - nth a (mpositions ref) 0) n /\
  cigar_string (pair_sites [seg]) = Ok (print_nat n ++ "M")%string.
Proof. exact (planted_default it ref q a n peak rev). Qed.

(* ---- seed quantisation: a correlation bin converts back to within half a resolution (re-export of C16_centre) ---- *)
Theorem C06_centre k res start x : 1 <= res -> start + k * res <= x < start + (k + 1) * res ->
  let bp := bin_to_bp k res start in
  start + k * res <= bp < start + (k + 1) * res /\ 2 * Z.abs (bp - x) <= res.
Proof. exact (bin_centre k res start x). Qed.

(* ---- non-vacuity: a 26-label reference (gaps of exactly 2 kb and 2000.1 bp among them), its labels 6..21 copied (a = 5, n = 16),
        the seed 200 bp beyond / before the true diagonal, default parameters ---- *)
Definition ex_ref : omap :=
  mkMap 1 1515507 [50000; 70000; 90001; 110001; 200001; 245006; 365006; 388006; 458006; 478006; 509006; 659006; 685006; 767006; 787007; 837007;
                   857007; 956007; 989007; 1199007; 1226507; 1287507; 1307507; 1351507; 1481507; 1510507] 0.
Definition ex_fwd : omap :=
  mkMap 7 981511 [0; 120000; 143000; 213000; 233000; 264000; 414000; 440000; 522000; 542001; 592001; 612001; 711001; 744001; 954001; 981501] 0.
Definition ex_rev : omap :=      (* the mirror image of ex_fwd *)
  mkMap 7 981511 [0; 27500; 237500; 270500; 369500; 389500; 439500; 459501; 541501; 567501; 717501; 748501; 768501; 838501; 861501; 981501] 0.

Example C06_nonvacuous_forward :
  consec_gt 19999 (mpositions ex_ref) /\ planted (mpositions ex_ref) 5 16 false ex_fwd /\
  Z.abs (247006 - nth 5 (mpositions ex_ref) 0) <= 2000 /\
  match aligner_align default_params 1 ex_ref ex_fwd [247006] false with
  | Ok segs => List.length segs = 1%nat /\
               pair_sites segs = [(6,1); (7,2); (8,3); (9,4); (10,5); (11,6); (12,7); (13,8); (14,9); (15,10); (16,11); (17,12); (18,13); (19,14); (20,15); (21,16)] /\
               pair_shifts segs = repeat 2000 16 /\
               cigar_string (pair_sites segs) = Ok "16M"%string /\
               conf (row_create segs 7 1 981511 1515507 false) = 16 * (20000 - 2 * 2000)
  | Err => False
  end.
Proof. vm_compute. repeat split; intros; discriminate || reflexivity. Qed.

Example C06_nonvacuous_reverse :
  planted (mpositions ex_ref) 5 16 true ex_rev /\
  Z.abs (243006 - nth 5 (mpositions ex_ref) 0) <= 2000 /\
  match aligner_align default_params 1 ex_ref ex_rev [243006] true with
  | Ok segs => List.length segs = 1%nat /\
               pair_sites segs = [(6,16); (7,15); (8,14); (9,13); (10,12); (11,11); (12,10); (13,9); (14,8); (15,7); (16,6); (17,5); (18,4); (19,3); (20,2); (21,1)] /\
               pair_shifts segs = repeat (-2000) 16 /\
               cigar_string (pair_sites segs) = Ok "16M"%string
  | Err => False
  end.
Proof. vm_compute. repeat split; intros; discriminate || reflexivity. Qed.

(* the general theorem applies to the example (its hypotheses are met) and gives the same answer *)
Example C06_example_by_theorem :
  pair_sites [planted_segment default_params 1 ex_ref 5 16 247006 false] = true_pairs 5 16 false /\
  aligner_align default_params 1 ex_ref ex_fwd [247006] false = Ok [planted_segment default_params 1 ex_ref 5 16 247006 false].
Proof. split; vm_compute; reflexivity. Qed.

(* sharpness of the spacing condition: two reference labels 300 bp apart (<= 2*delta = 400 bp), seed 200 bp before the true diagonal:
   the copy of reference label 2 is paired with reference label 1 *)
Example C06_spacing_sharp :
  let ref := mkMap 1 200000 [100000; 103000; 140000; 180000] 0 in
  let q := mkMap 7 37010 [0; 37000] 0 in
  planted (mpositions ref) 1 2 false q /\ Z.abs (101000 - nth 1 (mpositions ref) 0) <= 2000 /\
  filter is_pair_apos (align_engine 15000 1 ref q 101000 (101000 + 37010) false)
    = [Pair (mkLabel 1 100000) (mkLabel 1 0) 1000 1; Pair (mkLabel 3 140000) (mkLabel 2 37000) (-2000) 1].
Proof. vm_compute. repeat split; intros; discriminate || reflexivity. Qed.

Print Assumptions C06_vocabulary.
Print Assumptions C06_pairing_exact.
Print Assumptions C06_factory_blocks.
Print Assumptions C06_single_segment.
Print Assumptions C06_row.
Print Assumptions C06_default_side_conditions.
Print Assumptions C06_default.
Print Assumptions C06_centre.

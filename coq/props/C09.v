(* C09 — Output does not depend on the number of worker processes or on the run.
   "For fixed inputs and parameters the XMAP files are byte-identical (apart from the header line that echoes the arguments) for
    every value of --cpus and on every repetition, whatever order the per-query workers finish in."

   PARTIAL FOR THIS TECHNIQUE.  Real process scheduling, dill pickling of the task closure, fork semantics and OS behaviour
   cannot be exhibited by a Gallina model.  What IS proved here is the LOGIC that makes the output schedule independent:
     - the only state one task (one query) leaves behind in a worker process for the next task of that process is the counter
       AlignerEngine.iteration (model: the argument `it` of aligner_align / candidate_rows / align_query);
     - that counter reaches the `source` field of aligned pairs and nothing else: every stage of the pipeline (pairing, scoring,
       segment factory, chainer, conflict resolver, row creation, best-candidate choice, second-pass fragments, filtering,
       joining, sorting) commutes with erasing `source`, including whether it raises;
     - the XMAP writer prints no function of `source`.
   Hence, for ANY assignment `its` of starting counters to tasks (model/Pool.v: an arbitrary function, one value per task and
   per pass — every real schedule with any number of workers is an instance, Coordinator.execute/program_run is the 1-process
   instance), the data lines of all output files are the same.
   TRUSTED (not modelled; exercised by the end-to-end oracle of harness/props/C09.py with -c 1..16, repetitions and perturbed
   completion orders): p_imap returns results in input order; workers share nothing but their private engine counter
   (no files, no globals, no hash-order or id()-order dependence); exceptions propagate; the seeding stage (numpy/scipy) is a
   deterministic function of (references, query) — here the abstract `seeds`, all theorems are for ALL seeding functions.
   The "# coma ..." header line echoes --numberOfCpus and is excluded by the property text; the remaining header lines do not
   depend on the run (host name, file names) and are outside the model.

   erase_* (model/Pool.v) set every `source` to 0 and change nothing else (C09_erasure_only_source). *)
From Coq Require Import ZArith QArith List Bool String.
Import ListNotations.
Require Import Py Pairing Core Multi Coordinator Pool SrcErase PoolProofs1 PoolProofs2.
Open Scope Z_scope.

(* Aligner.align: everything except the source fields — pairs, offsets, scores, segments, their order, and whether the call
   raises — is independent of the engine counter *)
Theorem C09_source_noninterference P it1 it2 ref q peaks rev :
  map_res (map erase_segment) (aligner_align P it1 ref q peaks rev) = map_res (map erase_segment) (aligner_align P it2 ref q peaks rev).
Proof. exact (aligner_align_NI P it1 it2 ref q peaks rev). Qed.

(* candidate rows of a query and the best candidate: ids, strand, positions, confidence, rest flag, site pairs, HitEnum text and
   lengths (crow_of) are independent of the counter the task starts from; so are the rows themselves up to source *)
Theorem C09_row_noninterference P (seeds : seeding) refs q sds it1 it2 :
  map_res (fun r => map crow_of (fst r)) (candidate_rows P q sds it1) = map_res (fun r => map crow_of (fst r)) (candidate_rows P q sds it2) /\
  map_res (fun r => option_map crow_of (fst r)) (align_query P seeds refs q it1) =
  map_res (fun r => option_map crow_of (fst r)) (align_query P seeds refs q it2).
Proof. exact (row_noninterference P seeds refs q sds it1 it2). Qed.
Theorem C09_row_noninterference_rows P (seeds : seeding) refs q it1 it2 :
  map_res (fun r => option_map erase_row (fst r)) (align_query P seeds refs q it1) =
  map_res (fun r => option_map erase_row (fst r)) (align_query P seeds refs q it2).
Proof. exact (align_query_NI P seeds refs q it1 it2). Qed.

(* any two schedules (its1, its2 = starting counters of the tasks of the first and of the second pass): same rows up to source
   from the pool, same outputs up to source from the whole run in every mode, and the same printed data lines in every file *)
Theorem C09_schedule_independent P (seeds : seeding) m maxdiff refs qs its1 its2 its1' its2' :
  map_res (map erase_row) (pool_execute P seeds refs qs its1) = map_res (map erase_row) (pool_execute P seeds refs qs its1') /\
  map_res erase_outputs (pool_program_run P seeds m maxdiff refs qs its1 its2) =
  map_res erase_outputs (pool_program_run P seeds m maxdiff refs qs its1' its2') /\
  bind (pool_program_run P seeds m maxdiff refs qs its1 its2) print_outputs =
  bind (pool_program_run P seeds m maxdiff refs qs its1' its2') print_outputs.
Proof. exact (schedule_independent P seeds m maxdiff refs qs its1 its2 its1' its2'). Qed.

(* the run model validated against real runs (Coordinator.program_run: one process, one counter threaded through both passes) is
   one of the schedules, and prints what every other schedule prints *)
Theorem C09_sequential_is_a_schedule P (seeds : seeding) refs qs it :
  map_res fst (execute P seeds refs qs it) = pool_execute P seeds refs qs (seq_its seeds refs qs it).
Proof. exact (execute_is_pool P seeds refs qs it). Qed.
Theorem C09_program_run_any_schedule P (seeds : seeding) m maxdiff refs qs its1 its2 :
  bind (program_run P seeds m maxdiff refs qs) print_outputs = bind (pool_program_run P seeds m maxdiff refs qs its1 its2) print_outputs.
Proof. exact (program_run_any_schedule P seeds m maxdiff refs qs its1 its2). Qed.
(* a single worker process started with counter c is the sequential schedule *)
Theorem C09_one_worker (seeds : seeding) refs qs start k :
  worker_its seeds refs qs (fun _ => 0%nat) start k = seq_its seeds refs qs (start 0%nat) k.
Proof. exact (worker_its_one seeds refs qs start k). Qed.

(* the writer is blind to source; erasure forgets source and nothing else *)
Theorem C09_writer_blind w : xrow_of (erase_row w) = xrow_of w /\ crow_of (erase_row w) = crow_of w.
Proof. exact (conj (xrow_of_E w) (crow_of_E w)). Qed.
Theorem C09_erasure_only_source a b : erase_apos a = erase_apos b ->
  a = b \/ exists r q s x y, a = Pair r q s x /\ b = Pair r q s y.
Proof. exact (erase_apos_inv a b). Qed.

(* ---- non-vacuity: the raw results DO differ between counters / schedules, in the source fields only ---- *)
Definition P0 := mkP 20000 2 (-5000) 20000 24000 15000 (inject_Z 20) 0.      (* the default parameters *)
Definition R1 := mkMap 1 1500000 [10000; 30000; 60000; 100000; 150000; 220000; 300000; 390000; 490000; 600000] 0.
Definition Q1 := mkMap 7 140010 [0; 20000; 50000; 90000; 140000] 0.
Definition Q2 := mkMap 8 200010 [0; 70000; 150000; 200000] 0.
Definition sd0 : seeding :=
  fun refs q => List.map (fun r => mkSeed r false (if mid q =? 7 then [10000; 10500] else [150000])) refs.
Definition sources (x : res (list segment)) : res (list (list Z)) :=
  map_res (List.map (fun s => List.map (fun p => match ap p with Pair _ _ _ src => src | _ => -1 end) (positions s))) x.

Example C09_nonvacuous_engine :
  sources (aligner_align P0 1 R1 Q1 [10000; 10500] false) = Ok [[1; 1; 1; 1; 1]] /\
  sources (aligner_align P0 4 R1 Q1 [10000; 10500] false) = Ok [[4; 4; 4; 4; 4]] /\
  map_res (List.map erase_segment) (aligner_align P0 1 R1 Q1 [10000; 10500] false) =
  map_res (List.map erase_segment) (aligner_align P0 4 R1 Q1 [10000; 10500] false).
Proof. vm_compute. repeat split; reflexivity. Qed.

(* two queries, mode 'all': a pool that starts every task from a fresh engine (counter 1) and the sequential schedule
   (the second query starts from counter 3) return different rows ... *)
Example C09_nonvacuous_pool :
  map_res (List.map (fun w => sources (Ok (rsegs w)))) (pool_execute P0 sd0 [R1] [Q1; Q2] (fun _ => 1)) = Ok [Ok [[1; 1; 1; 1; 1]]; Ok [[1; 1; 1]]] /\
  map_res (List.map (fun w => sources (Ok (rsegs w)))) (pool_execute P0 sd0 [R1] [Q1; Q2] (seq_its sd0 [R1] [Q1; Q2] 1)) = Ok [Ok [[1; 1; 1; 1; 1]]; Ok [[3; 3; 3]]].
Proof. vm_compute. split; reflexivity. Qed.
(* ... and print the same three files *)
Example C09_nonvacuous_printed :
  let expected := Ok (mkPrinted
    ["1	8	1	0.0	15000.0	15000.0	30000.0	+	3000.00	3M	20001.0	150000.0	False	1	(5,1)(6,2)(7,3)"%string]
    (Some ["1	7	1	0.0	14000.0	1000.0	15000.0	+	5000.00	5M	14001.0	150000.0	False	1	(1,1)(2,2)(3,3)(4,4)(5,5)"%string;
           "2	8	1	0.0	15000.0	15000.0	30000.0	+	3000.00	3M	20001.0	150000.0	False	1	(5,1)(6,2)(7,3)"%string])
    (Some ["1	8	1	0.0	15000.0	15000.0	30000.0	+	3000.00	3M	20001.0	150000.0	True	1	(5,1)(6,2)(7,3)"%string])) in
  bind (pool_program_run P0 sd0 All_ 1000000 [R1] [Q1; Q2] (fun _ => 1) (fun _ => 1)) print_outputs = expected /\
  bind (pool_program_run P0 sd0 All_ 1000000 [R1] [Q1; Q2] (fun k => 100 - 7 * Z.of_nat k) (fun k => Z.of_nat k)) print_outputs = expected /\
  bind (program_run P0 sd0 All_ 1000000 [R1] [Q1; Q2]) print_outputs = expected.
Proof. vm_compute. repeat split; reflexivity. Qed.

Print Assumptions C09_source_noninterference.
Print Assumptions C09_row_noninterference.
Print Assumptions C09_row_noninterference_rows.
Print Assumptions C09_schedule_independent.
Print Assumptions C09_sequential_is_a_schedule.
Print Assumptions C09_program_run_any_schedule.
Print Assumptions C09_one_worker.
Print Assumptions C09_writer_blind.
Print Assumptions C09_erasure_only_source.

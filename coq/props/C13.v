(* C13 — Segments are maximal positive-scoring runs that respect both thresholds.
   Model: model/Fac.v (the builder loop of segments_factory.py as a left fold, including the stale currentSegment quirk)
   and Core.get_segments.  l is the list of position scores; a range r = (rA, rB, rX) is the half-open index interval
   [rA, rB) with score rX;  psum l a b = sum of l[a..b). *)
From Coq Require Import ZArith QArith List Bool Sorting.Sorted.
Import ListNotations.
Require Import Py Pairing Core Psum FacProofs FacSegs FacConverse FacComplete.
Open Scope Z_scope.

(* seg_ok l r:  rA < rB <= |l|,  rX = psum l rA rB >= ms,  every non-empty prefix sum is positive and more than
                (earlier prefix - bs),  no proper prefix reaches the total (first maximum);
   seg_max l r: scanning right from rB the running sum never exceeds rX before it falls to <= max(0, rX - bs) (or the list ends);
   StronglySorted: ranges in order and separated by at least one skipped position. *)
Theorem C13_runs ms bs l : 0 < ms ->
  let rs := factory_ranges ms bs l in
  Forall (seg_ok ms bs l) rs /\ Forall (seg_max bs l) rs /\ StronglySorted (fun r r' => (rB r < rA r')%nat) rs.
Proof. exact (fun H => factory_spec ms bs H l). Qed.

(* cannot be extended to the right to a higher score without first violating a prefix condition *)
Theorem C13_maximal ms bs l r : seg_ok ms bs l r -> seg_max bs l r ->
  forall e', (rB r < e' <= length l)%nat -> rX r < psum l (rA r) e' ->
  exists j, (rB r < j <= e')%nat /\ (psum l (rA r) j <= 0 \/ exists i, (rA r < i < j)%nat /\ psum l (rA r) j <= psum l (rA r) i - bs).
Proof. exact (seg_max_no_extension ms bs l r). Qed.

(* starts and ends on a positively scored position *)
Theorem C13_ends_positive ms bs l r : seg_ok ms bs l r -> 0 < nth (rA r) l 0 /\ 0 < nth (rB r - 1) l 0.
Proof. exact (seg_ends_positive ms bs l r). Qed.

(* the segments returned are exactly these sub-runs with their sums; a single empty segment iff no range qualifies *)
Theorem C13_segments P ps peak :
  get_segments P ps peak =
  match factory_ranges (MS P) (BS P) (map sc ps) with
  | [] => [seg_create [] peak]
  | rs => map (seg_of_range ps peak) rs
  end.
Proof. exact (get_segments_ranges P ps peak). Qed.
Theorem C13_segment_score P ps peak r : 0 < MS P -> In r (factory_ranges (MS P) (BS P) (map sc ps)) ->
  sscore (seg_of_range ps peak r) = rX r /\ speak (seg_of_range ps peak r) = peak /\
  positions (seg_of_range ps peak r) = firstn (rB r - rA r) (skipn (rA r) ps) /\ positions (seg_of_range ps peak r) <> [].
Proof. exact (segment_of_range_score P ps peak r). Qed.
Theorem C13_empty_iff P ps peak : 0 < MS P ->
  (factory_ranges (MS P) (BS P) (map sc ps) = [] <-> get_segments P ps peak = [seg_create [] peak]).
Proof. exact (empty_iff P ps peak). Qed.

(* completeness in the regime of the default parameters (minScore 1000 <= breakSegmentThreshold 1200): there the empty segment is
   returned IF AND ONLY IF no run of the list meets the clauses - a qualifying run anywhere forces at least one returned segment *)
Theorem C13_complete ms bs l r : 0 < ms -> ms <= bs -> seg_ok ms bs l r -> factory_ranges ms bs l <> [].
Proof. exact (fun H1 H2 => factory_complete ms bs H1 H2 l r). Qed.
Theorem C13_empty_iff_no_run ms bs l : 0 < ms -> ms <= bs -> (factory_ranges ms bs l = [] <-> forall r, ~ seg_ok ms bs l r).
Proof. exact (fun H1 H2 => factory_empty_iff_no_run ms bs H1 H2 l). Qed.

Example C13_complete_nonvacuous : seg_ok 1000 1200 [1000; -250; 1000] (0%nat, 3%nat, 1750) /\
  factory_ranges 1000 1200 [1000; -250; 1000] = [(0%nat, 3%nat, 1750)] /\ 0 < 1000 <= 1200.
Proof. exact complete_example. Qed.

(* Observation O1 - NOT a clause of C13, stated so that the exact strength of the last sentence is visible: the property says "if no run
   qualifies a single empty segment is returned"; the converse is false of the code (a rejected currentSegment is not reset after a break
   and its stale score hides later runs): a run meeting every clause can exist while nothing is returned.  No check demands the converse (for ms <= bs it is a theorem: C13_complete). *)
Theorem C13_converse_refuted :
  exists ms bs l r, 0 < ms /\ seg_ok ms bs l r /\ seg_max bs l r /\ factory_ranges ms bs l = [].
Proof. exact factory_converse_refuted. Qed.

(* non-vacuity: two segments separated by a break, thresholds at equality (score = ms, drop = bs) *)
Example C13_nonvacuous : factory_ranges 3 2 [2; 1; -2; 3; -1; 1; -4; 3] = [(0%nat, 2%nat, 3); (3%nat, 4%nat, 3); (7%nat, 8%nat, 3)].
Proof. vm_compute. reflexivity. Qed.

Print Assumptions C13_runs.
Print Assumptions C13_maximal.
Print Assumptions C13_ends_positive.
Print Assumptions C13_segments.
Print Assumptions C13_segment_score.
Print Assumptions C13_empty_iff.
Print Assumptions C13_complete.
Print Assumptions C13_empty_iff_no_run.
Print Assumptions C13_converse_refuted.

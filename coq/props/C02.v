(* C02 — Record fields agree with the listed pairs and with the input maps.
   Models: model/Multi.v (row_create = AlignmentResultRow.create, unaligned_fragments = getUnalignedFragments, join_rows = resolve),
   model/Pairing.v (positions_with_ids = OpticalMap.getPositionsWithSiteIds incl. `shift`), model/Cmap.v (cmap_read, trim),
   model/Xmap.v (write_row / xmap_write_lines = the data lines of XmapReader.writeAlignments), model/Record.v (xrow_of_row: which row attribute
   is printed in which column; align_row: Aligner.align hands ids and lengths of the two maps to AlignmentResultRow.create).
   Units: coordinates and lengths are Z in tenths of a base pair, K = 10 is one base pair; confidence in 1/20.

   Setting of the record theorems.  `reference` is a reference map as read from the CMAP file (not trimmed); `q0` is the query as read
   from the CMAP file; program.py trims it: whole = trim q0.  The candidate was aligned on
       f = fragment_at whole sh n  =  labels sh+1 .. sh+n of the trimmed query, with the whole query's id and length and shift sh
   (first pass: sh = 0 and n = all labels, C02_whole_is_fragment; second pass: what getUnalignedFragments returns, C02_fragments_shape).
   segs are the segments of the row, P = site_pairs segs the pairs in the order the Alignment column lists them,
   w = align_row segs reference f reverse the row.  Hypotheses: both position lists ascending (C17 gives that for maps that were read);
   the pairs are made of labels as getPositionsWithSiteIds enumerates them (pairs_from; C12_within gives that for the pairs of the engine,
   and resolution only removes positions); P is a non-empty valid matching (C01: valid_row).
   label_at m s = coordinate of label number s of map m.
   This file contains only statements; every proof is `exact <lemma>`. *)
From Coq Require Import ZArith List Bool String Ascii Sorting.Sorted.
Import ListNotations.
Require Import Py Pairing Core Multi Cigar Checkers CheckersProofs Cmap CmapProofs Xmap Record RecordProofs1 RecordProofs2 RecordProofs3 RecordProofs4.
Open Scope Z_scope.

(* ---- second-pass fragments: label numbers and coordinates are those of the whole query ---- *)
(* getUnalignedFragments returns prefixes (shift 0) and suffixes (shift = number of labels in front) of the query, with the whole
   query's id and the whole query's length *)
Theorem C02_fragments_shape (w : Multi.row) (whole : Pairing.omap) frs :
  qid w = mid whole -> qlen w = mlen whole -> unaligned_fragments w (mpositions whole) = Ok frs ->
  Forall (fun f => (exists n, f = fragment_at whole 0 n) \/
                   (exists sh, (sh <= List.length (mpositions whole))%nat /\ f = fragment_at whole sh (List.length (mpositions whole) - sh))) frs.
Proof. exact (unaligned_fragments_shape w whole frs). Qed.

(* forward strand: the labels the pairing sees on a fragment are a contiguous piece of the label list of the whole query: same numbers, same coordinates *)
Theorem C02_fragment_numbers_forward whole sh n : mshift whole = 0 ->
  positions_with_ids (fragment_at whole sh n) false = firstn n (skipn sh (positions_with_ids whole false)).
Proof. exact (fragment_forward whole sh n). Qed.
(* reverse strand: the same labels with the same (whole-query) numbers, coordinates mirrored about the WHOLE query's length - 1, in opposite order *)
Theorem C02_fragment_numbers_reverse whole sh n : mshift whole = 0 ->
  positions_with_ids (fragment_at whole sh n) true
  = rev (map (fun x => mkLabel (site x) (mlen whole - K - lpos x)) (firstn n (skipn sh (positions_with_ids whole false)))).
Proof. exact (fragment_reverse whole sh n). Qed.
(* both strands, both shapes (prefix: sh = 0; suffix: n = all - sh): a label of the fragment IS a label of the whole query as the pairing
   would see it on that strand, and its number lies in sh+1 .. sh+n; conversely every such label of the whole query is on the fragment *)
Theorem C02_fragment_numbers whole sh n reverse x : mshift whole = 0 ->
  (In x (positions_with_ids (fragment_at whole sh n) reverse) <->
   In x (positions_with_ids whole reverse) /\ Z.of_nat sh < site x <= Z.of_nat sh + Z.of_nat n).
Proof. exact (fun E => conj (fragment_labels whole sh n reverse x E) (fun H => fragment_labels_complete whole sh n reverse x E (proj1 H) (proj2 H))). Qed.
(* in coordinates: label number s on the fragment has the coordinate of label number s of the whole query (mirrored on '-') *)
Theorem C02_fragment_coordinates whole sh n reverse s : mshift whole = 0 -> has_site (fragment_at whole sh n) s ->
  has_site whole s /\ strand_coord (fragment_at whole sh n) reverse s = strand_coord whole reverse s.
Proof. exact (fragment_coord whole sh n reverse s). Qed.
(* what the numbers mean: label s of map m is the (s - shift)-th label, on '-' its coordinate is length - 1 - position *)
Theorem C02_label_numbers m reverse x :
  In x (positions_with_ids m reverse) <->
  (1 + mshift m <= site x <= Z.of_nat (List.length (mpositions m)) + mshift m) /\
  lpos x = (if reverse then mlen m - K - label_at m (site x) else label_at m (site x)).
Proof. exact (label_in m reverse x). Qed.
Theorem C02_whole_is_fragment whole : mshift whole = 0 -> fragment_at whole 0 (List.length (mpositions whole)) = whole.
Proof. exact (fragment_whole whole). Qed.

(* ---- the header of a row in terms of the pairs it lists ---- *)
(* AlignmentResultRow.create sorts the pairs by reference coordinate; for a valid matching on an ascending map the sorted list is the listed one *)
Theorem C02_sorted_is_listed reference query reverse segs :
  StronglySorted Z.le (mpositions reference) ->
  pairs_from (positions_with_ids reference false) (positions_with_ids query reverse) segs ->
  valid (dir_of reverse) (site_pairs segs) ->
  sort_by pair_rpos (row_pairs segs) = row_pairs segs.
Proof. exact (sorted_is_listed reference query reverse segs). Qed.
(* the statement the harness evaluates: (queryStart, queryEnd, referenceStart, referenceEnd) of create = spec_header of the listed pairs,
   for any map `query` the pairing ran on (fragment or whole), any ids and lengths *)
Theorem C02_header reference query reverse segs q r ql rl :
  StronglySorted Z.le (mpositions reference) ->
  pairs_from (positions_with_ids reference false) (positions_with_ids query reverse) segs ->
  valid (dir_of reverse) (site_pairs segs) -> site_pairs segs <> [] ->
  let w := row_create segs q r ql rl reverse in
  (qs w, qe w, rs w, re w) = spec_header reference query reverse (site_pairs segs).
Proof. exact (fun H1 H2 H3 H4 => header_spec reference query reverse segs H1 H2 H3 H4 q r ql rl). Qed.

(* RefStartPos / RefEndPos: coordinates of the first and the last LISTED reference label *)
Theorem C02_ref_span reference q0 sh n reverse segs :
  StronglySorted Z.le (mpositions reference) -> StronglySorted Z.le (mpositions q0) -> mshift q0 = 0 ->
  let f := fragment_at (trim q0) sh n in
  pairs_from (positions_with_ids reference false) (positions_with_ids f reverse) segs ->
  valid (dir_of reverse) (site_pairs segs) -> site_pairs segs <> [] ->
  let w := align_row segs reference f reverse in
  rs w = label_at reference (fst (hd (0, 0) (site_pairs segs))) /\
  re w = label_at reference (fst (last (site_pairs segs) (0, 0))) /\ rs w <= re w.
Proof. exact (record_ref_span reference q0 sh n reverse segs). Qed.

(* QryStartPos / QryEndPos.  a = query label of the first listed pair, b = query label of the last listed pair (whole-query numbers).
   '+': start = offset of a from the query's first label, end = offset of b, start <= end.
   '-': the row stores mirrored coordinates (length - 1 - position = offset from the query's LAST label); start is taken from the LAST listed
        pair (lowest-numbered aligned query label, largest offset), end from the first listed pair; start >= end. *)
Theorem C02_qry_span reference q0 sh n reverse segs :
  StronglySorted Z.le (mpositions reference) -> StronglySorted Z.le (mpositions q0) -> mshift q0 = 0 ->
  let f := fragment_at (trim q0) sh n in
  pairs_from (positions_with_ids reference false) (positions_with_ids f reverse) segs ->
  valid (dir_of reverse) (site_pairs segs) -> site_pairs segs <> [] ->
  let w := align_row segs reference f reverse in
  let a := snd (hd (0, 0) (site_pairs segs)) in let b := snd (last (site_pairs segs) (0, 0)) in
  let first0 := hd 0 (mpositions q0) in let last0 := last (mpositions q0) 0 in
  (reverse = false -> qs w = label_at q0 a - first0 /\ qe w = label_at q0 b - first0 /\ qs w <= qe w) /\
  (reverse = true -> qs w = last0 - label_at q0 b /\ qe w = last0 - label_at q0 a /\ qs w >= qe w).
Proof. exact (record_qry_span reference q0 sh n reverse segs). Qed.

(* the first and last listed pair carry the outermost labels: every listed label lies between them (reference ascending, query in strand direction),
   names a label of the reference / of the whole query, and (second pass) lies in the fragment's range *)
Theorem C02_outermost reference query reverse segs p :
  pairs_from (positions_with_ids reference false) (positions_with_ids query reverse) segs ->
  valid (dir_of reverse) (site_pairs segs) -> site_pairs segs <> [] -> In p (site_pairs segs) ->
  fst (hd (0, 0) (site_pairs segs)) <= fst p <= fst (last (site_pairs segs) (0, 0)) /\
  0 <= dir_of reverse * (snd p - snd (hd (0, 0) (site_pairs segs))) /\ 0 <= dir_of reverse * (snd (last (site_pairs segs) (0, 0)) - snd p).
Proof. exact (fun H1 H2 H3 => listed_between reference query reverse segs H1 H2 H3 p). Qed.
Theorem C02_listed_labels_exist reference q0 sh n reverse segs p : mshift q0 = 0 ->
  pairs_from (positions_with_ids reference false) (positions_with_ids (fragment_at (trim q0) sh n) reverse) segs -> In p (site_pairs segs) ->
  has_site reference (fst p) /\ has_site q0 (snd p) /\ Z.of_nat sh < snd p <= Z.of_nat sh + Z.of_nat n.
Proof. exact (fun H1 H2 => listed_sites reference q0 sh n reverse segs H1 H2 p). Qed.

(* QryLen = last - first + 1 bp of the query as read, also for a second-pass record (the fragment keeps the WHOLE query's length);
   RefLen = the length of the reference map, which cmap_read took from the truncated end marker *)
Theorem C02_lengths reference q0 sh n reverse segs : mpositions q0 <> [] ->
  let w := align_row segs reference (fragment_at (trim q0) sh n) reverse in
  qlen w = last (mpositions q0) 0 - hd 0 (mpositions q0) + K /\ rlen w = mlen reference.
Proof. exact (record_lengths reference q0 sh n reverse segs). Qed.
Theorem C02_reference_length rows ids refs reference : cmap_read rows ids = Ok refs -> In reference refs ->
  mlen reference = trunc_bp (hd 0 (markers_of rows (mid reference))) /\ mshift reference = 0 /\ StronglySorted Z.le (mpositions reference).
Proof. exact (reference_length rows ids refs reference). Qed.

(* ids are those of the input maps (also on a fragment), the strand flag is the one the candidate was aligned with *)
Theorem C02_ids reference q0 sh n reverse segs :
  let w := align_row segs reference (fragment_at (trim q0) sh n) reverse in
  qid w = mid q0 /\ Multi.rid w = mid reference /\ rrev w = reverse /\ rest w = false /\ rsegs w = segs.
Proof. exact (record_ids reference q0 sh n reverse segs). Qed.

(* a joined record (AlignmentResultRow.resolve) is made by the same create from two segments that only lost positions, with the ids, lengths and
   strand of its first part: C02_header applies to it, and its pairs are made of the same labels as the parts' *)
Theorem C02_joined (x y j : Multi.row) : join_rows x y = Ok j ->
  j = row_create (rsegs j) (qid x) (Multi.rid x) (qlen x) (rlen x) (rrev x) /\
  incl (row_pairs (rsegs j)) (row_pairs (rsegs x) ++ row_pairs (rsegs y)).
Proof. exact (join_rows_record x y j). Qed.
Theorem C02_joined_labels R Q (x y j : Multi.row) : join_rows x y = Ok j ->
  pairs_from R Q (rsegs x) -> pairs_from R Q (rsegs y) -> pairs_from R Q (rsegs j).
Proof. exact (join_rows_pairs_from R Q x y j). Qed.

(* ---- the text ---- *)
(* the fifteen tab-separated fields of a data line, as an independent reader splits them: attribute -> column *)
Theorem C02_columns i (w : Multi.row) runs :
  split_on TAB (write_row i (xrow_of_row w runs)) =
  [ print_int i; print_int (qid w); print_int (Multi.rid w);
    print_tenths (qs w); print_tenths (qe w); print_tenths (rs w); print_tenths (re w);
    (if rrev w then "-" else "+"); print_hundredths (5 * conf w); render runs;
    print_tenths (qlen w); print_tenths (rlen w); (if rest w then "True" else "False"); "1"; print_pairs (site_pairs (rsegs w)) ]%string.
Proof. exact (record_fields i w runs). Qed.
(* XmapEntryID counts 1, 2, 3, ...: the k-th data line (0-based) is the line of the k-th row written with index k + 1; one line per row;
   its first field reads back as k + 1 and its Orientation field is "+" or "-" *)
Theorem C02_ids_orientation rows k :
  nth_error (xmap_write_lines rows) k = option_map (write_row (Z.of_nat k + 1)) (nth_error rows k) /\
  List.length (xmap_write_lines rows) = List.length rows /\
  forall line, nth_error (xmap_write_lines rows) k = Some line ->
    exists r rest, nth_error rows k = Some r /\ split_on TAB line = print_int (Z.of_nat k + 1) :: rest /\
                   parse_int (print_int (Z.of_nat k + 1)) = Some (Z.of_nat k + 1) /\
                   nth_error rest 6 = Some (if x_rev r then "-" else "+")%string.
Proof. exact (conj (entry_ids rows k) (conj (entry_count rows) (entry_id_text rows k))). Qed.

(* the whole record of a candidate of either pass, as text, from its number in the file, the two maps as read, the strand and the listed pairs
   (spec_fields: proofs/RecordProofs4.v; the confidence, the HitEnum runs and the AlignedRest flag are those of the row: C04, C03) *)
Theorem C02_record_text reference q0 sh n reverse segs i runs rest_ :
  StronglySorted Z.le (mpositions reference) -> StronglySorted Z.le (mpositions q0) -> mshift q0 = 0 ->
  let f := fragment_at (trim q0) sh n in
  pairs_from (positions_with_ids reference false) (positions_with_ids f reverse) segs ->
  valid (dir_of reverse) (site_pairs segs) -> site_pairs segs <> [] ->
  let w := set_aligned_rest (align_row segs reference f reverse) rest_ in
  split_on TAB (write_row i (xrow_of_row w runs)) = spec_fields i reference q0 reverse (site_pairs segs) (conf w) runs rest_.
Proof. exact (record_text reference q0 sh n reverse segs i runs rest_). Qed.

(* the boolean tests the harness evaluates imply the hypotheses *)
Theorem C02_checkers R Q segs nref qlo qhi reverse P l :
  (pairs_fromb R Q segs = true -> pairs_from R Q segs) /\
  (valid_rowb nref qlo qhi reverse P = true -> valid (dir_of reverse) P /\ P <> []) /\
  (asc_le_b l = true -> StronglySorted Z.le l).
Proof. exact (conj (pairs_fromb_sound R Q segs) (conj (valid_rowb_valid nref qlo qhi reverse P) (asc_le_b_sorted l))). Qed.

(* ---- non-vacuity: a reverse-strand query of 13 labels (read with an offset of 1234.5 bp, so trimming matters); the first pass aligns its
   labels 4..8, getUnalignedFragments cuts a prefix (labels 1..7, shift 0) and a suffix (labels 7..13, shift 6); the second pass aligns the
   suffix on '-'; the record lists WHOLE-query label numbers 13..7 and its coordinates are offsets from the whole query's last label ---- *)
Definition ex_P := mkP 20000 2 (-5000) 20000 24000 15000 (QArith_base.inject_Z 20) 0.
Definition ex_ref := mkMap 1 386010 [0; 15000; 35000; 42000; 72000; 102000; 109000; 159000; 179000; 194000; 204000; 219000; 224000; 229000; 239000; 269000; 276000; 296000; 346000; 376000; 386000] 0.
Definition ex_q0 := mkMap 7 290000 [12345; 31345; 40345; 78345; 84345; 89345; 103345; 114345; 129345; 150345; 206345; 233345; 272345] 0.
Definition ex_whole := trim ex_q0.
Definition ex_segs1 := match aligner_align ex_P 1 ex_ref ex_whole [26000] true with Ok l => l | Err => [] end.
Definition ex_row1 := align_row ex_segs1 ex_ref ex_whole true.
Definition ex_frag := fragment_at ex_whole 6 7.
Definition ex_segs2 := match aligner_align ex_P 1 ex_ref ex_frag [39000; 36000; 39000] true with Ok l => l | Err => [] end.
Definition ex_row2 := set_aligned_rest (align_row ex_segs2 ex_ref ex_frag true) true.

Example C02_ex_first_pass :
  ex_whole = mkMap 7 260010 [0; 19000; 28000; 66000; 72000; 77000; 91000; 102000; 117000; 138000; 194000; 221000; 260000] 0 /\
  site_pairs ex_segs1 = [(9, 8); (10, 7); (11, 6); (12, 4)] /\
  (qs ex_row1, qe ex_row1, rs ex_row1, re ex_row1) = (194000, 158000, 179000, 219000) /\
  unaligned_fragments ex_row1 (mpositions ex_whole) = Ok [fragment_at ex_whole 0 7; ex_frag] /\
  ex_frag = mkMap 7 260010 [91000; 102000; 117000; 138000; 194000; 221000; 260000] 6.
Proof. vm_compute. repeat split; reflexivity. Qed.

(* the hypotheses of the record theorems hold for the second-pass candidate *)
Example C02_ex_hypotheses :
  StronglySorted Z.le (mpositions ex_ref) /\ StronglySorted Z.le (mpositions ex_q0) /\ mshift ex_q0 = 0 /\
  pairs_from (positions_with_ids ex_ref false) (positions_with_ids (fragment_at (trim ex_q0) 6 7) true) ex_segs2 /\
  valid_row 21 7 13 true (site_pairs ex_segs2) /\ valid (dir_of true) (site_pairs ex_segs2) /\ site_pairs ex_segs2 <> [].
Proof.
  split; [apply asc_le_b_sorted; vm_compute; reflexivity|]. split; [apply asc_le_b_sorted; vm_compute; reflexivity|]. split; [reflexivity|].
  split; [apply pairs_fromb_sound; vm_compute; reflexivity|]. split; [apply valid_rowb_spec; vm_compute; reflexivity|].
  apply (valid_rowb_valid 21 7 13). vm_compute. reflexivity.
Qed.

(* ... and this is the record: labels 13..7 of the whole query; QryStartPos 16900.0 = 26000.0 - 9100.0 is the offset of label 7 (the LAST listed
   pair) from the last label, QryEndPos 0.0 that of label 13; RefStartPos/RefEndPos are reference labels 3 and 11; QryLen is the whole query's
   27234.5 - 1234.5 + 1; the same text is what C02_record_text says it must be *)
Example C02_ex_second_pass_record :
  site_pairs ex_segs2 = [(3, 13); (5, 12); (6, 11); (8, 10); (9, 9); (10, 8); (11, 7)] /\
  split_on TAB (write_row 2 (xrow_of_row ex_row2 [(1%nat, M); (1%nat, D); (2%nat, M); (1%nat, D); (4%nat, M)])) =
    ["2"; "7"; "1"; "16900.0"; "0.0"; "3500.0"; "20400.0"; "-"; "5900.00"; "1M1D2M1D4M"; "26001.0"; "38601.0"; "True"; "1";
     "(3,13)(5,12)(6,11)(8,10)(9,9)(10,8)(11,7)"]%string /\
  cigar_runs (site_pairs ex_segs2) = Ok [(1%nat, M); (1%nat, D); (2%nat, M); (1%nat, D); (4%nat, M)] /\
  spec_fields 2 ex_ref ex_q0 true (site_pairs ex_segs2) (conf ex_row2) [(1%nat, M); (1%nat, D); (2%nat, M); (1%nat, D); (4%nat, M)] true =
    ["2"; "7"; "1"; "16900.0"; "0.0"; "3500.0"; "20400.0"; "-"; "5900.00"; "1M1D2M1D4M"; "26001.0"; "38601.0"; "True"; "1";
     "(3,13)(5,12)(6,11)(8,10)(9,9)(10,8)(11,7)"]%string.
Proof. vm_compute. repeat split; reflexivity. Qed.

(* the label lists of that fragment on both strands: numbers 7..13 (not 1..7), coordinates of the whole query, mirrored about 26000.0 on '-' *)
Example C02_ex_fragment_labels :
  map (fun x => (site x, lpos x)) (positions_with_ids ex_frag false) =
    [(7, 91000); (8, 102000); (9, 117000); (10, 138000); (11, 194000); (12, 221000); (13, 260000)] /\
  map (fun x => (site x, lpos x)) (positions_with_ids ex_frag true) =
    [(13, 0); (12, 39000); (11, 66000); (10, 122000); (9, 143000); (8, 158000); (7, 169000)].
Proof. vm_compute. split; reflexivity. Qed.

(* a forward-strand prefix fragment and the whole query as its own fragment *)
Example C02_ex_prefix_forward :
  map (fun x => (site x, lpos x)) (positions_with_ids (fragment_at ex_whole 0 3) false) = [(1, 0); (2, 19000); (3, 28000)] /\
  fragment_at ex_whole 0 13 = ex_whole.
Proof. vm_compute. split; reflexivity. Qed.

(* boundary: a one-pair record has start = end on both sequences *)
Example C02_ex_one_pair :
  let segs := [seg_create [mkS (Pair (mkLabel 3 35000) (mkLabel 13 0) 0 1) 20000] 35000] in
  let w := align_row segs ex_ref ex_frag true in (qs w, qe w, rs w, re w) = (0, 0, 35000, 35000) /\
  spec_header ex_ref ex_whole true (site_pairs segs) = (0, 0, 35000, 35000).
Proof. vm_compute. split; reflexivity. Qed.

Print Assumptions C02_fragments_shape.
Print Assumptions C02_fragment_numbers_forward.
Print Assumptions C02_fragment_numbers_reverse.
Print Assumptions C02_fragment_numbers.
Print Assumptions C02_fragment_coordinates.
Print Assumptions C02_label_numbers.
Print Assumptions C02_whole_is_fragment.
Print Assumptions C02_sorted_is_listed.
Print Assumptions C02_header.
Print Assumptions C02_ref_span.
Print Assumptions C02_qry_span.
Print Assumptions C02_outermost.
Print Assumptions C02_listed_labels_exist.
Print Assumptions C02_lengths.
Print Assumptions C02_reference_length.
Print Assumptions C02_ids.
Print Assumptions C02_joined.
Print Assumptions C02_joined_labels.
Print Assumptions C02_columns.
Print Assumptions C02_ids_orientation.
Print Assumptions C02_record_text.
Print Assumptions C02_checkers.

(* ================================================================== the records of a WHOLE RUN (model/Coordinator.v) ============== *)
(* The record theorems above are about ONE row built from given segments, under the hypotheses pairs_from / valid / non-empty.  This section
   discharges these hypotheses for every NON-JOINED row of every output file of every mode of Coordinator.program_run, for every seeding
   function with seeds_ok, so that the statements about what is WRITTEN hold for the files of a run.
   Hypotheses: SU <= 0 < MS; seeds_ok refs seeds; every reference has shift 0 and strictly ascending positions; every query AS READ (q0s) has
   shift 0, strictly ascending positions and at least one label; query ids distinct; the run is on the trimmed queries (Program.__readMaps:
   program_run ... refs (map trim q0s)).
   run_record refs q0s w  (proofs/RunRecordProofs1.v)  :=  exists reference q0 sh n, In reference refs /\ In q0 q0s /\
       w = set_aligned_rest (align_row (rsegs w) reference (fragment_at (trim q0) sh n) (rrev w)) (rest w) /\
       pairs_from (positions_with_ids reference false) (positions_with_ids (fragment_at (trim q0) sh n) (rrev w)) (rsegs w) /\
       valid_row (nlabels reference) 1 (nlabels q0) (rrev w) (site_pairs (rsegs w)) /\
       valid (dir_of (rrev w)) (site_pairs (rsegs w)) /\ site_pairs (rsegs w) <> []
     i.e. w IS a row of the shape C02_ref_span / C02_qry_span / C02_lengths / C02_ids / C02_record_text speak about (segs := rsegs w,
     reverse := rrev w, rest_ := rest w) and ALL their hypotheses hold (pairs_from comes from RunProofs1.aligner_pair_labels: the labels of
     every pair are labels getPositionsWithSiteIds enumerates on the reference and on the map — query or fragment — the candidate was aligned
     on; validity from C01 through the run).  No hypothesis of the record theorems is left open for such rows.
   record_written refs q0s w  :=  the CONCLUSIONS, about w itself: for some reference of the reference file, query q0 of the query file as read
     and run list `runs`:  the listed pairs Pl = site_pairs (rsegs w) are a non-empty valid matching of labels 1..n of both maps;
     qid/rid are the ids of q0/reference; QryLen = last - first + 1 bp of q0; RefLen = mlen reference; RefStartPos/RefEndPos = label_at reference
     of the first/last listed reference label (start <= end); QryStartPos/QryEndPos = offsets of the first/last listed query label of q0 from
     its first label ('+', start <= end) resp. from its last label, swapped ('-', start >= end);
     cigar_runs Pl = Ok runs, runs <> [], xrow_of w = Ok (xrow_of_row w runs), and for every entry number i
        split_on TAB (write_row i (xrow_of_row w runs)) = spec_fields i reference q0 (rrev w) Pl (conf w) runs (rest w).
   The rows covered: all rows of the additional files (all: _1 and _2, joined: _1, separate: _1), every row of the main file that is not a
   joined row (separate: all of them), and the two parts a, b of every joined row (for the joined row itself: C02_joined, C02_joined_labels
   give create-of-the-same-labels; that it is a valid matching is open finding F10). *)
Require Import Coordinator RunProofs2 RunProofs3 RunRecordProofs1 RunRecordProofs3.

Theorem C02_run_records P (seeds : seeding) (refs q0s : list Pairing.omap) m maxdiff o :
  SU P <= 0 -> 0 < MS P -> seeds_ok refs seeds ->
  (forall r, In r refs -> mshift r = 0 /\ ascending r) ->
  (forall q0, In q0 q0s -> mshift q0 = 0 /\ ascending q0 /\ mpositions q0 <> []) -> NoDup (map mid q0s) ->
  program_run P seeds m maxdiff refs (map trim q0s) = Ok o ->
  (forall w, In w (opt_rows (o_1 o) ++ opt_rows (o_2 o)) -> run_record refs q0s w /\ record_written refs q0s w) /\
  (forall w, In w (o_main o) -> (run_record refs q0s w /\ record_written refs q0s w) \/
     (m <> Separate /\ exists a b, (run_record refs q0s a /\ record_written refs q0s a) /\
                                   (run_record refs q0s b /\ record_written refs q0s b) /\ join_rows a b = Ok w)) /\
  (m = Separate -> forall w, In w (out_rows o) -> run_record refs q0s w /\ record_written refs q0s w).
Proof. exact (fun Hsu Hms Hs Hr => run_rows_written P seeds refs Hsu Hms Hs Hr q0s m maxdiff o). Qed.

(* the same when the run is handed trimmed queries (they are then their own "as read" maps: trim leaves them unchanged) *)
Theorem C02_run_records_trimmed P (seeds : seeding) (refs qq : list Pairing.omap) m maxdiff o :
  SU P <= 0 -> 0 < MS P -> seeds_ok refs seeds ->
  (forall r, In r refs -> mshift r = 0 /\ ascending r) -> (forall q, In q qq -> trimmed q) -> NoDup (map mid qq) ->
  program_run P seeds m maxdiff refs qq = Ok o ->
  (forall w, In w (opt_rows (o_1 o) ++ opt_rows (o_2 o)) -> run_record refs qq w /\ record_written refs qq w) /\
  (forall w, In w (o_main o) -> (run_record refs qq w /\ record_written refs qq w) \/
     (m <> Separate /\ exists a b, (run_record refs qq a /\ record_written refs qq a) /\
                                   (run_record refs qq b /\ record_written refs qq b) /\ join_rows a b = Ok w)) /\
  (m = Separate -> forall w, In w (out_rows o) -> run_record refs qq w /\ record_written refs qq w).
Proof. exact (fun Hsu Hms Hs Hr => run_rows_written_trimmed P seeds refs Hsu Hms Hs Hr qq m maxdiff o). Qed.

(* record_written spelled out for one row: what run_record gives *)
Theorem C02_run_record_text (refs q0s : list Pairing.omap) (w : Multi.row) :
  (forall r, In r refs -> mshift r = 0 /\ ascending r) ->
  (forall q0, In q0 q0s -> mshift q0 = 0 /\ ascending q0 /\ mpositions q0 <> []) ->
  run_record refs q0s w ->
  exists reference q0 runs, In reference refs /\ In q0 q0s /\
    let Pl := site_pairs (rsegs w) in
    let a := hd (0, 0) Pl in let b := last Pl (0, 0) in
    let first0 := hd 0 (mpositions q0) in let last0 := last (mpositions q0) 0 in
    Pl <> [] /\ valid_row (nlabels reference) 1 (nlabels q0) (rrev w) Pl /\
    qid w = mid q0 /\ Multi.rid w = mid reference /\ qlen w = last0 - first0 + K /\ rlen w = mlen reference /\
    rs w = label_at reference (fst a) /\ re w = label_at reference (fst b) /\ rs w <= re w /\
    (rrev w = false -> qs w = label_at q0 (snd a) - first0 /\ qe w = label_at q0 (snd b) - first0 /\ qs w <= qe w) /\
    (rrev w = true -> qs w = last0 - label_at q0 (snd b) /\ qe w = last0 - label_at q0 (snd a) /\ qs w >= qe w) /\
    cigar_runs Pl = Ok runs /\ runs <> [] /\ xrow_of w = Ok (xrow_of_row w runs) /\
    forall i, split_on TAB (write_row i (xrow_of_row w runs)) = spec_fields i reference q0 (rrev w) Pl (conf w) runs (rest w).
Proof. exact (run_record_written refs q0s w). Qed.

(* non-vacuity: the run of proofs/ModesExamples.v (one reference of 16 labels; one query = reference labels 1-6, a 30 kb insertion, labels
   7-12), its query read from a CMAP whose first label sits at 1234.5 bp (rr_q0; trimming gives ModesExamples.ex_query).  The hypotheses
   hold; mode `separate` writes the first-pass record to the main file and the second-pass record (labels 7..12 of the WHOLE query, offsets
   9200.0 .. 14200.0 from its first label, AlignedRest True) to _1; each written text is what spec_fields computes from the INPUT maps *)
Example C02_run_records_nonvacuous :
  SU ModesExamples.ex_P <= 0 /\ 0 < MS ModesExamples.ex_P /\ seeds_ok rr_refs ModesExamples.ex_seeds /\
  (forall r, In r rr_refs -> mshift r = 0 /\ ascending r) /\
  (forall q0, In q0 rr_q0s -> mshift q0 = 0 /\ ascending q0 /\ mpositions q0 <> []) /\ NoDup (map mid rr_q0s) /\
  hd 0 (mpositions rr_q0) = 12345 /\ map trim rr_q0s = [ModesExamples.ex_query] /\
  map (fun w => (rr_text 1 w, rr_spec 1 w)) (rr_rows Separate 110000) =
    [ (Some ["1"; "7"; "1"; "0.0"; "51000.0"; "10000.0"; "61000.0"; "+"; "6000.00"; "6M"; "142001.0"; "2000000.0"; "False"; "1";
             "(1,1)(2,2)(3,3)(4,4)(5,5)(6,6)"]%string,
       Some ["1"; "7"; "1"; "0.0"; "51000.0"; "10000.0"; "61000.0"; "+"; "6000.00"; "6M"; "142001.0"; "2000000.0"; "False"; "1";
             "(1,1)(2,2)(3,3)(4,4)(5,5)(6,6)"]%string);
      (Some ["1"; "7"; "1"; "92000.0"; "142000.0"; "72000.0"; "122000.0"; "+"; "6000.00"; "6M"; "142001.0"; "2000000.0"; "True"; "1";
             "(7,7)(8,8)(9,9)(10,10)(11,11)(12,12)"]%string,
       Some ["1"; "7"; "1"; "92000.0"; "142000.0"; "72000.0"; "122000.0"; "+"; "6000.00"; "6M"; "142001.0"; "2000000.0"; "True"; "1";
             "(7,7)(8,8)(9,9)(10,10)(11,11)(12,12)"]%string) ].
Proof. split; [discriminate|]. split; [reflexivity|]. split; [exact RunProofs4.ex_seeds_ok|]. split; [exact rr_refs_ok|].
  split; [exact rr_q0s_ok|]. split; [exact rr_qid|]. vm_compute. repeat split; reflexivity. Qed.
(* ... and in mode `all` (main: the joined record of 12 pairs; _1 and _2: its two parts) the three written texts are the spec_fields of
   the input maps as well (for the joined record this is an observation on this run, not a theorem: F10) *)
Example C02_run_records_all_mode :
  map (fun w => (rest w, site_pairs (rsegs w))) (rr_rows All_ 110000) =
    [(false, ModesExamples.ex_p16 ++ ModesExamples.ex_p712); (false, ModesExamples.ex_p16); (true, ModesExamples.ex_p712)] /\
  map (rr_text 1) (rr_rows All_ 110000) = map (rr_spec 1) (rr_rows All_ 110000) /\
  map (rr_text 1) (rr_rows All_ 110000) =
    [ Some ["1"; "7"; "1"; "0.0"; "142000.0"; "10000.0"; "122000.0"; "+"; "12000.00"; "12M"; "142001.0"; "2000000.0"; "False"; "1";
            "(1,1)(2,2)(3,3)(4,4)(5,5)(6,6)(7,7)(8,8)(9,9)(10,10)(11,11)(12,12)"]%string;
      Some ["1"; "7"; "1"; "0.0"; "51000.0"; "10000.0"; "61000.0"; "+"; "6000.00"; "6M"; "142001.0"; "2000000.0"; "False"; "1";
            "(1,1)(2,2)(3,3)(4,4)(5,5)(6,6)"]%string;
      Some ["1"; "7"; "1"; "92000.0"; "142000.0"; "72000.0"; "122000.0"; "+"; "6000.00"; "6M"; "142001.0"; "2000000.0"; "True"; "1";
            "(7,7)(8,8)(9,9)(10,10)(11,11)(12,12)"]%string ].
Proof. vm_compute. repeat split; reflexivity. Qed.

Print Assumptions C02_run_records.
Print Assumptions C02_run_records_trimmed.
Print Assumptions C02_run_record_text.

(* ==================================================================================================================================
   APPENDED: THE WHOLE PROGRAM (model/Program.v: program_files cl ref_rows qry_rows = the data lines of every XMAP file from the rows of the two
   CMAP files and the command line; proofs/ProgramProofs3.v).  Hypotheses on the inputs only (cmdline_ok, cmap_ok: see props/C07.v).
   For the k-th data line (0-based) of every file: it is the line of the k-th row w handed to that file (rows_of_file o sfx: main, _1, _2 of the
   run's outputs o), and either
     run_record refs q0s w (w is the record of one candidate of either pass: C02_run_records) and record_text_ok refs q0s k w line:
       for a reference molecule and a query molecule AS READ from the two files, split_on TAB line = spec_fields (k + 1) reference q0 strand pairs conf runs rest
       — XmapEntryID k + 1, both ids, QryStartPos/QryEndPos/RefStartPos/RefEndPos as label positions of these molecules (query offsets from its first
       label; swapped and from its last label on '-'), QryLen = last - first + 1 bp, RefLen = the reference's end marker truncated, Alignment = the pairs,
       which are a valid matching of labels of the two molecules; Confidence, HitEnum and AlignedRest are the row's (C04, C03);
   or (main file, modes best / joined / all) w is a JOINED row: AlignmentResultRow.resolve of two such records (C02_joined; open findings F7/F10). *)
Require Import Wiring Program CmapProofs ProgramProofs1 ProgramProofs2 ProgramProofs3.
Require ProgramExamples.

Theorem C02_program_records cl rr qr files : cmdline_ok cl -> cmap_ok (cl_rids cl) rr -> cmap_ok (cl_qids cl) qr ->
  program_files cl rr qr = Ok files ->
  exists refs q0s o,
    cmap_read rr (cl_rids cl) = Ok refs /\ cmap_read qr (cl_qids cl) = Ok q0s /\ program_outputs cl rr qr = Ok o /\
    forall sfx lines k line, In (sfx, lines) files -> nth_error lines k = Some line ->
      exists rows w, rows_of_file o sfx = Some rows /\ nth_error rows k = Some w /\
        ((run_record refs q0s w /\ record_text_ok refs q0s k w line) \/
         (sfx = ""%string /\ cl_mode cl <> Separate /\ exists a b, run_record refs q0s a /\ run_record refs q0s b /\ join_rows a b = Ok w)).
Proof. exact (fun H1 H2 H3 => program_records cl rr qr H1 H2 H3 files). Qed.

(* non-vacuity: the run of proofs/ProgramExamples.v, mode `separate`: the second line of the main file is spec_fields of entry number 2, the
   reference molecule 1 and the query molecule 7 as the reader returns them (the query NOT trimmed: its first label at 30234.5 bp), strand '+',
   the listed pairs, confidence 9020.00 = 180400 / 20, the HitEnum runs, AlignedRest False *)
Example C02_program_nonvacuous :
  cmdline_ok (ProgramExamples.px_cl Separate) /\ cmap_ok [] ProgramExamples.px_rr /\ cmap_ok [] ProgramExamples.px_qr /\
  match cmap_read ProgramExamples.px_rr [], cmap_read ProgramExamples.px_qr [], program_files (ProgramExamples.px_cl Separate) ProgramExamples.px_rr ProgramExamples.px_qr return Prop with
  | Ok [reference], Ok [q3; q7], Ok [(_, [_; line]); _] =>
      hd 0 (mpositions q7) = 302345 /\
      split_on TAB line = spec_fields 2 reference q7 false [(3,1);(4,2);(5,3);(6,4);(7,5);(8,6);(9,7);(10,8);(11,10);(12,12)] 180400
                                      [(8%nat, Cigar.M); (1%nat, Cigar.I); (1%nat, Cigar.M); (1%nat, Cigar.I); (1%nat, Cigar.M)] false
  | _, _, _ => False
  end.
Proof. split; [apply ProgramExamples.px_cl_ok|]. split; [exact (proj1 ProgramExamples.px_files_ok)|]. split; [exact (proj2 ProgramExamples.px_files_ok)|].
  vm_compute. split; reflexivity. Qed.
Print Assumptions C02_program_records.

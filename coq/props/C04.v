(* C04 — Confidence is exactly the configured score of what is reported.
   Code: alignment_position.py (getScoredPosition), alignment_position_scorer.py, segments.py (AlignmentSegment.create, slice, __sub__),
   segments_factory.py, segment_chainer.py, segment_with_resolved_conflicts.py, aligner.py (Aligner.align),
   alignment_results.py (AlignmentResultRow.create: confidence = sum of segment scores; resolve for joined rows),
   workflow_coordinator_factory.py / args.py (which CLI value reaches which component).
   Model: Core.score_pos / seg_create / get_segments / chain / slice / seg_sub / resolve_pair / retry / resolve_loop / aligner_align,
   Multi.row_create / join_rows, Wiring.make_params.
   Units: positions in tenths of a base pair (K = 10), scores in 1/20; SP = 20*sp, DPU = 2*dp, SU = 20*su, MS = 20*ms, BS = 20*bs, DMAX = 10*d.
   Every statement is for ALL values of the eight parameters (no sign or size restriction), all maps, all lists of seed peaks, both
   strands, every value of the engine's running counter `it`; statements that speak about label positions assume only that the two
   position lists are ascending (ties allowed).  Statements about `aligner_align ... = Ok segs` cover every run that does not raise.
   Not modelled: getScoredPosition raises ValueError on an unpaired label when unmatchedPenalty > 0, and the factory constructor
   raises when minScore <= 0 (in both cases no record is produced at all); Core.score_pos / get_segments are total.

   Vocabulary (proofs/ScoreProofs1.v, ScoreProofs2.v, DPProofs.v, PairingProofs4.v):
     configured P a        the configured score of position a:  SP - DPU*|shift| for a Pair, SU for an unpaired label
     raw_score P peak a    the same with the offset recomputed from the raw label positions: |lpos q - (lpos r - peak)|
     engine_out P it reference query peak rev  = align_engine (DMAX P) it reference query peak (peak + mlen query) rev
     scored_out ...        = map (score_pos P) (engine_out ...)
     Sub c l               c is a subsequence of l (elements picked by position, order kept, each position at most once)
     reported P it reference query peaks rev s :=
         sscore s = sum_scores (positions s) /\
         exists k, nth_error peaks k = Some (speak s) /\ Sub (positions s) (scored_out P (it + k) reference query (speak s) rev)
       i.e. the segment's positions are, in order, scorer images of what the engine returned for the segment's OWN peak (the k-th of
       the call, engine counter it + k): nothing was added, moved or re-scored by factory, chain, slice, __sub__ or the resolver.
     engine_subrun P it reference query rev s := exists m n, positions s = firstn n (skipn m (scored_out P it reference query (speak s) rev))
     seg_recomputed / recomputed / recomputed_raw   sums of configured / raw_score over the positions of a segment / of all segments
     ref_labels out / qry_labels out, window   as in C12.
   This file contains only statements; every proof is `exact <lemma>`. *)
From Coq Require Import ZArith QArith List Bool Sorting.Permutation Sorting.Sorted.
Import ListNotations.
Require Import Py PyProofs Pairing Core Multi Wiring Psum DP DPProofs PairingProofs4 ScoreProofs1 ScoreProofs2 ResolverProofs10 ScoreProofs3.
Require Import Coordinator RunProofs2 RunProofs3 RunProofs4.
Require ModesExamples.
Open Scope Z_scope.

(* ---- position scores: perfectMatchScore - distancePenaltyMultiplier * |offset| for a pair, unmatchedPenalty for an unpaired label ---- *)
Theorem C04_pair_score P r q s src :
  sc (score_pos P (Pair r q s src)) = SP P - DPU P * Z.abs s /\
  (forall r', sc (score_pos P (URef r')) = SU P) /\ (forall q' st, sc (score_pos P (UQry q' st)) = SU P) /\
  (forall a, ap (score_pos P a) = a).
Proof. exact (conj (pair_score P r q s src) (conj (unpaired_ref_score P) (conj (unpaired_qry_score P) (score_pos_ap P)))). Qed.

(* ---- what the factory returns for the seed peaks, before chain and conflict resolution: index sub-runs with score = sum ---- *)
Theorem C04_factory_subrun P it reference query peaks rev s : In s (segs_for_peaks P it reference query peaks rev) ->
  sscore s = sum_scores (positions s) /\
  exists k m n, nth_error peaks k = Some (speak s) /\
    positions s = firstn n (skipn m (map (score_pos P)
                    (align_engine (DMAX P) (it + Z.of_nat k) reference query (speak s) (speak s + mlen query) rev))).
Proof. exact (factory_segments_run P it reference query peaks rev s). Qed.

(* ---- every segment Aligner.align reports: score = sum of its positions; the positions are scorer images of the engine output for
        the segment's own peak, in order; so nothing is re-scored on the way through factory, chain, slice, __sub__, resolver ---- *)
Theorem C04_segment_score P it reference query peaks rev segs s :
  aligner_align P it reference query peaks rev = Ok segs -> In s segs ->
  sscore s = sum_scores (positions s) /\
  exists k, nth_error peaks k = Some (speak s) /\
    Sub (positions s) (map (score_pos P) (align_engine (DMAX P) (it + Z.of_nat k) reference query (speak s) (speak s + mlen query) rev)).
Proof. exact (fun H Hs => proj1 (Forall_forall _ _) (align_reported P it reference query peaks rev segs H) s Hs). Qed.
(* the same through the named predicate, and position by position *)
Theorem C04_segment_reported P it reference query peaks rev segs :
  aligner_align P it reference query peaks rev = Ok segs -> Forall (reported P it reference query peaks rev) segs.
Proof. exact (align_reported P it reference query peaks rev segs). Qed.
Theorem C04_position_configured P it reference query peaks rev s : reported P it reference query peaks rev s ->
  exists k, nth_error peaks k = Some (speak s) /\ forall p, In p (positions s) ->
    p = score_pos P (ap p) /\ sc p = configured P (ap p) /\
    In (ap p) (align_engine (DMAX P) (it + Z.of_nat k) reference query (speak s) (speak s + mlen query) rev).
Proof. exact (reported_position P it reference query peaks rev s). Qed.

(* ---- confidence of a candidate record = sum over its segments of the sum over their positions of the configured score ---- *)
Theorem C04_confidence P it reference query peaks rev segs q r ql rl :
  aligner_align P it reference query peaks rev = Ok segs ->
  conf (row_create segs q r ql rl rev) = recomputed P segs.
Proof. exact (align_confidence P it reference query peaks rev segs q r ql rl). Qed.
(* ... with every offset recomputed from the raw label positions and the peak of the pair's own segment *)
Theorem C04_confidence_raw P it reference query peaks rev segs q r ql rl :
  StronglySorted Z.le (mpositions reference) -> StronglySorted Z.le (mpositions query) ->
  aligner_align P it reference query peaks rev = Ok segs ->
  conf (row_create segs q r ql rl rev) = recomputed_raw P segs.
Proof. exact (align_confidence_raw P it reference query peaks rev segs q r ql rl). Qed.
(* joined record (AlignmentResultRow.resolve) of two candidate rows a, b built by two Aligner.align calls (whole query / fragment):
   exactly two segments, each still `reported` for the call it came from, confidence = their recomputed sum *)
Theorem C04_confidence_joined P it1 ref1 q1 peaks1 rev1 segs1 it2 ref2 q2 peaks2 rev2 segs2 a b w :
  aligner_align P it1 ref1 q1 peaks1 rev1 = Ok segs1 -> aligner_align P it2 ref2 q2 peaks2 rev2 = Ok segs2 ->
  rsegs a = segs1 -> rsegs b = segs2 -> join_rows a b = Ok w ->
  conf w = recomputed P (rsegs w) /\ length (rsegs w) = 2%nat /\
  Forall (fun s => reported P it1 ref1 q1 peaks1 rev1 s \/ reported P it2 ref2 q2 peaks2 rev2 s) (rsegs w).
Proof. exact (joined_confidence P it1 ref1 q1 peaks1 rev1 segs1 it2 ref2 q2 peaks2 rev2 segs2 a b w). Qed.
Theorem C04_segment_recomputed P it reference query peaks rev s :
  StronglySorted Z.le (mpositions reference) -> StronglySorted Z.le (mpositions query) ->
  reported P it reference query peaks rev s -> sscore s = seg_recomputed P s /\ sscore s = seg_recomputed_raw P s.
Proof. exact (fun H1 H2 H => conj (reported_score P it reference query peaks rev s H) (reported_raw P it reference query peaks rev s H1 H2 H)). Qed.

(* ---- a pair's offset is its distance from the diagonal of the peak of ITS segment and never exceeds maxPairDistance ---- *)
Theorem C04_shift P it reference query peaks rev s :
  StronglySorted Z.le (mpositions reference) -> StronglySorted Z.le (mpositions query) ->
  reported P it reference query peaks rev s ->
  forall p r q sh src, In p (positions s) -> ap p = Pair r q sh src ->
    sh = lpos q - (lpos r - speak s) /\ Z.abs sh <= DMAX P /\ sc p = SP P - DPU P * Z.abs sh /\
    In r (window (DMAX P) (speak s) (speak s + mlen query) reference) /\ In q (positions_with_ids query rev).
Proof. exact (reported_shift P it reference query peaks rev s). Qed.

(* ---- no label is counted twice inside a segment (after resolution, also in joined records) ---- *)
Theorem C04_no_dup P it reference query peaks rev s :
  StronglySorted Z.le (mpositions reference) -> StronglySorted Z.le (mpositions query) ->
  reported P it reference query peaks rev s ->
  NoDup (map site (ref_labels (map ap (positions s)))) /\ NoDup (map site (qry_labels (map ap (positions s)))).
Proof. exact (reported_nodup P it reference query peaks rev s). Qed.

(* ---- no label inside a segment's span is left unaccounted for.
   For a segment that is an index sub-run of the engine output of its peak, and any two of its positions x, y (in particular the first
   and the last): every engine entry strictly between them in absolutePosition is in the segment with its configured score; hence
   every window label of the peak positioned strictly between them is one of the segment's reference labels; and a query label is
   either one of the segment's query labels or is carried by an engine entry that is not strictly between x and y.
   (C12_partition: the engine entries carry every window label and every query label exactly once.) ---- *)
Theorem C04_no_gap_subrun P it reference query rev s :
  StronglySorted Z.le (mpositions reference) -> StronglySorted Z.le (mpositions query) ->
  engine_subrun P it reference query rev s ->
  forall x y, In x (positions s) -> In y (positions s) ->
    (forall a, In a (engine_out P it reference query (speak s) rev) ->
       abs_pos (ap x) < abs_pos a < abs_pos (ap y) -> In (score_pos P a) (positions s)) /\
    (forall r, In r (window (DMAX P) (speak s) (speak s + mlen query) reference) ->
       abs_pos (ap x) < lpos r < abs_pos (ap y) -> In r (ref_labels (map ap (positions s)))) /\
    (forall q, In q (positions_with_ids query rev) ->
       In q (qry_labels (map ap (positions s))) \/
       exists a, In a (engine_out P it reference query (speak s) rev) /\ In q (qry_labels [a]) /\
                 ~ (abs_pos (ap x) < abs_pos a < abs_pos (ap y))).
Proof. exact (subrun_no_gap P it reference query rev s). Qed.
(* the factory's segments (before conflict resolution) are such sub-runs ... *)
Theorem C04_no_gap_factory P it reference query peaks rev s : In s (segs_for_peaks P it reference query peaks rev) ->
  exists k, nth_error peaks k = Some (speak s) /\ engine_subrun P (it + Z.of_nat k) reference query rev s.
Proof. exact (fun H => factory_run_subrun P it reference query peaks rev s (factory_segments_run P it reference query peaks rev s H)). Qed.
(* ... FULL STATEMENT after resolution (not proved here):
     aligner_align P it reference query peaks rev = Ok segs -> In s segs ->
     exists k, nth_error peaks k = Some (speak s) /\ engine_subrun P (it + Z.of_nat k) reference query rev s
   i.e. conflict resolution only trims the ends of a segment.  What is missing is the lift of the one-step theorem
   C15_subrun_step (ConflictProofs.resolve_pair_subrun: one step returns a prefix of the left and a suffix of the right member, given
   wfL/wfR) to the whole retry/resolve_loop; with that, C04_no_gap_subrun applies to every reported segment.
   Proved below: the conclusion for every reported segment that IS such a sub-run. *)
Theorem C04_no_gap_partial P it reference query peaks rev segs s k :
  StronglySorted Z.le (mpositions reference) -> StronglySorted Z.le (mpositions query) ->
  aligner_align P it reference query peaks rev = Ok segs -> In s segs ->
  engine_subrun P (it + Z.of_nat k) reference query rev s ->
  forall x y, In x (positions s) -> In y (positions s) ->
    (forall a, In a (engine_out P (it + Z.of_nat k) reference query (speak s) rev) ->
       abs_pos (ap x) < abs_pos a < abs_pos (ap y) -> In (score_pos P a) (positions s)) /\
    (forall r, In r (window (DMAX P) (speak s) (speak s + mlen query) reference) ->
       abs_pos (ap x) < lpos r < abs_pos (ap y) -> In r (ref_labels (map ap (positions s)))) /\
    (forall q, In q (positions_with_ids query rev) ->
       In q (qry_labels (map ap (positions s))) \/
       exists a, In a (engine_out P (it + Z.of_nat k) reference query (speak s) rev) /\ In q (qry_labels [a]) /\
                 ~ (abs_pos (ap x) < abs_pos a < abs_pos (ap y))).
Proof. exact (fun H1 H2 _ _ => subrun_no_gap P (it + Z.of_nat k) reference query rev s H1 H2). Qed.

(* FULL statement after conflict resolution (the lift of the sub-run theorem through the whole resolver loop, proofs/ResolverProofs*.v, is now
   available): every segment Aligner.align reports is an index sub-run of the engine output of its own peak, hence no label inside its span is
   left unaccounted for.  engine_ok: 0 <= DMAX, 0 < MS, SU <= 0, strictly ascending position lists. *)
Theorem C04_no_gap P it reference query peaks rev out s : engine_ok P reference query ->
  aligner_align P it reference query peaks rev = Ok out -> In s out ->
  exists k, nth_error peaks k = Some (speak s) /\
  forall x y, In x (positions s) -> In y (positions s) ->
    (forall a, In a (engine_out P (it + Z.of_nat k) reference query (speak s) rev) ->
       abs_pos (ap x) < abs_pos a < abs_pos (ap y) -> In (score_pos P a) (positions s)) /\
    (forall r, In r (window (DMAX P) (speak s) (speak s + mlen query) reference) ->
       abs_pos (ap x) < lpos r < abs_pos (ap y) -> In r (ref_labels (map ap (positions s)))) /\
    (forall q, In q (positions_with_ids query rev) ->
       In q (qry_labels (map ap (positions s))) \/
       exists a, In a (engine_out P (it + Z.of_nat k) reference query (speak s) rev) /\ In q (qry_labels [a]) /\
                 ~ (abs_pos (ap x) < abs_pos a < abs_pos (ap y))).
Proof. exact (align_no_gap P it reference query peaks rev out s). Qed.

(* ---- wiring: projection lemmas of the small model Wiring.make_params (trivial by construction; the real tie between the command
        line and the components is the end-to-end correspondence stream of harness/props/C04.py) ---- *)
Theorem C04_args_wired a :
  SP (make_params a) = 20 * a_sp a /\ DPU (make_params a) = a_dp2 a /\ SU (make_params a) = 20 * a_su a /\
  MS (make_params a) = 20 * a_ms a /\ BS (make_params a) = 20 * a_bs a /\ DMAX (make_params a) = K * a_d a /\
  SJ (make_params a) = inject_Z (a_sj20 a) /\ SS (make_params a) = a_ss a.
Proof. exact (make_params_proj a). Qed.

(* ---- non-vacuity (units: tenths of bp, scores x20).  sp = 10, dp = 1, su = -2.5, ms = 10, bs = 12, d = 9, sj = 0.05.
   Two seed peaks (100.0 and 88.0: a 12.0 insertion in the query).  The first peak's factory segment is
   (1,1) (2,2) (3,3) [ref 4] [qry 4] (5,5), the second's (4,4) (5,5) (6,6) (7,7) [qry 8] (8,9); they conflict on labels 4 and 5.
   Resolution trims the first to its three leading pairs (score recomputed: 580 -> 560, the two penalties go with the pair),
   the second keeps the unpaired query label 8 inside it: 160 + 40 + 200 + 200 - 50 + 200 = 750.  Confidence 1310 = 65.5. *)
Definition ex_P := mkP 200 2 (-50) 200 240 90 (inject_Z 1) 0.
Definition ex_ref := mkMap 1 20000 [1000; 2000; 3000; 3500; 4000; 5000; 6000; 7000; 8000; 9000] 0.
Definition ex_qry := mkMap 7 6130 [0; 1010; 1990; 2600; 3040; 4120; 5120; 5600; 6120] 0.
Definition ex_canon (p : spos) : Z * Z * Z * Z * Z :=
  match ap p with Pair r q s _ => (0, site r, site q, s, sc p) | URef r => (1, site r, 0, 0, sc p) | UQry q _ => (2, 0, site q, 0, sc p) end.
Definition ex_show (l : list segment) := map (fun s => (speak s, sscore s, map ex_canon (positions s))) l.
Example C04_nonvacuous :
  StronglySorted Z.le (mpositions ex_ref) /\ StronglySorted Z.le (mpositions ex_qry) /\
  ex_show (segs_for_peaks ex_P 1 ex_ref ex_qry [1000; 880] false) =
    [(1000, 580, [(0,1,1,0,200); (0,2,2,10,180); (0,3,3,-10,180); (1,4,0,0,-50); (2,0,4,0,-50); (0,5,5,40,120)]);
     (880, 750, [(0,4,4,-20,160); (0,5,5,-80,40); (0,6,6,0,200); (0,7,7,0,200); (2,0,8,0,-50); (0,8,9,0,200)])] /\
  exists segs, aligner_align ex_P 1 ex_ref ex_qry [1000; 880] false = Ok segs /\
    ex_show segs =
      [(1000, 560, [(0,1,1,0,200); (0,2,2,10,180); (0,3,3,-10,180)]);
       (880, 750, [(0,4,4,-20,160); (0,5,5,-80,40); (0,6,6,0,200); (0,7,7,0,200); (2,0,8,0,-50); (0,8,9,0,200)])] /\
    conf (row_create segs 7 1 6130 20000 false) = 1310 /\ recomputed ex_P segs = 1310 /\ recomputed_raw ex_P segs = 1310.
Proof.
  split; [|split; [|split]].
  - cbn [mpositions ex_ref]. repeat (apply SSorted_cons || apply SSorted_nil || apply Forall_cons || apply Forall_nil); discriminate.
  - cbn [mpositions ex_qry]. repeat (apply SSorted_cons || apply SSorted_nil || apply Forall_cons || apply Forall_nil); discriminate.
  - vm_compute. reflexivity.
  - eexists. split; [vm_compute; reflexivity|]. vm_compute. repeat split; reflexivity.
Qed.
(* a wrong value anywhere changes the result: the same case with unmatchedPenalty -3.0 instead of -2.5 gives another confidence *)
Example C04_parameter_matters :
  match aligner_align (mkP 200 2 (-60) 200 240 90 (inject_Z 1) 0) 1 ex_ref ex_qry [1000; 880] false with
  | Ok segs => conf (row_create segs 7 1 6130 20000 false) | Err => 0 end = 1300.
Proof. vm_compute. reflexivity. Qed.
Example C04_wiring_example :
  make_params (mkArgs 10 2 (-3) 10 12 9 1 0) = mkP 200 2 (-60) 200 240 90 (inject_Z 1) 0.
Proof. vm_compute. reflexivity. Qed.

(* ================================================================== whole runs (model/Coordinator.v) ============================== *)
(* The lift of C04_confidence / C04_segment_reported through __align (candidate rows, best candidate), execute (both passes),
   filterOutSubsequentAlignmentsForSingleQuery and the four output modes, for EVERY seeding function `seeds`, every parameter set, all maps
   (the only hypothesis: pairwise distinct query ids, so that a second-pass row is tied to the fragment of ITS query).
     src_map qs q'      := q' is one of the queries, or a fragment of one (getUnalignedFragments: a prefix, or a suffix with label-number offset)
     scored_run_row P seeds refs qs w := exists q' sd it, src_map qs q' /\ In sd (seeds refs q') /\
         aligner_align P it (sd_ref sd) q' (sd_peaks sd) (sd_rev sd) = Ok (rsegs w) /\
         qid w = mid q' /\ rid w = mid (sd_ref sd) /\ rrev w = sd_rev sd /\
         conf w = recomputed P (rsegs w) /\
         Forall (reported P it (sd_ref sd) q' (sd_peaks sd) (sd_rev sd)) (rsegs w) /\
         (ascending (ties allowed) positions of sd_ref sd and of q' -> conf w = recomputed_raw P (rsegs w))
       i.e. the record's segments are what Aligner.align returned for ONE candidate (seed sd of map q': reference, strand, secondary peaks),
       its confidence is the sum over its segments of the sum over their positions of the configured scores, and every segment's positions
       are scorer images of the engine output for one of the peaks of THAT candidate (`reported`, see the vocabulary at the top).
   Every row of the additional files has this property; every row of the main file has it or (modes other than `separate`) is a joined
   row — AlignmentResultRow.resolve of two rows that have it (for those: C04_confidence_joined); in mode `separate` every row has it. *)
Theorem C04_run_confidence P (seeds : seeding) m maxdiff refs qs o : NoDup (map mid qs) ->
  program_run P seeds m maxdiff refs qs = Ok o ->
  (forall w, In w (opt_rows (o_1 o) ++ opt_rows (o_2 o)) -> scored_run_row P seeds refs qs w) /\
  (forall w, In w (o_main o) -> scored_run_row P seeds refs qs w \/
     (m <> Separate /\ exists a b, scored_run_row P seeds refs qs a /\ scored_run_row P seeds refs qs b /\ join_rows a b = Ok w)) /\
  (m = Separate -> forall w, In w (out_rows o) -> scored_run_row P seeds refs qs w).
Proof. exact (fun Hn => run_rows_scored P seeds refs qs Hn m maxdiff o). Qed.
Theorem C04_scored_run_row_unfold P (seeds : seeding) refs qs w : scored_run_row P seeds refs qs w <->
  exists q' sd it, src_map qs q' /\ In sd (seeds refs q') /\
    aligner_align P it (sd_ref sd) q' (sd_peaks sd) (sd_rev sd) = Ok (rsegs w) /\
    qid w = mid q' /\ rid w = mid (sd_ref sd) /\ rrev w = sd_rev sd /\
    conf w = recomputed P (rsegs w) /\
    Forall (reported P it (sd_ref sd) q' (sd_peaks sd) (sd_rev sd)) (rsegs w) /\
    (StronglySorted Z.le (mpositions (sd_ref sd)) -> StronglySorted Z.le (mpositions q') -> conf w = recomputed_raw P (rsegs w)).
Proof. exact (conj (fun H => H) (fun H => H)). Qed.
(* a joined main-file row of such a run: two segments, each reported for the call its part came from, confidence = their recomputed sum *)
Theorem C04_run_confidence_joined P (seeds : seeding) refs qs a b w : scored_run_row P seeds refs qs a -> scored_run_row P seeds refs qs b ->
  join_rows a b = Ok w -> conf w = recomputed P (rsegs w) /\ length (rsegs w) = 2%nat.
Proof. exact (run_joined_scored P seeds refs qs a b w). Qed.

(* non-vacuity: the run of proofs/ModesExamples.v (default parameters, sp 1000 = 20000/20): first-pass row = 6 perfect pairs, second-pass
   row (aligned on the fragment, seed 30 kb to the left) = 6 perfect pairs: confidence 6 x 20000 each, recomputed; the joined row of mode
   `all` has 12 pairs and confidence 240000 *)
Example C04_run_nonvacuous :
  NoDup (map mid [ModesExamples.ex_query]) /\
  match program_run ModesExamples.ex_P ModesExamples.ex_seeds All_ 110000 [ModesExamples.ex_ref] [ModesExamples.ex_query] with
  | Ok o => map (fun w => (conf w, recomputed ModesExamples.ex_P (rsegs w), recomputed_raw ModesExamples.ex_P (rsegs w), length (row_pairs (rsegs w))))
                (o_main o ++ opt_rows (o_1 o) ++ opt_rows (o_2 o))
            = [(240000, 240000, 240000, 12%nat); (120000, 120000, 120000, 6%nat); (120000, 120000, 120000, 6%nat)]
  | Err => False
  end.
Proof. split; [exact ex_ids|]. vm_compute. reflexivity. Qed.

Print Assumptions C04_pair_score.
Print Assumptions C04_factory_subrun.
Print Assumptions C04_segment_score.
Print Assumptions C04_segment_reported.
Print Assumptions C04_position_configured.
Print Assumptions C04_confidence.
Print Assumptions C04_confidence_raw.
Print Assumptions C04_confidence_joined.
Print Assumptions C04_segment_recomputed.
Print Assumptions C04_shift.
Print Assumptions C04_no_dup.
Print Assumptions C04_no_gap_subrun.
Print Assumptions C04_no_gap_factory.
Print Assumptions C04_no_gap_partial.
Print Assumptions C04_no_gap.
Print Assumptions C04_args_wired.
Print Assumptions C04_run_confidence.
Print Assumptions C04_scored_run_row_unfold.
Print Assumptions C04_run_confidence_joined.

(* ==================================================================================================================================
   APPENDED: THE WHOLE PROGRAM (model/Program.v: program_files cl ref_rows qry_rows = the data lines of every XMAP file from the rows of the two
   CMAP files and the command line; proofs/ProgramProofs3.v).  Hypotheses on the input files only (cmap_ok: see props/C07.v; none on the command line).
   The Confidence column (9th tab-separated field) of the k-th data line of every file is "{:.2f}" of conf w / 20 for the k-th row w of that file, and
   w is a scored_run_row of the run with the parameters wired from the command line (make_params: C04_args_wired) and the executable seeding stage —
   its confidence is the recomputed configured score of exactly the positions it reports, for ONE candidate (C04_scored_run_row_unfold) — or
   (main file, modes best / joined / all) a joined row of two such rows, whose confidence is the recomputed score of its two segments. *)
From Coq Require Import String.
Require Import Cmap Xmap Record Seeding Program CmapProofs ProgramProofs1 ProgramProofs2 ProgramProofs3.
Require ProgramExamples.

Theorem C04_program_confidence cl rr qr files : cmap_ok (cl_rids cl) rr -> cmap_ok (cl_qids cl) qr ->
  program_files cl rr qr = Ok files ->
  let P := make_params (cl_args cl) in let seeds : seeding := seeds_model (cl_seed cl) in
  exists refs q0s o,
    cmap_read rr (cl_rids cl) = Ok refs /\ cmap_read qr (cl_qids cl) = Ok q0s /\ program_outputs cl rr qr = Ok o /\
    forall sfx lines k line, In (sfx, lines) files -> nth_error lines k = Some line ->
      exists rows w, rows_of_file o sfx = Some rows /\ nth_error rows k = Some w /\
        nth_error (split_on TAB line) 8 = Some (print_hundredths (5 * conf w)) /\
        (scored_run_row P seeds refs (map trim q0s) w \/
         (sfx = ""%string /\ cl_mode cl <> Separate /\
          exists a b, scored_run_row P seeds refs (map trim q0s) a /\ scored_run_row P seeds refs (map trim q0s) b /\ join_rows a b = Ok w /\
                      conf w = recomputed P (rsegs w))).
Proof. exact (fun H2 H3 => program_confidence cl rr qr H2 H3 files). Qed.

(* non-vacuity: the run of proofs/ProgramExamples.v, mode `all`: the Confidence fields of the three files and the recomputed scores (in 1/20)
   of the rows behind them: the joined record 14732.00 = 294640 / 20 *)
Example C04_program_nonvacuous :
  cmdline_ok (ProgramExamples.px_cl All_) /\ cmap_ok [] ProgramExamples.px_rr /\ cmap_ok [] ProgramExamples.px_qr /\
  match program_files (ProgramExamples.px_cl All_) ProgramExamples.px_rr ProgramExamples.px_qr, program_outputs (ProgramExamples.px_cl All_) ProgramExamples.px_rr ProgramExamples.px_qr return Prop with
  | Ok files, Ok o =>
      map (fun f => map (fun line => nth 8 (split_on TAB line) ""%string) (snd f)) files = [["14732.00"]; ["8568.00"; "9020.00"]; ["6414.00"]]%string /\
      map (fun w => (conf w, recomputed (make_params (cl_args (ProgramExamples.px_cl All_))) (rsegs w))) (o_main o ++ opt_rows (o_1 o) ++ opt_rows (o_2 o))
      = [(294640, 294640); (171360, 171360); (180400, 180400); (128280, 128280)]
  | _, _ => False
  end.
Proof. split; [apply ProgramExamples.px_cl_ok|]. split; [exact (proj1 ProgramExamples.px_files_ok)|]. split; [exact (proj2 ProgramExamples.px_files_ok)|].
  vm_compute. split; reflexivity. Qed.
Print Assumptions C04_program_confidence.

(* C19 — Alignment comparison partitions keys; measures are bounded and reflexive.
   Model: model/Comparer.v (transliteration of src/diagnostic/alignment_comparer.py: AlignmentComparer.compare / __toDict,
   AlignmentRowComparer.compare / __combineMultipleQuerySources / __getDifference / __getCoverage, AlignmentComparison.create).
   An alignment is (queryId, referenceId, alignedPairs); a pair is (refSite, refPos, qrySite, qryPos); akey a = (queryId, referenceId).
   `ratio` stands for difflib.SequenceMatcher(None, a, b).ratio(); it is universally quantified and only the hypotheses
       ratio_bounded ratio := forall a b, 0 <= ratio a b <= 1         ratio_refl ratio := forall a, ratio a a == 1
       ratio_possym ratio  := forall a b, 0 < ratio a b <-> 0 < ratio b a     (swap clause on overlapping/nonOverlapping/averages only)
   are used (the harness evaluates them on the real difflib).  `combine` = combineMultipleQuerySources, universally quantified.
   Counts are nat, coverages/identities/averages exact rationals; in01 q := 0 <= q <= 1.
   This file contains only statements; every proof is `exact <lemma>`. *)
From Coq Require Import ZArith QArith List Bool Permutation Sorting.Sorted.
Import ListNotations.
Require Import Py PyProofs Comparer ComparerProofs1 ComparerProofs2 ComparerProofs3.
Open Scope Z_scope.

(* every (query, reference) key of either set is classified exactly once: one row per distinct key, of the type given by the
   membership of the key in the two sets; the four counters add up to the number of distinct keys and the only-counts are the
   sizes of the set differences *)
Theorem C19_partition combine ratio als1 als2 :
  let c := compare combine ratio als1 als2 in
  let K1 := map akey als1 in let K2 := map akey als2 in
  (n_overlapping c + n_nonoverlapping c + n_first c + n_second c)%nat = length (nodup key_eq_dec (K1 ++ K2)) /\
  (n_overlapping c + n_nonoverlapping c)%nat = length (nodup key_eq_dec (filter (fun k => kmem k K2) K1)) /\
  n_first c = length (nodup key_eq_dec (filter (fun k => negb (kmem k K2)) K1)) /\
  n_second c = length (nodup key_eq_dec (filter (fun k => negb (kmem k K1)) K2)) /\
  length (rows c) = (n_overlapping c + n_nonoverlapping c + n_first c + n_second c)%nat /\
  n_overlapping c = length (filter overlapping (rows c)) /\
  NoDup (map row_key (rows c)) /\
  (forall k, In k (map row_key (rows c)) <-> In k (K1 ++ K2)) /\
  (forall r, In r (rows c) ->
     match rty r with
     | BOTH => In (row_key r) K1 /\ In (row_key r) K2
     | FIRST_ONLY => In (row_key r) K1 /\ ~ In (row_key r) K2
     | SECOND_ONLY => ~ In (row_key r) K1 /\ In (row_key r) K2
     end).
Proof. exact (partition_thm combine ratio als1 als2). Qed.

(* identity and both coverages of every row, and the three averages, lie in [0,1] *)
Theorem C19_bounds combine ratio als1 als2 : ratio_bounded ratio ->
  let c := compare combine ratio als1 als2 in
  Forall (fun r => in01 (rident r) /\ in01 (rcov1 r) /\ in01 (rcov2 r)) (rows c) /\
  in01 (avg1 c) /\ in01 (avg2 c) /\ in01 (avgid c).
Proof. exact (bounds_thm combine ratio als1 als2). Qed.

(* comparing a set with itself: every row (also for alignments with an empty pair list) is BOTH with identity 1, both coverages 1
   and no exclusive pairs; no exclusive or non-overlapping rows; overlapping = number of distinct keys; averages 1 unless the set
   is empty, in which case the null comparison is returned *)
Theorem C19_reflexive combine ratio als : ratio_refl ratio ->
  let c := compare combine ratio als als in
  Forall (fun r => rty r = BOTH /\ ra1 r = ra2 r /\ In (ra1 r) als /\ (rident r == 1)%Q /\ (rcov1 r == 1)%Q /\ (rcov2 r == 1)%Q /\
                   rex1 r = [] /\ rex2 r = []) (rows c) /\
  n_first c = 0%nat /\ n_second c = 0%nat /\ n_nonoverlapping c = 0%nat /\
  n_overlapping c = length (nodup key_eq_dec (map akey als)) /\ length (rows c) = length (nodup key_eq_dec (map akey als)) /\
  (als <> [] -> (avg1 c == 1)%Q /\ (avg2 c == 1)%Q /\ (avgid c == 1)%Q) /\
  (als = [] -> c = null_cmp).
Proof. exact (reflexive_thm combine ratio als). Qed.

(* swapping the inputs: row_swapped P r r' says r' has the same key as r, the type with FIRST/SECOND exchanged, the alignments,
   exclusive pair lists and coverages exchanged, and identities related by P.  The rows of compare als2 als1 are, up to order,
   the swapped rows of compare als1 als2 (for any ratio); firstOnly/secondOnly are exchanged; when ratio is positive one way iff
   positive the other way, each key is overlapping in both or neither, overlapping/nonOverlapping are unchanged and the average
   coverages are exchanged *)
Theorem C19_swap combine ratio als1 als2 :
  let c := compare combine ratio als1 als2 in let c' := compare combine ratio als2 als1 in
  n_first c' = n_second c /\ n_second c' = n_first c /\
  (exists l', Forall2 (row_swapped (fun _ _ => True)) (rows c) l' /\ Permutation l' (rows c')) /\
  (ratio_possym ratio ->
     (exists l', Forall2 (row_swapped same_sign) (rows c) l' /\ Permutation l' (rows c')) /\
     n_overlapping c' = n_overlapping c /\ n_nonoverlapping c' = n_nonoverlapping c /\
     (avg1 c' == avg2 c)%Q /\ (avg2 c' == avg1 c)%Q).
Proof. exact (swap_thm combine ratio als1 als2). Qed.

(* the exclusive pairs are exactly the set difference, without repetition, in ascending reference site id *)
Theorem C19_difference p o :
  (forall x, In x (difference p o) <-> In x p /\ ~ In x o) /\ NoDup (difference p o) /\
  StronglySorted (fun a b => rsite a <= rsite b) (difference p o) /\ (length (difference p o) <= length p)%nat.
Proof. exact (conj (fun x => difference_In x p o) (conj (difference_NoDup p o) (conj (difference_sorted p o) (difference_length p o)))). Qed.

(* non-vacuity: the hypotheses on ratio are satisfiable (1 for equal lists, 1/2 for lists sharing a pair, 0 otherwise) ... *)
Example C19_ratio_hypotheses_satisfiable : ratio_bounded ratio_ex /\ ratio_refl ratio_ex /\ ratio_possym ratio_ex.
Proof. exact ratio_ex_ok. Qed.

(* ... and a concrete comparison with a duplicate key inside the first set (the later (7,1) alignment wins), query label 1 paired
   with several reference labels adjacently and non-adjacently, a repeated pair, an empty pair list, keys with id 0:
   rows in the code's order as (key, type, exclusive pairs 1, exclusive pairs 2, coverage1, coverage2, identity) *)
Definition ex_set1 : list alignment :=
  [(7, 1, [(1,0,1,0); (2,0,1,0); (3,0,2,0)]); (7, 1, [(1,0,1,0); (2,0,1,0); (5,0,3,0); (4,0,1,0)]); (2, 1, [(1,0,1,0)]); (0, 3, []);
   (5, 2, [(9,0,9,0)])].
Definition ex_set2 : list alignment :=
  [(0, 3, []); (7, 1, [(2,0,1,0); (5,0,3,0); (6,0,4,0); (6,0,4,0)]); (2, 1, [(8,0,8,0)]); (4, 4, [(1,0,1,0)])].
Definition row_view (r : row) := (row_key r, rty r, rex1 r, rex2 r, rcov1 r, rcov2 r, rident r).
Example C19_nonvacuous_combined :
  let c := compare true ratio_ex ex_set1 ex_set2 in
  (n_overlapping c, n_nonoverlapping c, n_first c, n_second c) = (2, 1, 1, 1)%nat /\
  (avg1 c, avg2 c, avgid c) = (5 # 6, 7 # 8, 3 # 4)%Q /\
  map row_view (rows c) =
    [((2, 1), BOTH, [(1,0,1,0)], [(8,0,8,0)], 0%Q, 0%Q, 0%Q);
     ((7, 1), BOTH, [(4,0,1,0)], [(6,0,4,0)], (2 # 3)%Q, (3 # 4)%Q, (1 # 2)%Q);
     ((0, 3), BOTH, [], [], 1%Q, 1%Q, 1%Q);
     ((5, 2), FIRST_ONLY, [], [], 0%Q, 0%Q, 0%Q);
     ((4, 4), SECOND_ONLY, [], [], 0%Q, 0%Q, 0%Q)].
Proof. vm_compute. repeat split; reflexivity. Qed.
Example C19_nonvacuous_plain :
  let c := compare false ratio_ex ex_set1 ex_set2 in
  (n_overlapping c, n_nonoverlapping c, n_first c, n_second c) = (2, 1, 1, 1)%nat /\
  map row_view (rows c) =
    [((2, 1), BOTH, [(1,0,1,0)], [(8,0,8,0)], 0%Q, 0%Q, 0%Q);
     ((7, 1), BOTH, [(1,0,1,0); (4,0,1,0)], [(6,0,4,0)], (2 # 4)%Q, (3 # 4)%Q, (1 # 2)%Q);
     ((0, 3), BOTH, [], [], 1%Q, 1%Q, 1%Q);
     ((5, 2), FIRST_ONLY, [], [], 0%Q, 0%Q, 0%Q);
     ((4, 4), SECOND_ONLY, [], [], 0%Q, 0%Q, 0%Q)].
Proof. vm_compute. repeat split; reflexivity. Qed.
Example C19_nonvacuous_swapped :
  let c := compare true ratio_ex ex_set2 ex_set1 in
  (n_overlapping c, n_nonoverlapping c, n_first c, n_second c) = (2, 1, 1, 1)%nat /\
  (avg1 c, avg2 c) = (7 # 8, 5 # 6)%Q /\
  map (fun r => (row_key r, rty r)) (rows c) = [((2, 1), BOTH); ((7, 1), BOTH); ((0, 3), BOTH); ((4, 4), FIRST_ONLY); ((5, 2), SECOND_ONLY)].
Proof. vm_compute. repeat split; reflexivity. Qed.
Example C19_null : compare true ratio_ex [] [] = null_cmp.
Proof. reflexivity. Qed.

Print Assumptions C19_partition.
Print Assumptions C19_bounds.
Print Assumptions C19_reflexive.
Print Assumptions C19_swap.
Print Assumptions C19_difference.

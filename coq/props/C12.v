(* C12 — Pairing along a seed diagonal partitions labels and pairs nearest neighbours.
   Model: model/Pairing.v (transliteration of AlignerEngine.align, AlignedPair.deduplicate, OpticalMap.getPositionsWithSiteIds).
   Every statement below is about the list returned by
       align_engine d iteration reference query start stop reverse  :  list apos
   (d = maxDistance, iteration = the engine's running counter, start/stop = referenceStartPosition/referenceEndPosition),
   for EVERY d (also d < 0, where nothing is paired), every start/stop, both strands, every counter value and every
   label-number offset `mshift`; the only hypothesis is that the position lists of the two maps are ascending (ties allowed).
   Units: the statements are unit-agnostic except that the reverse strand mirrors about `mlen - K` (Python: length - 1 with
   lengths in tenths of a base pair, K = 10).

   Vocabulary (defined in proofs/PairingProofs4.v, PairingProofs2.v):
     positions_with_ids m reverse   the labels of a map as (site, lpos) in the order the code enumerates them
     window d start stop reference  = filter (fun r => start - d <= lpos r <= stop + d) (positions_with_ids reference false)
     ref_labels out / qry_labels out   the reference / query labels carried by the Pair and URef / Pair and UQry entries of out, in order
     pair_refs out / pair_qrys out     the reference / query site numbers of the Pair entries of out, in order
     is_pair_apos, pair_order          see C12_pairs_in_order below
     abs_pos                           AlignmentPosition.absolutePosition
     tie_order dir a b                 Pair before URef before UQry; Pairs and URefs by ascending reference site, UQrys by query
                                       site ascending (dir = 1) / descending (dir = -1)
   This file contains only statements; every proof is `exact <lemma>`. *)
From Coq Require Import ZArith List Bool Sorting.Permutation Sorting.Sorted.
Import ListNotations.
Require Import Py PyProofs Pairing PairingProofs1 PairingProofs2 PairingProofs3 PairingProofs4.
Open Scope Z_scope.

(* ---- the label lists the pairing works on (label numbering, strands, fragments with a label-number offset) ---- *)
(* forward: the n-th label (0-based) is numbered n + 1 + shift and keeps its position *)
Theorem C12_labels_forward m n :
  nth_error (positions_with_ids m false) n = option_map (fun p => mkLabel (Z.of_nat n + 1 + mshift m) p) (nth_error (mpositions m) n).
Proof. exact (labels_forward m n). Qed.
(* reverse: the same labels with the same numbers, positions mirrored about length - 1, enumerated in the opposite order *)
Theorem C12_labels_reverse m :
  positions_with_ids m true = rev (map (fun x => mkLabel (site x) (mlen m - K - lpos x)) (positions_with_ids m false)).
Proof. exact (labels_reverse m). Qed.
(* the search window computed by takewhile/dropwhile is exactly the set of reference labels within [start - d, stop + d], both ends inclusive *)
Theorem C12_window d start stop reference : StronglySorted Z.le (mpositions reference) ->
  takewhile (fun x => lpos x <=? stop + d) (dropwhile (fun x => lpos x <? start - d) (positions_with_ids reference false))
    = window d start stop reference /\
  forall r, In r (window d start stop reference) <-> In r (positions_with_ids reference false) /\ start - d <= lpos r <= stop + d.
Proof. exact (fun H => conj (window_is_takewhile d start stop reference H) (window_in d start stop reference)). Qed.

(* ---- partition: every window label and every query label exactly once, as a pair member or unpaired ---- *)
Theorem C12_partition d iteration reference query start stop reverse :
  StronglySorted Z.le (mpositions reference) -> StronglySorted Z.le (mpositions query) ->
  let out := align_engine d iteration reference query start stop reverse in
  Permutation (ref_labels out) (window d start stop reference) /\
  Permutation (qry_labels out) (positions_with_ids query reverse) /\
  NoDup (map site (ref_labels out)) /\ NoDup (map site (qry_labels out)) /\
  (forall q s, In (UQry q s) out -> s = start) /\
  (forall r q s src, In (Pair r q s src) out -> src = iteration).
Proof. exact (engine_partition d iteration reference query start stop reverse). Qed.

(* ---- ascending position order; needs no hypothesis at all ---- *)
Theorem C12_sorted d iteration reference query start stop reverse :
  StronglySorted (fun a b => abs_pos a <= abs_pos b) (align_engine d iteration reference query start stop reverse).
Proof. exact (sort_by_sorted abs_pos _). Qed.
(* ties: sorted() is stable and the list handed to it is pairs ++ unpaired reference ++ unpaired query, so entries with equal
   absolutePosition come out in tie_order; together this fixes the output order completely (lexicographic) *)
Theorem C12_sorted_ties d iteration reference query start stop (reverse : bool) :
  StronglySorted Z.le (mpositions reference) -> StronglySorted Z.le (mpositions query) ->
  StronglySorted (fun a b => abs_pos a <= abs_pos b /\ (abs_pos a = abs_pos b -> tie_order (if reverse then -1 else 1) a b))
                 (align_engine d iteration reference query start stop reverse).
Proof. exact (engine_sorted d iteration reference query start stop reverse). Qed.

(* ---- every pair lies within maxDistance of the diagonal (inclusive), offset = query position - (reference position - start) ---- *)
Theorem C12_within d iteration reference query start stop reverse r q s src :
  StronglySorted Z.le (mpositions reference) -> StronglySorted Z.le (mpositions query) ->
  In (Pair r q s src) (align_engine d iteration reference query start stop reverse) ->
  In r (window d start stop reference) /\ In q (positions_with_ids query reverse) /\
  s = lpos q - (lpos r - start) /\ Z.abs s <= d /\ src = iteration.
Proof. exact (fun H1 H2 => engine_within d iteration reference query start stop reverse H1 H2 r q s src). Qed.

(* ---- pairs are one-to-one and order-preserving ---- *)
Theorem C12_one_to_one_monotone d iteration reference query start stop (reverse : bool) r1 q1 s1 src1 r2 q2 s2 src2 :
  StronglySorted Z.le (mpositions reference) -> StronglySorted Z.le (mpositions query) ->
  let out := align_engine d iteration reference query start stop reverse in
  In (Pair r1 q1 s1 src1) out -> In (Pair r2 q2 s2 src2) out ->
  (site r1 < site r2 <-> if reverse then site q2 < site q1 else site q1 < site q2) /\
  (site r1 < site r2 -> lpos r1 <= lpos r2 /\ lpos q1 < lpos q2) /\
  (site r1 = site r2 <-> site q1 = site q2) /\
  (site r1 = site r2 -> Pair r1 q1 s1 src1 = Pair r2 q2 s2 src2).
Proof. exact (fun H1 H2 => engine_one_to_one_monotone d iteration reference query start stop reverse H1 H2 r1 q1 s1 src1 r2 q2 s2 src2). Qed.
(* no reference site and no query site occurs in two Pair entries of the returned list *)
Theorem C12_pair_sites_unique d iteration reference query start stop reverse :
  StronglySorted Z.le (mpositions reference) -> StronglySorted Z.le (mpositions query) ->
  let out := align_engine d iteration reference query start stop reverse in
  NoDup (pair_refs out) /\ NoDup (pair_qrys out).
Proof. exact (engine_pair_sites_nodup d iteration reference query start stop reverse). Qed.

(* ---- the Pair entries in OUTPUT ORDER (used by C01: segments are contiguous sub-runs of the output) ----
   is_pair_apos a = true iff a is a Pair;  pair_order dir (Pair r1 q1 _ _) (Pair r2 q2 _ _) =
     site r1 < site r2 /\ dir * site q1 < dir * site q2 /\ lpos r1 <= lpos r2 /\ lpos q1 < lpos q2   (False on non-pairs).
   The final sort is stable and the kept pairs are already ascending in reference site, hence in reference position,
   so the pairs appear in the output in exactly that order. *)
Theorem C12_pairs_in_order d iteration reference query start stop (reverse : bool) :
  StronglySorted Z.le (mpositions reference) -> StronglySorted Z.le (mpositions query) ->
  let out := align_engine d iteration reference query start stop reverse in
  StronglySorted (pair_order (if reverse then -1 else 1)) (filter is_pair_apos out).
Proof. exact (engine_pairs_in_order d iteration reference query start stop reverse). Qed.
(* the same for every contiguous sub-run out[m : m + n] *)
Theorem C12_pairs_in_order_subrun d iteration reference query start stop (reverse : bool) m n :
  StronglySorted Z.le (mpositions reference) -> StronglySorted Z.le (mpositions query) ->
  let out := align_engine d iteration reference query start stop reverse in
  StronglySorted (pair_order (if reverse then -1 else 1)) (filter is_pair_apos (firstn n (skipn m out))).
Proof. exact (fun H1 H2 => engine_pairs_in_order_subrun d iteration reference query start stop reverse H1 H2 m n). Qed.

(* ---- labels that are strictly each other's nearest partner within maxDistance are paired ---- *)
Theorem C12_mutual_nearest d iteration reference query start stop reverse r q :
  StronglySorted Z.le (mpositions reference) -> StronglySorted Z.le (mpositions query) ->
  In r (window d start stop reference) -> In q (positions_with_ids query reverse) ->
  Z.abs (lpos q - (lpos r - start)) <= d ->
  (forall q', In q' (positions_with_ids query reverse) -> q' <> q ->
     Z.abs (lpos q - (lpos r - start)) < Z.abs (lpos q' - (lpos r - start))) ->
  (forall r', In r' (window d start stop reference) -> r' <> r ->
     Z.abs (lpos q - (lpos r - start)) < Z.abs (lpos q - (lpos r' - start))) ->
  In (Pair r q (lpos q - (lpos r - start)) iteration) (align_engine d iteration reference query start stop reverse).
Proof. exact (fun H1 H2 => engine_mutual_nearest d iteration reference query start stop reverse H1 H2 r q). Qed.

(* ---- examples (tenths of a base pair; d = 50) ---- *)
(* a query label exactly at distance d from the diagonal is paired ... *)
Example C12_at_distance_d :
  align_engine 50 7 (mkMap 1 5000 [1000] 0) (mkMap 2 3000 [1050] 0) 0 3000 false
  = [Pair (mkLabel 1 1000) (mkLabel 1 1050) 50 7].
Proof. vm_compute. reflexivity. Qed.
Example C12_at_distance_minus_d :
  align_engine 50 7 (mkMap 1 5000 [1000] 0) (mkMap 2 3000 [950] 0) 0 3000 false
  = [Pair (mkLabel 1 1000) (mkLabel 1 950) (-50) 7].
Proof. vm_compute. reflexivity. Qed.
(* ... and at d + 1 it is not *)
Example C12_at_distance_d_plus_1 :
  align_engine 50 7 (mkMap 1 5000 [1000] 0) (mkMap 2 3000 [1051] 0) 0 3000 false
  = [URef (mkLabel 1 1000); UQry (mkLabel 1 1051) 0].
Proof. vm_compute. reflexivity. Qed.
(* window boundaries: reference labels at start - d and stop + d are in the window, one unit beyond they are not returned at all *)
Example C12_window_boundary :
  map abs_pos (align_engine 50 1 (mkMap 1 9000 [949; 950; 4050; 4051] 0) (mkMap 2 3000 [] 0) 1000 4000 false) = [950; 4050].
Proof. vm_compute. reflexivity. Qed.
(* non-vacuity: reverse strand, a fragment with label-number offset 3, a tie (query labels 5 and 6 are equally near reference label 2:
   the first minimum in ascending query-site order, label 5, wins), coincident reference labels 3 and 4, unpaired labels of both
   kinds, a reference label (5) outside the window *)
Example C12_nonvacuous :
  let reference := mkMap 1 9000 [1000; 2000; 3000; 3000; 6000] 0 in
  let query := mkMap 2 3010 [400; 900; 1100; 2000] 3 in
  StronglySorted Z.le (mpositions reference) /\ StronglySorted Z.le (mpositions query) /\
  positions_with_ids query true = [mkLabel 7 1000; mkLabel 6 1900; mkLabel 5 2100; mkLabel 4 2600] /\
  align_engine 150 2 reference query 0 3000 true =
    [Pair (mkLabel 1 1000) (mkLabel 7 1000) 0 2; UQry (mkLabel 6 1900) 0; Pair (mkLabel 2 2000) (mkLabel 5 2100) 100 2;
     UQry (mkLabel 4 2600) 0; URef (mkLabel 3 3000); URef (mkLabel 4 3000)].
Proof. cbn [mpositions]. split; [|split; [|split]].
  - repeat (apply SSorted_cons || apply SSorted_nil || apply Forall_cons || apply Forall_nil); discriminate.
  - repeat (apply SSorted_cons || apply SSorted_nil || apply Forall_cons || apply Forall_nil); discriminate.
  - vm_compute. reflexivity.
  - vm_compute. reflexivity. Qed.

Print Assumptions C12_labels_forward.
Print Assumptions C12_labels_reverse.
Print Assumptions C12_window.
Print Assumptions C12_partition.
Print Assumptions C12_sorted.
Print Assumptions C12_sorted_ties.
Print Assumptions C12_within.
Print Assumptions C12_one_to_one_monotone.
Print Assumptions C12_pair_sites_unique.
Print Assumptions C12_pairs_in_order.
Print Assumptions C12_pairs_in_order_subrun.
Print Assumptions C12_mutual_nearest.

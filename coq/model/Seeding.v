(* The seeding stage, executable: workflow_coordinator.py __getPrimaryCorrelations / __align (up to the secondary correlations),
   optical_map.py getInitialAlignment / InitialAlignment.create / CorrelationResult.createPeaks / InitialAlignment.refine,
   peaks_selector.py selectPeaks, on top of the exact correlation model (Correlate.v) and find_peaks (FindPeaks.v).
   `seeds_model sp` is a concrete function of the type Coordinator.seeding; `program_run_full` is Coordinator.program_run with it.

   UNITS.  Maps (Pairing.omap) carry positions and lengths in tenths of a base pair (K = 10), as everywhere in the run model.  The
   parameters (resolutions, minPeakDistance, margin) are the command line's integers in base pairs; vectors are built with the
   resolution K * res on the K-scaled positions (vectorisePositions only compares and adds, so the bins are the same), peak positions
   are computed in base pairs as the code does (toRelativeGenomicPositions on integer bins: an integer number of bp) and multiplied by K.
   Heights of the primary stage are exact rationals (the normalised correlation), of the secondary stage integers.

   WHAT IS EXACT AND WHAT IS NOT.
   * The raw correlations are exact (scipy rounds the FFT result for integer inputs).  The normalising factor is computed by the code with
     a FLOAT kernel (np.ones) and is therefore only within ~1e-14 of its integer value; the normalised correlation of the code is the
     exact rational of this model up to a relative error of ~1e-15.  Equal rationals can thus become unequal doubles (and the border
     0.75 * max can fall on either side of a sample equal to it): where the exact correlation has such ties among the samples that
     matter (plateaus at or above the height border, equal heights of two peaks closer than the distance), the code's result depends on
     FFT rounding noise.  The model is the exact reading; the harness detects these cases from the code's own float correlation,
     counts them and leaves them out of the comparison (harness/seeding.py, flags).
   * Peak.score = height - noiseLevel with noiseLevel = sqrt(mean of the squares of the non-zero samples), one per correlation.
     selectPeaks orders by score.  The model keeps the exact height h and the exact mean square M of every peak's correlation and
     DECIDES  h1 - sqrt M1 <= h2 - sqrt M2  exactly by squaring twice (le_sqrt): no approximation, no data passed in.  (The numbers in
     that test have hundreds of digits; score_leb first tries two shortcuts that decide the same question: equal mean squares - by
     height (proved equal to the plain test: SeedingProofs3.score_leb_same_correlation); disjoint enclosures of the two scores computed
     from floor(sqrt(M) * 2^80) - by the enclosures (not proved; the harness compares score_leb with the plain test le_sqrt on all pairs
     of primary peaks of part of its cases).)
     The code's doubles can order two peaks differently only if their exact scores differ by less than ~1e-15 (flagged below 1e-9).
   * np.argpartition(-heights, peaksCount)[:peaksCount] (createPeaks when more peaks were found than wanted): numpy guarantees the SET
     (peaksCount highest; unspecified among equal heights at the border) but not the arrangement.  The model takes the peaksCount
     highest in descending order of height (stable).  For the primary stage the arrangement is invisible after selectPeaks' stable sort
     by score as long as the kept heights of one correlation are pairwise different and the border is strict (distinct heights of one
     correlation have distinct scores); otherwise the case is flagged.  For the secondary stage (more than 10 secondary peaks) the
     arrangement reaches Aligner.align as the order of the peaks: flagged whenever the cut happens.
   * peaksCount is a natural number here (a negative command-line value would make `[0:count]` count from the end). *)
From Coq Require Import ZArith QArith List Bool.
Import ListNotations.
Require Import Py Vec Peaks Correlate SeqFast Pairing Core Multi Coordinator FindPeaks.
Open Scope Z_scope.

Record sparams := mkSP { res1 : Z; blur1 : Z; min_dist : Z; pcount : nat; res2 : Z; blur2 : Z; margin : Z; pthr : Q }.
(* the command line's defaults *)
Definition default_sparams : sparams := mkSP 1400 1 20000 3 100 4 16000 (27 # 1).

(* distance = minPeakDistance / resolution (a float): find_peaks raises ValueError when it is below 1 and uses ceil(distance) *)
Definition peak_distance (mpd res : Z) : Py.res nat :=
  if mpd <? res then Err else Ok (Z.to_nat ((mpd + res - 1) / res)).

(* correlation / normalizingFactor, normalizingFactor = n2 / 2 *)
Definition corr_q (c n2 : list Z) : list Q := zipq c (map (fun t => inject_Z t / inject_Z 2)%Q n2).

(* rootMeanSquare(correlation) ** 2 = np.mean(array[array != 0] ** 2), exactly *)
(* evaluated by groups of equal denominators (the samples are 2c/n with few different n; the code's doubles are sent over one
   denominator), the group sums added over the least common denominator: SeedingProofs3.mean_square_spec proves it equal to the plain mean of squares *)
Fixpoint group_add (d : positive) (n : Z) (l : list (positive * Z)) : list (positive * Z) :=
  match l with
  | [] => [(d, n)]
  | (d', n') :: t => if Pos.eqb d d' then (d', n' + n) :: t else (d', n') :: group_add d n t
  end.
(* a/b + n/d^2 over lcm(b, d^2) *)
Definition add_lcm (acc : Q) (g : positive * Z) : Q :=
  let b := Zpos (Qden acc) in let d2 := Zpos (fst g * fst g) in
  let k := Z.gcd (b mod d2) d2 in
  Qmake (Qnum acc * (d2 / k) + snd g * (b / k)) (Z.to_pos (b * (d2 / k))).
Definition sum_squares (c : list Q) : Q :=
  fold_left add_lcm (fold_left (fun g v => group_add (Qden v) (Qnum v * Qnum v) g) c []) 0%Q.
Definition mean_square (c : list Q) : Q :=
  let nz := filter (fun v => negb (Qeq_bool v 0%Q)) c in
  Qred (sum_squares nz / inject_Z (Z.of_nat (length nz)))%Q.

(* the peaksCount highest, in descending order of height (stable), when more were found; otherwise all, in order of position *)
Section Cut.
Context {A : Type} (leb : A -> A -> bool).
Fixpoint ins_hdesc (x : nat * A) (l : list (nat * A)) : list (nat * A) :=
  match l with
  | [] => [x]
  | y :: t => if leb (snd y) (snd x) then x :: l else y :: ins_hdesc x t
  end.
Definition cut_top (count : nat) (found : list (nat * A)) : list (nat * A) :=
  if (count <? length found)%nat then firstn count (fold_right ins_hdesc [] found) else found.
End Cut.

(* a primary peak: its correlation (reference, strand), position in bp, height, and the mean square of its correlation *)
Record ppeak := mkPP { pp_ref : omap; pp_rev : bool; pp_pos : Z; pp_height : Q; pp_noise2 : Q; pp_nlo : Z }.
(* floor(sqrt(m) * 2^80) for a rational m >= 0 *)
Definition sqrt_lo (m : Q) : Z := Z.sqrt ((Qnum m * 2 ^ 160) / Zpos (Qden m)).

(* getInitialAlignment from find_peaks on, for a given normalised correlation: find_peaks, createPeaks (InitialAlignment.create).
   fl = None: the exact reading (border 3/4 max, stable argsort inside the distance condition);
   fl = Some (border, o): the border 0.75 * max as the code's double arithmetic rounded it and numpy's argsort result (see FindPeaks.v) *)
Definition primary_from (sp : sparams) (ref : omap) (rev : bool) (fl : option (Q * list nat)) (cq : list Q) : Py.res (list ppeak) :=
  do d <- peak_distance (min_dist sp) (res1 sp);
  let fp := match fl with Some (border, o) => find_peaks_initial_gen cq border d (Some o) | None => find_peaks_initial cq d end in
  match cut_top qleb (pcount sp) fp with
  | [] => Ok []
  | found => let m2 := mean_square cq in let lo := sqrt_lo m2 in
             Ok (map (fun kh => mkPP ref rev (bin_to_bp (Z.of_nat (fst kh)) (res1 sp) 0) (snd kh) m2 lo) found)
  end.

(* OpticalMap.getInitialAlignment(reference, primaryGenerator, minPeakDistance, peaksCount, reverseStrand).peaks *)
Definition primary_peaks (sp : sparams) (ref q : omap) (rev : bool) : Py.res (list ppeak) :=
  do ic <- initial_correlation_f (mlen q) (mpositions q) (mlen ref) (mpositions ref) (K * res1 sp) (blur1 sp) rev;
  match ic with
  | None => Ok []                                     (* EmptyInitialAlignment *)
  | Some (c, n2) => primary_from sp ref rev None (corr_q c n2)
  end.

(* d + sqrt B <= sqrt A  for rationals A, B >= 0, decided without square roots *)
Definition le_sqrt (d B A : Q) : bool :=
  if Qle_bool d 0%Q && Qle_bool B (d * d)%Q then true      (* d + sqrt B <= 0 *)
  else let R := (A - B - d * d)%Q in                        (* both sides >= 0: square; remains 2 d sqrt B <= R *)
       if Qle_bool 0%Q d then Qle_bool 0%Q R && Qle_bool (4 * d * d * B)%Q (R * R)%Q
       else Qle_bool 0%Q R || Qle_bool (R * R)%Q (4 * d * d * B)%Q.
(* score a <= score b,  score = height - sqrt(mean square): the plain test, and the one that is evaluated *)
Definition score_leb_spec (a b : ppeak) : bool := le_sqrt (pp_height a - pp_height b)%Q (pp_noise2 b) (pp_noise2 a).
Definition p80 : positive := 1208925819614629174706176.            (* 2^80 *)
Definition score_leb (a b : ppeak) : bool :=
  if (Qnum (pp_noise2 a) =? Qnum (pp_noise2 b)) && Pos.eqb (Qden (pp_noise2 a)) (Qden (pp_noise2 b))
  then qleb (pp_height a) (pp_height b)                                              (* one correlation (mean squares are reduced fractions) *)
  else
    (* score x lies in [hx - (nlo x + 1) / 2^80, hx - nlo x / 2^80] *)
    let ahi := (pp_height a - Qmake (pp_nlo a) p80)%Q in let alo := (pp_height a - Qmake (pp_nlo a + 1) p80)%Q in
    let bhi := (pp_height b - Qmake (pp_nlo b) p80)%Q in let blo := (pp_height b - Qmake (pp_nlo b + 1) p80)%Q in
    if negb (Qle_bool blo ahi) then true            (* ahi < blo *)
    else if negb (Qle_bool alo bhi) then false      (* bhi < alo *)
    else score_leb_spec a b.

(* sorted(peaks, key=score, reverse=True): stable, descending *)
Fixpoint ins_sdesc (x : ppeak) (l : list ppeak) : list ppeak :=
  match l with
  | [] => [x]
  | y :: t => if score_leb y x then x :: l else y :: ins_sdesc x t
  end.
Definition by_score (l : list ppeak) : list ppeak := fold_right ins_sdesc [] l.

(* __getPrimaryCorrelations for every reference in order, forward then reverse; `c for c in correlations for p in c.peaks` *)
Fixpoint all_primary (sp : sparams) (refs : list omap) (q : omap) : Py.res (list ppeak) :=
  match refs with
  | [] => Ok []
  | r :: t =>
    do f <- primary_peaks sp r q false;
    do v <- primary_peaks sp r q true;
    do rest <- all_primary sp t q;
    Ok (f ++ v ++ rest)
  end.
(* PeaksSelector(peaksCount).selectPeaks *)
Definition select_primary (sp : sparams) (l : list ppeak) : list ppeak := firstn (pcount sp) (by_score l).

(* InitialAlignment.refine(peak.position, secondaryGenerator, secondaryMargin, peakHeightThreshold).peaks, positions * K *)
Definition refine_peaks (sp : sparams) (q : omap) (p : ppeak) : Py.res (list Z) :=
  do rc <- refine_correlation_f (mlen q) (mpositions q) (mpositions (pp_ref p)) (pp_rev p) (K * pp_pos p) (K * res2 sp) (blur2 sp) (K * margin sp);
  match rc with (rstart, _, c) =>
    Ok (map (fun kh => K * bin_to_bp (Z.of_nat (fst kh)) (res2 sp) 0 + rstart) (cut_top Z.leb 10 (find_peaks_refine c (pthr sp))))
  end.

Fixpoint refine_all (sp : sparams) (q : omap) (l : list ppeak) : Py.res (list cseed) :=
  match l with
  | [] => Ok []
  | p :: t => do pk <- refine_peaks sp q p; do rest <- refine_all sp q t; Ok (mkSeed (pp_ref p) (pp_rev p) pk :: rest)
  end.

(* the seeding stage of __align: Err = an exception (which ends the run in the real program) *)
Definition seeds_res (sp : sparams) (refs : list omap) (q : omap) : Py.res (list cseed) :=
  do all <- all_primary sp refs q;
  refine_all sp q (select_primary sp all).

(* as a Coordinator.seeding function.  The type has no room for an exception: Err becomes "no seed".  The seeding stage raises only
   for parameters / maps excluded by the reader and the command line's sanity (resolution < 1, blur < 0, minPeakDistance < resolution,
   a map without labels or with negative positions); that these are the only causes is not proved. *)
Definition seeds_model (sp : sparams) : seeding := fun refs q => match seeds_res sp refs q with Ok l => l | Err => [] end.

Definition program_run_full (P : params) (sp : sparams) (m : mode) (maxdiff : Z) (refs qs : list omap) : Py.res outputs :=
  program_run P (seeds_model sp) m maxdiff refs qs.

From Coq Require Import ZArith QArith List Bool Lia.
Import ListNotations.
Require Import Py Pairing Core.
Open Scope Z_scope.

(* ---------- AlignmentResultRow (alignment_results.py) ---------- *)
Record row := mkRow { rsegs : list segment; qid : Z; rid : Z; qlen : Z; rlen : Z;
                      qs : Z; qe : Z; rs : Z; re : Z; rrev : bool; conf : Z; rest : bool }.
Definition row_pairs (segs : list segment) : list spos := flat_map aligned segs.     (* alignedPairs: segment order *)
Definition pair_rpos (p : spos) : Z := lpos (pr (pv_of p)).
Definition row_create (segs : list segment) (q r ql rl : Z) (rev_ : bool) : row :=
  let sorted_ := sort_by pair_rpos (row_pairs segs) in
  let first := match sorted_ with [] => null_pv | p :: _ => pv_of p end in
  let last_ := match rev sorted_ with [] => null_pv | p :: _ => pv_of p end in
  mkRow segs q r ql rl
        (lpos (pq (if rev_ then last_ else first))) (lpos (pq (if rev_ then first else last_)))
        (lpos (pr first)) (lpos (pr last_)) rev_ (fold_left (fun a s => a + sscore s) segs 0) false.

(* Python slicing *)
Definition slice_to {A} (l : list A) (k : Z) : list A :=          (* l[:k] *)
  if k <? 0 then firstn (Z.to_nat (Z.max 0 (Z.of_nat (length l) + k))) l else firstn (Z.to_nat k) l.
Definition slice_from {A} (l : list A) (k : Z) : list A :=        (* l[k:] *)
  if k <? 0 then skipn (Z.to_nat (Z.max 0 (Z.of_nat (length l) + k))) l else skipn (Z.to_nat k) l.
Fixpoint index_of (x : Z) (l : list Z) (i : Z) : res Z :=
  match l with [] => Err | y :: t => if y =? x then Ok i else index_of x t (i + 1) end.

Definition len {A} (l : list A) : Z := Z.of_nat (length l).

(* getUnalignedFragments (alignment_results.py:179-228); qpos = positions of the whole (trimmed) query *)
Definition unaligned_fragments (w : row) (qpos : list Z) : res (list omap) :=
  if 4 * qlen w <? 5 * Z.abs (qs w - qe w) then Ok [] else
  let sorted_ := sort_by pair_rpos (row_pairs (rsegs w)) in
  let firstp := match sorted_ with [] => null_pv | p :: _ => pv_of p end in
  let lastp := match rev sorted_ with [] => null_pv | p :: _ => pv_of p end in
  let mk ps sh := mkMap (qid w) (qlen w) ps sh in
  if (qs w =? 0) || (qe w =? 0) then
    if negb (rrev w) then
      do i <- index_of (qe w) qpos 0;
      let ps := slice_from qpos (i - 2) in
      if qe w =? 0 then Ok [] else Ok [mk ps (len qpos - len ps)]
    else Ok [mk (slice_to qpos (site (pq lastp) + 3)) 0]
  else
    do p12 <- (if negb (rrev w) then
                 do i1 <- index_of (qs w) qpos 0; do i2 <- index_of (qe w) qpos 0;
                 Ok (slice_to qpos (i1 + 3), slice_from qpos (i2 - 2))
               else Ok (slice_to qpos (site (pq lastp) + 3), slice_from qpos (site (pq firstp) - 2)));
    let p1 := fst p12 in let p2 := snd p12 in
    let m1 := mk p1 0 in let m2 := mk p2 (len qpos - len p2) in
    if (7 <=? len p1) && (7 <=? len p2) then Ok [m1; m2]
    else if 7 <=? len p1 then Ok [m1]
    else if 7 <=? len p2 then Ok [m2]
    else Ok [].

(* `row not in rows` (list membership of AlignmentResultRow objects, which define no __eq__: identity).  Rows are values here; two row
   objects that can meet in one run are the same object exactly when all their fields coincide (a first-pass and a second-pass row differ
   in AlignedRest; two second-pass rows of different fragments differ in their pairs), so identity is modelled as structural equality. *)
Definition lbl_eqb (a b : label) : bool := (site a =? site b) && (lpos a =? lpos b).
Definition apos_eqb (a b : apos) : bool :=
  match a, b with
  | Pair r q s src, Pair r' q' s' src' => lbl_eqb r r' && lbl_eqb q q' && (s =? s') && (src =? src')
  | URef r, URef r' => lbl_eqb r r'
  | UQry q st, UQry q' st' => lbl_eqb q q' && (st =? st')
  | _, _ => false
  end.
Definition spos_eqb (a b : spos) : bool := apos_eqb (ap a) (ap b) && (sc a =? sc b).
Fixpoint list_eqb {A} (f : A -> A -> bool) (a b : list A) : bool :=
  match a, b with [], [] => true | x :: s, y :: t => f x y && list_eqb f s t | _, _ => false end.
Definition seg_eqb (a b : segment) : bool := list_eqb spos_eqb (positions a) (positions b) && (sscore a =? sscore b) && (speak a =? speak b).
Definition row_eqb (a b : row) : bool :=
  list_eqb seg_eqb (rsegs a) (rsegs b) && (qid a =? qid b) && (rid a =? rid b) && (qlen a =? qlen b) && (rlen a =? rlen b) &&
  (qs a =? qs b) && (qe a =? qe b) && (rs a =? rs b) && (re a =? re b) && Bool.eqb (rrev a) (rrev b) && (conf a =? conf b) && Bool.eqb (rest a) (rest b).
Definition row_in (w : row) (l : list row) : bool := existsb (row_eqb w) l.

(* check_overlap / resolve (alignment_results.py:234-271) *)
Definition check_overlap (a b : row) (maxdiff : Z) : bool :=
  Bool.eqb (rrev a) (rrev b) && (rid a =? rid b) &&
  (Z.abs (Z.max (rs a) (rs b) - Z.min (re a) (re b)) <=? maxdiff).
Definition first_pair_rpos (w : row) : res Z := match row_pairs (rsegs w) with [] => Err | p :: _ => Ok (pair_rpos p) end.
Definition seg0 (w : row) : res segment := match rsegs w with [] => Err | s :: _ => Ok s end.
Definition join_rows (a b : row) : res row :=
  do pa <- first_pair_rpos a; do pb <- first_pair_rpos b; do sa <- seg0 a; do sb <- seg0 b;
  do r <- (if pa <? pb then resolve_pair sa sb else resolve_pair sb sa);
  Ok (row_create [fst r; snd r] (qid a) (rid a) (qlen a) (rlen a) (rrev a)).

Definition joined_ok (j : row) : bool := match row_pairs (rsegs j) with [] => false | _ => true end.

(* AlignmentResults.filterOutSubsequentAlignmentsForSingleQuery / resolve *)
Definition filter_subsequent (rows : list row) : list row :=
  flat_map (fun g => match g with [] => [] | x :: _ => [x] end)
           (groupby qid (sort_by qid (sort_by (fun w => - conf w) rows))).
Fixpoint resolve_groups (maxdiff : Z) (groups : list (list row)) : res (list row * list row) :=
  match groups with
  | [] => Ok ([], [])
  | g :: t =>
    do r <- resolve_groups maxdiff t;
    match g with
    | [] => Ok r
    | [x] => Ok (fst r, x :: snd r)
    | x :: y :: _ => if check_overlap x y maxdiff
                     then do j <- join_rows x y;
                          (* after repair F9 (`if resolved and resolved.alignedPairs`): a joined row without any pair does not replace its parts *)
                          if joined_ok j then Ok (j :: fst r, snd r) else Ok (fst r, g ++ snd r)
                     else Ok (fst r, g ++ snd r)
    end
  end.
Definition results_resolve (rows : list row) (maxdiff : Z) : res (list row * list row) :=
  resolve_groups maxdiff (flat_map (fun byref => groupby qid (sort_by qid byref)) (groupby rid (sort_by rid rows))).

(* XMAP writer and reader: transliteration of
     XmapReader.writeAlignments / readAlignments                     (src/parsers/xmap_reader.py)
     XmapAlignmentPairWithDistanceParser.parse                        (src/parsers/xmap_alignment_pair_parser.py)
     BionanoAlignment.parse                                           (src/correlation/bionano_alignment.py)
     BenchmarkAlignedPairWithDistance.calculateDistance               (src/diagnostic/benchmark_alignment.py)
   on the TEXT of the data lines (the lines that do not start with '#').

   Units.  Coordinates and lengths handed to the writer are Z in TENTHS of a base pair: the writer formats them with
   "{:.1f}" and COMA only produces values with one decimal.  The confidence is Z in HUNDREDTHS ("{:.2f}"): the model
   takes the value already rounded to two decimals; rounding an arbitrary float to two decimals is outside the model,
   and so is the text "-0.00" that Python prints for a negative value that rounds to zero (the READER model accepts it).
   What the reader returns: coordinates and lengths in whole base pairs (int() truncates toward zero), the confidence
   again in hundredths, positions looked up in the optical maps as plain Z.

   pandas behaviour relied upon (read_csv with comment='#', delimiter='\t', names=<15 names of the #h line>, usecols=13 of them):
   - a data line is split at every tab into exactly 15 fields; no field written by COMA contains a tab, a newline, a
     double quote or '#', so to_csv quotes nothing and read_csv neither unquotes nor truncates anything;
   - column types are inferred per column over the whole file.  XmapEntryID/QryContigID/RefContigID hold [-]digits in every
     record and become int64; the six coordinate/length columns and Confidence hold [-]digits.digits in every record and
     become float64 (at most 15 significant digits, so the C parser returns the correctly rounded double and int() of it is
     the decimal text truncated toward zero); Orientation, HitEnum, Alignment are not numeric in any record and stay str;
   - an EMPTY field is read as NaN (a float).  An empty Alignment field makes `alignment[:-1]` raise TypeError (modelled);
     an empty HitEnum field would be returned as NaN: modelled as cigar = None.  The writer emits an empty HitEnum only for a
     record without pairs (C03), whose Alignment field is empty as well.  The other NA spellings of pandas ("NA", "nan",
     "null", ...) cannot be produced by the writer and are not modelled;
   - texts outside these shapes (exponents, "5.", ".5", "+5", blanks, underscores, a float column without '.') are accepted by
     Python/pandas in more cases than by this model, which answers XErr EValue: the model makes no claim about them.
   The optional filters of readAlignments (alignmentIds, queryIds) are not modelled: they are None in every use with
   XmapAlignmentPairWithDistanceParser. *)
From Coq Require Import ZArith NArith List Bool String Ascii Decimal DecimalString.
Import ListNotations.
Require Import Py Cigar.
Open Scope Z_scope.

(* ---- exceptions with their Python type ---- *)
Inductive xerr := EStop       (* StopIteration: next() over the maps found no map with that id *)
                | EIndex      (* IndexError: positions[siteId - 1] out of range *)
                | EValue      (* ValueError: int() of a non-number, wrong number of values to unpack *)
                | EType       (* TypeError: NaN (empty field) is not subscriptable *)
                | EAttr.      (* AttributeError: DataFrame.tolist, the zero-record case before the repair *)
Inductive xres (A : Type) := XOk (a : A) | XErr (e : xerr).
Arguments XOk {A}. Arguments XErr {A}.
Definition xbind {A B} (x : xres A) (f : A -> xres B) : xres B := match x with XOk a => f a | XErr e => XErr e end.
Notation "'dox' x <- e ; f" := (xbind e (fun x => f)) (at level 200, x pattern, e at level 100, f at level 200).
Definition of_opt {A} (e : xerr) (o : option A) : xres A := match o with Some a => XOk a | None => XErr e end.
(* list(map(f, l)): left to right, the first exception wins *)
Fixpoint xmapM {A B} (f : A -> xres B) (l : list A) : xres (list B) :=
  match l with
  | [] => XOk []
  | x :: t => dox y <- f x; dox ys <- xmapM f t; XOk (y :: ys)
  end.

Notation omap := (Z * list Z)%type.                 (* OpticalMap: moleculeId, positions *)
Notation xpair := (Z * Z * Z * Z * Z)%type.         (* reference siteId, reference position, query siteId, query position, distance *)

(* what the writer consumes from an AlignmentResultRow *)
Record xrow := { x_qid : Z; x_rid : Z;
                 x_qstart : Z; x_qend : Z; x_rstart : Z; x_rend : Z;      (* tenths of bp *)
                 x_rev : bool;                                             (* orientation "-" *)
                 x_conf : Z;                                               (* hundredths *)
                 x_runs : list (nat * op);                                 (* cigarString = render x_runs *)
                 x_qlen : Z; x_rlen : Z;                                   (* tenths of bp *)
                 x_rest : bool;
                 x_pairs : list (Z * Z) }.                                 (* (reference siteId, query siteId) *)

(* what the reader returns: the attributes of a BionanoAlignment *)
Record xalign := { a_id : Z; a_qid : Z; a_rid : Z;
                   a_qstart : Z; a_qend : Z; a_rstart : Z; a_rend : Z;     (* whole bp *)
                   a_rev : bool;
                   a_conf : Z;                                             (* hundredths *)
                   a_cigar : option string;                                (* None = NaN *)
                   a_qlen : Z; a_rlen : Z;                                 (* whole bp *)
                   a_pairs : list xpair }.

Local Open Scope string_scope.

(* ---- str primitives ---- *)
Definition TAB : ascii := "009"%char.
(* s.split(c): always at least one piece *)
Fixpoint split_on (c : ascii) (s : string) : list string :=
  match s with
  | EmptyString => [EmptyString]
  | String a t => if Ascii.eqb a c then EmptyString :: split_on c t
                  else match split_on c t with
                       | [] => [String a EmptyString]
                       | h :: r => String a h :: r
                       end
  end.
Definition join (c : ascii) (l : list string) : string := String.concat (String c EmptyString) l.
(* s.replace(c, '') *)
Fixpoint remove_char (c : ascii) (s : string) : string :=
  match s with
  | EmptyString => EmptyString
  | String a t => if Ascii.eqb a c then remove_char c t else String a (remove_char c t)
  end.
(* s[:-1] *)
Fixpoint drop_last (s : string) : string :=
  match s with
  | EmptyString => EmptyString
  | String a t => match t with EmptyString => EmptyString | String _ _ => String a (drop_last t) end
  end.

(* ---- numbers as text ---- *)
Definition print_N (n : N) : string := NilEmpty.string_of_uint (N.to_uint n).         (* str(n), n >= 0 *)
Definition parse_N (s : string) : option N :=                                           (* int(s) on digits only *)
  match s with EmptyString => None | String _ _ => option_map N.of_uint (NilEmpty.uint_of_string s) end.
Definition sign_str (z : Z) : string := if (z <? 0)%Z then "-" else "".
Definition print_int (z : Z) : string := sign_str z ++ print_N (Z.abs_N z).           (* str(z) *)
Definition strip_sign (s : string) : bool * string :=
  match s with
  | String c t => if Ascii.eqb c "-"%char then (true, t) else (false, s)
  | EmptyString => (false, s)
  end.
Definition signed (neg : bool) (n : N) : Z := if neg then - Z.of_N n else Z.of_N n.
Definition parse_int (s : string) : option Z :=
  let '(neg, body) := strip_sign s in option_map (signed neg) (parse_N body).

(* "{:.1f}".format(z / 10) and "{:.2f}".format(z / 100) for a value that has exactly that many decimals *)
Definition pad2 (n : N) : string := (if (n <? 10)%N then "0" else "") ++ print_N n.
Definition print_tenths (z : Z) : string :=
  sign_str z ++ print_N (N.div (Z.abs_N z) 10) ++ "." ++ print_N (N.modulo (Z.abs_N z) 10).
Definition print_hundredths (z : Z) : string :=
  sign_str z ++ print_N (N.div (Z.abs_N z) 100) ++ "." ++ pad2 (N.modulo (Z.abs_N z) 100).

(* a decimal literal [-]digits.digits: sign, integer part, fraction digits read as a number, number of fraction digits *)
Definition parse_dec (s : string) : option (bool * N * N * nat) :=
  let '(neg, body) := strip_sign s in
  match split_on "."%char body with
  | [ip; fr] => match parse_N ip, parse_N fr with
                | Some i, Some f => Some (neg, i, f, String.length fr)
                | _, _ => None
                end
  | _ => None
  end.
(* int(float(s)): truncation toward zero *)
Definition dec_trunc (d : bool * N * N * nat) : Z := match d with (neg, i, _, _) => signed neg i end.
(* the value in units of 10^-k when the literal has exactly k decimals *)
Definition dec_fixed (k : nat) (d : bool * N * N * nat) : option Z :=
  match d with (neg, i, f, n) => if Nat.eqb n k then Some (signed neg (i * N.pow 10 (N.of_nat k) + f)%N) else None end.
Definition parse_decimal1 (s : string) : option Z := match parse_dec s with Some d => dec_fixed 1 d | None => None end.
Definition parse_decimal2 (s : string) : option Z := match parse_dec s with Some d => dec_fixed 2 d | None => None end.
Definition parse_trunc (s : string) : option Z := option_map dec_trunc (parse_dec s).

(* ---- the Alignment column ---- *)
Definition print_pair (p : Z * Z) : string := "(" ++ print_int (fst p) ++ "," ++ print_int (snd p) ++ ")".
Definition print_pairs (ps : list (Z * Z)) : string := String.concat "" (map print_pair ps).
(* alignment[:-1].replace('(', '').split(')') *)
Definition pair_strings (al : string) : list string := split_on ")"%char (remove_char "("%char (drop_last al)).
(* referenceSiteId, querySiteId = map(int, pair.split(',')) *)
Definition parse_pair_ids (s : string) : xres (Z * Z) :=
  match split_on ","%char s with
  | [a; b] => match parse_int a with
              | Some x => match parse_int b with Some y => XOk (x, y) | None => XErr EValue end
              | None => XErr EValue
              end
  | _ => XErr EValue
  end.
(* the text-only part of the parser (what XmapAlignmentPairParser would need): used for the codec lemma *)
Definition parse_pairs (al : string) : option (list (Z * Z)) :=
  match xmapM parse_pair_ids (pair_strings al) with XOk l => Some l | XErr _ => None end.

(* next(m for m in maps if m.moleculeId == id) *)
Definition find_map (ms : list omap) (id : Z) : xres omap := of_opt EStop (find (fun m => Z.eqb (fst m) id) ms).
(* l[i] with Python's negative indices *)
Definition py_index (l : list Z) (i : Z) : xres Z :=
  let n := Z.of_nat (List.length l) in
  let j := (if (i <? 0)%Z then i + n else i) in
  if ((0 <=? j)%Z && (j <? n)%Z)%bool then XOk (nth (Z.to_nat j) l 0) else XErr EIndex.
(* createAlignedPair *)
Definition create_pair (ref qry : omap) (s : string) : xres (Z * Z * Z * Z) :=
  dox ids <- parse_pair_ids s;
  dox rp <- py_index (snd ref) (fst ids - 1);
  dox qp <- py_index (snd qry) (snd ids - 1);
  XOk (fst ids, rp, snd ids, qp).
(* BenchmarkAlignedPairWithDistance.calculateDistance(pair, alignedPairs[0], reverseStrand); a pair object is always truthy *)
Definition distance (rev : bool) (first p : Z * Z * Z * Z) : Z :=
  match first, p with (_, frp, _, fqp), (_, rp, _, qp) =>
    (if rev then fqp - qp else qp - fqp) - (rp - frp)
  end.
Definition with_distance (rev : bool) (ps : list (Z * Z * Z * Z)) : list xpair :=
  match ps with
  | [] => []
  | first :: _ => map (fun p => (p, distance rev first p)) ps
  end.
(* XmapAlignmentPairWithDistanceParser.parse; `al` is the field text, the empty field having been turned into NaN by pandas *)
Definition parse_alignment (refs qrys : list omap) (al : string) (qid rid : Z) (rev : bool) : xres (list xpair) :=
  match al with
  | EmptyString => XErr EType
  | String _ _ =>
    let strs := pair_strings al in
    dox ref <- find_map refs rid;
    dox qry <- find_map qrys qid;
    dox ps <- xmapM (create_pair ref qry) strs;
    XOk (with_distance rev ps)
  end.

(* ---- the writer: one data line per row, as DataFrame.to_csv(sep='\t', header=False) with index 1..n emits it ---- *)
Definition write_row (idx : Z) (r : xrow) : string :=
  join TAB [ print_int idx; print_int (x_qid r); print_int (x_rid r);
             print_tenths (x_qstart r); print_tenths (x_qend r); print_tenths (x_rstart r); print_tenths (x_rend r);
             (if x_rev r then "-" else "+");
             print_hundredths (x_conf r);
             render (x_runs r);
             print_tenths (x_qlen r); print_tenths (x_rlen r);
             (if x_rest r then "True" else "False");
             "1";
             print_pairs (x_pairs r) ].
Fixpoint write_from (i : Z) (rows : list xrow) : list string :=
  match rows with [] => [] | r :: t => write_row i r :: write_from (i + 1) t end.
Definition xmap_write_lines (rows : list xrow) : list string := write_from 1 rows.

(* ---- the reader: parseRow on one data line ---- *)
Definition read_line (refs qrys : list omap) (line : string) : xres xalign :=
  match split_on TAB line with
  | [f_id; f_qid; f_rid; f_qs; f_qe; f_rs; f_re; f_or; f_conf; f_hit; f_qlen; f_rlen; _; _; f_al] =>
    dox id <- of_opt EValue (parse_int f_id);
    dox qid <- of_opt EValue (parse_int f_qid);
    dox rid <- of_opt EValue (parse_int f_rid);
    let rev := String.eqb f_or "-" in
    dox pairs <- parse_alignment refs qrys f_al qid rid rev;
    dox qs <- of_opt EValue (parse_trunc f_qs);
    dox qe <- of_opt EValue (parse_trunc f_qe);
    dox rs <- of_opt EValue (parse_trunc f_rs);
    dox re <- of_opt EValue (parse_trunc f_re);
    dox conf <- of_opt EValue (parse_decimal2 f_conf);
    dox qlen <- of_opt EValue (parse_trunc f_qlen);
    dox rlen <- of_opt EValue (parse_trunc f_rlen);
    XOk {| a_id := id; a_qid := qid; a_rid := rid; a_qstart := qs; a_qend := qe; a_rstart := rs; a_rend := re;
           a_rev := rev; a_conf := conf;
           a_cigar := (match f_hit with EmptyString => None | String _ _ => Some f_hit end);
           a_qlen := qlen; a_rlen := rlen; a_pairs := pairs |}
  | _ => XErr EValue
  end.
(* readAlignments: fixed = true is the code as it is now (`if alignments.empty: return []`);
   fixed = false is the code before that repair (DataFrame.apply on an empty frame returns a frame, which has no tolist) *)
Definition xmap_read_lines_gen (fixed : bool) (lines : list string) (refs qrys : list omap) : xres (list xalign) :=
  match lines with
  | [] => if fixed then XOk [] else XErr EAttr
  | _ :: _ => xmapM (read_line refs qrys) lines
  end.
Definition xmap_read_lines := xmap_read_lines_gen true.

(* ---- what the property says must come back ---- *)
Fixpoint number_from (i : Z) (rows : list xrow) : list (Z * xrow) :=
  match rows with [] => [] | r :: t => (i, r) :: number_from (i + 1) t end.
Definition number (rows : list xrow) : list (Z * xrow) := number_from 1 rows.
(* position of label `site` (1-based) on the first map with that id *)
Definition positions_of (ms : list omap) (id : Z) : list Z :=
  match find (fun m => Z.eqb (fst m) id) ms with Some m => snd m | None => [] end.
Definition pos_of (ms : list omap) (id site : Z) : Z := nth (Z.to_nat (site - 1)) (positions_of ms id) 0.
Definition expected (refs qrys : list omap) (ir : Z * xrow) : xalign :=
  let r := snd ir in
  {| a_id := fst ir; a_qid := x_qid r; a_rid := x_rid r;
     a_qstart := Z.quot (x_qstart r) 10; a_qend := Z.quot (x_qend r) 10;
     a_rstart := Z.quot (x_rstart r) 10; a_rend := Z.quot (x_rend r) 10;
     a_rev := x_rev r; a_conf := x_conf r; a_cigar := Some (render (x_runs r));
     a_qlen := Z.quot (x_qlen r) 10; a_rlen := Z.quot (x_rlen r) 10;
     a_pairs := with_distance (x_rev r)
                  (map (fun p => (fst p, pos_of refs (x_rid r) (fst p), snd p, pos_of qrys (x_qid r) (snd p))) (x_pairs r)) |}.

(* well-formed record: its maps are present, every site id is a label of its map, at least one pair and one run *)
Definition site_ok (ms : list omap) (id site : Z) : Prop := 1 <= site <= Z.of_nat (List.length (positions_of ms id)).
Definition has_map (ms : list omap) (id : Z) : Prop := exists m, find (fun m => Z.eqb (fst m) id) ms = Some m.
Definition row_ok (refs qrys : list omap) (r : xrow) : Prop :=
  has_map refs (x_rid r) /\ has_map qrys (x_qid r) /\
  Forall (fun p => site_ok refs (x_rid r) (fst p) /\ site_ok qrys (x_qid r) (snd p)) (x_pairs r) /\
  x_pairs r <> [] /\ x_runs r <> [].
(* the same as a boolean, for the harness *)
Definition has_mapb (ms : list omap) (id : Z) : bool := match find (fun m => Z.eqb (fst m) id) ms with Some _ => true | None => false end.
Definition site_okb (ms : list omap) (id site : Z) : bool := ((1 <=? site)%Z && (site <=? Z.of_nat (List.length (positions_of ms id)))%Z)%bool.
Definition row_okb (refs qrys : list omap) (r : xrow) : bool :=
  has_mapb refs (x_rid r) && has_mapb qrys (x_qid r) &&
  forallb (fun p => site_okb refs (x_rid r) (fst p) && site_okb qrys (x_qid r) (snd p)) (x_pairs r) &&
  negb (match x_pairs r with [] => true | _ => false end) && negb (match x_runs r with [] => true | _ => false end).

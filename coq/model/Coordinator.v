(* _WorkflowCoordinator / _MultiPassWorkflowCoordinator / Program.run (workflow_coordinator.py, multi_pass_workflow_coordinator.py,
   program.py) over an ABSTRACT seeding stage.

   The numerical seeding (vectorise + blur + FFT cross-correlation + scipy.find_peaks + PeaksSelector + refine) is a function
   argument `seeds`: for the reference maps and one query (or second-pass fragment) it returns, in the order of the selected
   primary peaks, the reference, the strand and the list of secondary peak positions each candidate alignment is built from.
   Every theorem about this model is proved for ALL such functions; the correspondence run instantiates it with the seeds
   captured from real runs. *)
From Coq Require Import ZArith QArith List Bool.
Import ListNotations.
Require Import Py Pairing Core Multi.
Open Scope Z_scope.

Record cseed := mkSeed { sd_ref : omap; sd_rev : bool; sd_peaks : list Z }.
Notation seeding := (list omap -> omap -> list cseed).

Inductive mode := Best | Separate | Joined | All_.

(* __getBestAlignment: first of the stable sort by confidence, descending *)
Definition best_alignment (rows : list row) : option row :=
  match sort_by (fun w => - conf w) rows with [] => None | r :: _ => Some r end.

Definition row_has_pairs (w : row) : bool := match row_pairs (rsegs w) with [] => false | _ => true end.

(* __getAlignmentRow for every selected peak; the engine's iteration counter `it` is threaded through sequentially here.  In the real
   pool every task starts from a pickled copy of the coordinator (counter 1 for every task); the difference is confined to the
   unprinted `source` field: see model/Pool.v and props/C09.v (any counter assignment gives the same rows up to source). *)
Fixpoint candidate_rows (P : params) (q : omap) (sds : list cseed) (it : Z) : res (list row * Z) :=
  match sds with
  | [] => Ok ([], it)
  | sd :: t =>
    do segs <- aligner_align P it (sd_ref sd) q (sd_peaks sd) (sd_rev sd);
    let w := row_create segs (mid q) (mid (sd_ref sd)) (mlen q) (mlen (sd_ref sd)) (sd_rev sd) in
    do r <- candidate_rows P q t (it + Z.of_nat (length (sd_peaks sd)));
    Ok (w :: fst r, snd r)
  end.

(* __align (after repair F2: no selected peak => None) *)
Definition align_query (P : params) (seeds : seeding) (refs : list omap) (q : omap) (it : Z) : res (option row * Z) :=
  match seeds refs q with
  | [] => Ok (None, it)
  | sds => do r <- candidate_rows P q sds it; Ok (best_alignment (fst r), snd r)
  end.

(* execute: results in query order; None and pair-less rows dropped AFTER the best candidate was chosen *)
Fixpoint execute (P : params) (seeds : seeding) (refs : list omap) (qs : list omap) (it : Z) : res (list row * Z) :=
  match qs with
  | [] => Ok ([], it)
  | q :: t =>
    do r <- align_query P seeds refs q it;
    do rest <- execute P seeds refs t (snd r);
    Ok (match fst r with
        | Some w => if row_has_pairs w then w :: fst rest else fst rest
        | None => fst rest
        end, snd rest)
  end.

Definition set_rest (w : row) : row :=
  mkRow (rsegs w) (qid w) (rid w) (qlen w) (rlen w) (qs w) (qe w) (rs w) (re w) (rrev w) (conf w) true.

(* next(opticMap for opticMap in queries if opticMap.moleculeId == self.queryId, None); None.positions raises *)
Fixpoint find_query (qs : list omap) (id : Z) : res omap :=
  match qs with [] => Err | q :: t => if mid q =? id then Ok q else find_query t id end.

Fixpoint all_fragments (rows : list row) (qs : list omap) : res (list omap) :=
  match rows with
  | [] => Ok []
  | w :: t =>
    (* the 0.8 test comes first: the query is only looked up in the else branch *)
    do fr <- (if 4 * qlen w <? 5 * Z.abs (Multi.qs w - qe w) then Ok []
              else do q <- find_query qs (qid w); unaligned_fragments w (mpositions q));
    do rest <- all_fragments t qs; Ok (fr ++ rest)
  end.

Record outputs := mkOut { o_main : list row; o_1 : option (list row); o_2 : option (list row) }.

Definition mem_z (x : Z) (l : list Z) : bool := existsb (Z.eqb x) l.

(* _MultiPassWorkflowCoordinator.execute *)
Definition multi_execute (P : params) (seeds : seeding) (m : mode) (maxdiff : Z) (refs qs : list omap) : res outputs :=
  do r1 <- execute P seeds refs qs 1;
  let rows1 := fst r1 in
  do frags <- all_fragments rows1 qs;
  do r2 <- execute P seeds refs frags (snd r1);
  let rows2 := map set_rest (fst r2) in
  let rows1' := match m with Best => rows1 ++ rows2 | _ => rows1 end in
  let f1 := filter_subsequent rows1' in
  let f2 := filter_subsequent rows2 in
  match m with
  | Separate => Ok (mkOut f1 (Some f2) None)
  | _ =>
    (* after repair F12: `filteredFirstPassRows + [row for row in filteredSecondPassRows if row not in filteredFirstPassRows]`:
       in `best` mode f1 is filtered from first ++ second pass rows, so a query's second-pass row can be in both lists *)
    do js <- results_resolve (f1 ++ filter (fun w => negb (row_in w f1)) f2) maxdiff;
    let joined := fst js in let sep := snd js in
    match m with
    | Best => let jids := map qid joined in
              Ok (mkOut (sort_by qid (joined ++ filter (fun w => negb (mem_z (qid w) jids)) f1)) None None)
    | Joined => Ok (mkOut joined (Some sep) None)
    | _ => Ok (mkOut joined (Some f1) (Some f2))
    end
  end.

(* Program.run: AlignmentResults.create filters the main rows once more; additional files are written as given *)
Definition program_run (P : params) (seeds : seeding) (m : mode) (maxdiff : Z) (refs qs : list omap) : res outputs :=
  do o <- multi_execute P seeds m maxdiff refs qs;
  Ok (mkOut (filter_subsequent (o_main o)) (o_1 o) (o_2 o)).

(* Which command-line value goes to which component (workflow_coordinator_factory.py:22-33, args.py).
   A record of the parsed CLI values that reach the candidate pipeline, and the parameter record the pipeline model runs with.
   Units: the model keeps positions in tenths of a base pair (K = 10) and scores in 1/20, so
     SP = 20 * -sp, SU = 20 * -su, MS = 20 * -ms, BS = 20 * -bs, DMAX = 10 * -d,
     DPU = 2 * -dp   (score units per position unit: 20 / 10),   SJ = 20 * -sj,   SS = -ss.
   a_dp2 is 2 * distancePenaltyMultiplier and a_sj20 is 20 * segmentJoinMultiplier (integers on the exactly representable grid). *)
From Coq Require Import ZArith QArith.
Require Import Pairing Core.
Open Scope Z_scope.

Record cli_args := mkArgs {
  a_sp : Z;      (* -sp  perfectMatchScore          -> AlignmentPositionScorer(perfectMatchScore, ., .) *)
  a_dp2 : Z;     (* -dp  distancePenaltyMultiplier  -> AlignmentPositionScorer(., distancePenaltyMultiplier, .) *)
  a_su : Z;      (* -su  unmatchedPenalty           -> AlignmentPositionScorer(., ., unmatchedPenalty) *)
  a_ms : Z;      (* -ms  minScore                   -> AlignmentSegmentsFactory(minScore, .) *)
  a_bs : Z;      (* -bs  breakSegmentThreshold      -> AlignmentSegmentsFactory(., breakSegmentThreshold) *)
  a_d : Z;       (* -d   maxPairDistance            -> AlignerEngine(maxDistance) *)
  a_sj20 : Z;    (* -sj  segmentJoinMultiplier      -> SequentialityScorer(segmentJoinMultiplier, .) *)
  a_ss : Z       (* -ss  sequentialityScore         -> SequentialityScorer(., sequentialityScore) *)
}.

Definition make_params (a : cli_args) : params :=
  mkP (20 * a_sp a) (a_dp2 a) (20 * a_su a) (20 * a_ms a) (20 * a_bs a) (K * a_d a) (inject_Z (a_sj20 a)) (a_ss a).

From Coq Require Import ZArith List Bool Lia String Ascii Decimal DecimalString.
Import ListNotations.
Require Import Py.
Open Scope Z_scope.

Inductive op := M | D | I.
Notation pair := (Z * Z)%type.

Fixpoint rep {A} (n : nat) (x : A) : list A := match n with O => [] | S k => x :: rep k x end.

(* ---- faithful model of AlignmentResultRow.__getHitEnums (alignment_results.py:134-151) ---- *)
(* state: current pair (None after next(it, None) is exhausted), rest of iterator, previousQuery *)

Fixpoint loop (fuel : nat) (idx : Z) (cur : option pair) (rest : list pair) (prevq : Z) : res (list op) :=
  match fuel with
  | O => Ok []
  | S f =>
    match cur with
    | None => Err                                   (* AttributeError: None.query *)
    | Some (cr, cq) =>
      let inc := Z.abs (cq - prevq) in
      let ins := if 1 <? inc then rep (Z.to_nat (inc - 1)) I else [] in
      let prevq1 := if 1 <? inc then cq else prevq in
      if cr =? idx then
        let cur' := match rest with [] => None | p :: _ => Some p end in
        match loop f (idx + 1) cur' (tl rest) cq with
        | Ok l => Ok (ins ++ M :: l) | Err => Err end
      else if idx <? cr then
        match loop f (idx + 1) cur rest prevq1 with
        | Ok l => Ok (ins ++ D :: l) | Err => Err end
      else
        match loop f (idx + 1) cur rest prevq1 with
        | Ok l => Ok (ins ++ l) | Err => Err end
    end
  end.

Definition hit_enums (ps : list pair) : res (list op) :=
  match ps with
  | [] => Err   (* next() on empty iterator: StopIteration; caller guards with `if not alignedPairs` *)
  | (r0, q0) :: rest =>
    let rl := fst (last ps (r0, q0)) in
    loop (Z.to_nat (rl + 1 - r0)) r0 (Some (r0, q0)) rest q0
  end.

(* ---- specification ---- *)
Definition gap (p p' : pair) : list op :=
  rep (Z.to_nat (Z.abs (snd p' - snd p) - 1)) I ++ rep (Z.to_nat (fst p' - fst p - 1)) D ++ [M].
Fixpoint ops_from (p : pair) (ps : list pair) : list op :=
  match ps with [] => [] | p' :: r => gap p p' ++ ops_from p' r end.
Definition ops (ps : list pair) : list op := match ps with [] => [] | p :: r => M :: ops_from p r end.

(* valid matching: strictly increasing reference, strictly monotone query in direction dir (+1 / -1) *)
Fixpoint valid_from (dir : Z) (p : pair) (ps : list pair) : Prop :=
  match ps with [] => True | p' :: r => fst p < fst p' /\ 0 < dir * (snd p' - snd p) /\ valid_from dir p' r end.
Definition valid (dir : Z) (ps : list pair) : Prop := match ps with [] => True | p :: r => valid_from dir p r end.

(* decoder: replay from first pair *)
Fixpoint decode (dir : Z) (r q : Z) (l : list op) : list pair :=
  match l with
  | [] => []
  | M :: t => (r + 1, q + dir) :: decode dir (r + 1) (q + dir) t
  | D :: t => decode dir (r + 1) q t
  | I :: t => decode dir r (q + dir) t
  end.

(* ---- AlignmentResultRow.__removeDuplicateQueryPositionsPreservingLastOne (alignment_results.py:153-157):
        groupby on the query site id over ADJACENT pairs, last member of each group ---- *)
Fixpoint dedup_last (ps : list pair) : list pair :=
  match ps with
  | [] => []
  | p :: t => match t with
              | [] => [p]
              | p' :: _ => if snd p =? snd p' then dedup_last t else p :: dedup_last t
              end
  end.

(* ---- AlignmentResultRow.__aggregateHitEnums (alignment_results.py:159-171, after repair F1) ---- *)
Definition op_eqb (a b : op) : bool := match a, b with M, M | D, D | I, I => true | _, _ => false end.
Fixpoint agg_loop (prev : op) (count : nat) (l : list op) (acc : list (nat * op)) : list (nat * op) * nat * op :=
  match l with
  | [] => (acc, count, prev)
  | h :: t => if op_eqb h prev then agg_loop prev (S count) t acc else agg_loop h 1 t (acc ++ [(count, prev)])
  end.
(* fixed = false is the code before repair F1 (`if hit:` tests the loop variable, None when the loop body never ran);
   fixed = true is the code as it is now (the last run is emitted unconditionally) *)
Definition aggregate_gen (fixed : bool) (hits : list op) : res (list (nat * op)) :=
  match hits with
  | [] => Err                                   (* hits[0] raises IndexError; caller guards *)
  | h :: t => let '(acc, count, prev) := agg_loop h 1 t [] in
              match t with
              | [] => if fixed then Ok (acc ++ [(count, prev)]) else Ok acc
              | _ => Ok (acc ++ [(count, prev)])
              end
  end.
Definition aggregate := aggregate_gen true.
Definition expand (rs : list (nat * op)) : list op := flat_map (fun r => rep (fst r) (snd r)) rs.

(* ---- f"{count}{hit.value}" and "".join ---- *)
Local Open Scope string_scope.
Definition op_char (o : op) : string := match o with M => "M" | D => "D" | I => "I" end.
Definition print_nat (n : nat) : string := NilZero.string_of_uint (Nat.to_uint n).
Definition render_run (r : nat * op) : string := print_nat (fst r) ++ op_char (snd r).
Definition render (rs : list (nat * op)) : string := String.concat "" (map render_run rs).

(* ---- AlignmentResultRow.cigarString (alignment_results.py:127-132) ---- *)
Definition cigar_runs (ps : list pair) : res (list (nat * op)) :=
  match ps with
  | [] => Ok []
  | _ => do h <- hit_enums (dedup_last ps); aggregate h
  end.
Definition cigar_string (ps : list pair) : res string := do rs <- cigar_runs ps; Ok (render rs).

(* ---- an independent reader of HitEnum text (used by the replay oracle and the C03/C18 codec theorems) ---- *)
Definition digit_of (c : ascii) : option nat :=
  let n := nat_of_ascii c in if (48 <=? n)%nat && (n <=? 57)%nat then Some (n - 48)%nat else None.
Definition op_of (c : ascii) : option op :=
  if Ascii.eqb c "M"%char then Some M else if Ascii.eqb c "D"%char then Some D else if Ascii.eqb c "I"%char then Some I else None.
(* acc = Some n while digits of the current count have been read *)
Fixpoint parse_hit_aux (s : string) (acc : option nat) : option (list (nat * op)) :=
  match s with
  | EmptyString => match acc with None => Some [] | Some _ => None end
  | String c t =>
    match digit_of c with
    | Some d => parse_hit_aux t (Some (match acc with None => d | Some a => 10 * a + d end)%nat)
    | None => match op_of c, acc with
              | Some o, Some n => option_map (cons (n, o)) (parse_hit_aux t None)
              | _, _ => None
              end
    end
  end.
Definition parse_hit (s : string) : option (list (nat * op)) := parse_hit_aux s None.

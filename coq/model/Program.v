(* THE WHOLE PROGRAM: from the rows of the two CMAP files and the command line to the data lines of every XMAP file COMA writes.
   Transliteration of src/program.py (main, Program.__init__, Program.__readMaps, Program.run), src/args.py (which option is which
   field) and of the places of src/workflow_coordinator_factory.py / src/multi_pass_workflow_coordinator.py that decide which value
   goes where; everything below that is the existing models, composed and nothing else.  Executable, no proofs.

     program_files cl ref_rows qry_rows  =  Err                                  the program ends with an exception
                                         =  Ok [(suffix, data lines); ...]       one entry per file written, in the order "", "_1", "_2"

   WHAT IS COMPOSED (statement order of the real program)
   1. Program.__init__ -> __readMaps (program.py:54-60):
        referenceMaps = cmapReader.readReferences(referenceFile, args.referenceIds)                 Cmap.cmap_read ref_rows (cl_rids cl)
        queryMaps = list(map(lambda q: q.trim(), cmapReader.readQueries(queryFile, args.queryIds))) map Cmap.trim (Cmap.cmap_read qry_rows (cl_qids cl))
      references first; an exception of either read ends the program before anything is written.  `-rId` / `-qId` are argparse
      `type=int, nargs="*"`: None when the option is absent, [] when given without a value; `moleculeIds or []` / `if moleculeIds:`
      treat both as "no selection", which is cmap_read's `match ids with [] => rows`.  Only the queries are trimmed, and exactly here.
   2. WorkflowCoordinatorFactory.create (workflow_coordinator_factory.py:22-47): Wiring.make_params for the eight options that reach the
      candidate pipeline; primaryGenerator / secondaryGenerator / PeaksSelector(peaksCount) / minPeakDistance / secondaryMargin /
      peakHeightThreshold are the fields of Seeding.sparams; outputMode is never "single" on the command line (choices = best, separate,
      joined, all), so the coordinator is always _MultiPassWorkflowCoordinator; maxDifference reaches AlignmentResults.resolve in base
      pairs and is compared with differences of positions: K * cl_diff in the model's tenths.
   3. Program.run: workflowCoordinator.execute(referenceMaps, queryMaps) then AlignmentResults.create (the final filter) =
      Seeding.program_run_full = Coordinator.program_run with the executable seeding stage Seeding.seeds_model.
   4. XmapReader.writeAlignments for every file (xmap_reader.py:37-76).  The additional files are written INSIDE execute
      (saveAdditionalOutput: "_1" before "_2"), the main file after it; an exception while a file is being prepared (cigarString of one of
      its rows) ends the program.  Per file: the rows in the order they were handed over, one data line each, XmapEntryID = 1, 2, 3, ...
      (pandas RangeIndex(1, n + 1) printed as the first column), fifteen tab-separated columns: Record.xrow_of (which attribute goes to
      which column, HitEnum = cigarString) and Xmap.write_row (the text of every column).  File names: main = the -o path, additional
      files "{root}_{n}{ext}" of it; the model names a file by the suffix n inserts ("", "_1", "_2").

   UNITS.  Rows are (CMapId, LabelChannel, Position) with Position in TENTHS of a base pair (a CMAP file carries one decimal): what an
   independent parser extracts from the file text (harness/props/C17.py parse_rows; the step text -> rows is Cmap.cmap_rows and carries no
   theorem, see model/Cmap.v).  The command line: integers as typed for the int options (base pairs / score points); -dp and -sj are floats and
   enter as 2 * dp and 20 * sj (Wiring.cli_args: integers on the exactly representable grid); -pt (float) enters as a rational; -p as a nat.
   The data lines are the exact text (no terminating newline), coordinates with one decimal, Confidence with two.

   NOT MODELLED.
   * The comment lines of an XMAP file.  Four of the seven depend on the machine and on the literal command line ("# hostname=", "# coma ...",
     "# Reference Maps From:", "# Query Maps From:"); the three fixed ones are `xmap_fixed_header` below (lines 3, 6 and 7 of every file;
     compared with the real files by the correspondence stream, no theorem).
   * argparse itself (text -> values, rejected command lines), opening the files, -o absent (stdout: then the additional files are
     named "<stdout>_1" in the working directory), -c / -pb (Pool.v, C09), -D / -a (diagnostics; off).
   * The exception TYPE: every exception is Err.
   * An exception inside the seeding stage ends the real program; Seeding.seeds_model (whose type has no error value) turns it into "no seed
     for this molecule".  For command lines with 1 <= -r1, 1 <= -r2, 0 <= -b1, 0 <= -b2, -r1 <= -md and reference molecules with a label at a
     position >= 0 the escape is never taken in a run (props/C07.v: C07_program_seeding_exact), so nothing is lost there; outside these
     (e.g. -md below -r1: scipy's find_peaks raises ValueError) program_files does NOT model the abort.
   * Floating point: FFT rounding in the primary correlation (model/Seeding.v header), and "{:.2f}" of a confidence that is not a multiple
     of 1/20 (parameters off the exact grid). *)
From Coq Require Import ZArith QArith List Bool String.
Import ListNotations.
Require Import Py Pairing Core Multi Coordinator Cmap Xmap Record Wiring Seeding.
Open Scope Z_scope.

Notation cmap_row := (Z * Z * Z)%type.        (* = Cmap.row: (CMapId, LabelChannel, Position in tenths), in file order *)

(* the parsed command line (args.py), as far as it reaches the computation *)
Record cmdline := mkCmd {
  cl_args : cli_args;        (* -sp -dp -su -ms -bs -d -sj -ss                      (Wiring.v) *)
  cl_seed : sparams;         (* -r1 -b1 -md -p -r2 -b2 -ma -pt                      (Seeding.v) *)
  cl_mode : mode;            (* -oM best | separate | joined | all *)
  cl_diff : Z;               (* -diff maxDifference, base pairs *)
  cl_rids : list Z;          (* -rId, [] = option absent or empty *)
  cl_qids : list Z           (* -qId *)
}.
(* the defaults of args.py: -sp 1000 -dp 1.0 -su -250 -ms 1000 -bs 1200 -d 1500 -sj 1 -ss 0; -r1 1400 -b1 1 -md 20000 -p 3 -r2 100 -b2 4 -ma 16000
   -pt 27; -oM best; -diff 100000; no id selection *)
Definition default_cmdline : cmdline :=
  mkCmd (mkArgs 1000 2 (-250) 1000 1200 1500 20 0) default_sparams Best 100000 [] [].

(* Program.__readMaps *)
Definition program_read (cl : cmdline) (ref_rows qry_rows : list cmap_row) : res (list Pairing.omap * list Pairing.omap) :=
  do referenceMaps <- cmap_read ref_rows (cl_rids cl);
  do queries <- cmap_read qry_rows (cl_qids cl);
  Ok (referenceMaps, map trim queries).

(* Program.__init__ + workflowCoordinator.execute + AlignmentResults.create: the rows of every file *)
Definition program_outputs (cl : cmdline) (ref_rows qry_rows : list cmap_row) : res outputs :=
  do maps <- program_read cl ref_rows qry_rows;
  program_run_full (make_params (cl_args cl)) (cl_seed cl) (cl_mode cl) (K * cl_diff cl) (fst maps) (snd maps).

(* XmapReader.writeAlignments, data lines of one file: cigarString of every row while the DataFrame is built, then to_csv *)
Definition file_data_lines (rows : list Multi.row) : res (list string) :=
  do xs <- mapM xrow_of rows; Ok (xmap_write_lines xs).
Definition opt_data_lines (suffix : string) (o : option (list Multi.row)) : res (list (string * list string)) :=
  match o with None => Ok [] | Some rows => do l <- file_data_lines rows; Ok [(suffix, l)] end.
(* saveAdditionalOutput(., 1), saveAdditionalOutput(., 2) inside execute, then Program.run writes the main file *)
Definition write_outputs (o : outputs) : res (list (string * list string)) :=
  do f1 <- opt_data_lines "_1" (o_1 o);
  do f2 <- opt_data_lines "_2" (o_2 o);
  do main <- file_data_lines (o_main o);
  Ok ((EmptyString, main) :: f1 ++ f2).

Definition program_files (cl : cmdline) (ref_rows qry_rows : list cmap_row) : res (list (string * list string)) :=
  do o <- program_outputs cl ref_rows qry_rows;
  write_outputs o.

(* The same program over an arbitrary seeding stage (Coordinator.seeding): program_files cl = program_files_with (seeds_model (cl_seed cl)) cl
   (ProgramProofs1.program_files_is_with, by computation).  Used by the correspondence only: when a real run whose seeds may depend on FFT rounding
   noise differs from program_files, the model is evaluated once more with the seeds CAPTURED from that run, which tells a difference that the
   seeding stage explains from one that it does not (reader, wiring, post-processing, writer). *)
Definition program_outputs_with (seeds : seeding) (cl : cmdline) (ref_rows qry_rows : list cmap_row) : res outputs :=
  do maps <- program_read cl ref_rows qry_rows;
  program_run (make_params (cl_args cl)) seeds (cl_mode cl) (K * cl_diff cl) (fst maps) (snd maps).
Definition program_files_with (seeds : seeding) (cl : cmdline) (ref_rows qry_rows : list cmap_row) : res (list (string * list string)) :=
  do o <- program_outputs_with seeds cl ref_rows qry_rows;
  write_outputs o.

(* the comment lines of every XMAP file that do not depend on the machine or the command line: lines 3, 6 and 7 *)
Local Open Scope string_scope.
Definition xmap_columns : list (string * string) :=
  [("#h", "#f"); ("XmapEntryID", "int"); ("QryContigID", "int"); ("RefContigID", "int"); ("QryStartPos", "float"); ("QryEndPos", "float");
   ("RefStartPos", "float"); ("RefEndPos", "float"); ("Orientation", "string"); ("Confidence", "float"); ("HitEnum", "string");
   ("QryLen", "float"); ("RefLen", "float"); ("AlignedRest", "string"); ("LabelChannel", "int"); ("Alignment", "string")].
Definition xmap_fixed_header : list string :=
  [ String.concat (String TAB EmptyString) ["# XMAP File Version:"; "0.2"];
    join TAB (map fst xmap_columns);
    join TAB (map snd xmap_columns) ].

(* The process pool of _WorkflowCoordinator.execute (workflow_coordinator.py:30-36, p_tqdm.p_imap) and what is printed from a row.

   What the pool does, as far as COMA's own code can tell:
     - the queries are the tasks; task k runs `self.__align(referenceMaps, queries[k])` in SOME worker process;
     - every worker process owns a private copy of the coordinator and hence of AlignerEngine; the only state of that copy that
       one task leaves behind for the next task of the same process is the counter `AlignerEngine.iteration` (aligner.py:34,64:
       incremented once per secondary peak processed; it is written to AlignedPair.source and to nothing else);
     - the value of the counter a task starts from therefore depends on the schedule: which tasks the same process ran before,
       with which copy of the coordinator it was started (fork / dill pickling of the lambda), and in which pass;
     - p_imap returns the results IN INPUT ORDER whatever order the workers finish in (contract of multiprocess Pool.imap;
       TRUSTED, exercised by the end-to-end runs of harness/props/C09.py with perturbed completion orders), and an exception
       raised by any task is re-raised in the parent.

     (observed on real runs, harness/props/C09.py: multiprocess/dill ships the task closure with a pickled copy of the coordinator,
      so today every task starts from a fresh engine, counter 1 — the constant schedule; nothing in COMA's code guarantees that);
   Abstraction: task k is run with an ARBITRARY counter value `its k` (any function nat -> Z) and the results are assembled by
   task index.  Every real schedule (any number of workers, any assignment of tasks to workers, any completion order, fresh or
   re-used engine copies, first or second pass) is an instance; Coordinator.execute (one counter threaded through all queries in
   order) is the instance `seq_its`.  Real process scheduling, pickling and OS behaviour are NOT modelled.

   Units as in Core.v / Multi.v (positions x10, scores x20). *)
From Coq Require Import ZArith QArith List Bool String.
Import ListNotations.
Require Import Py Pairing Core Multi Coordinator.
Require Cigar Xmap.
Open Scope Z_scope.

Definition map_res {A B} (f : A -> B) (x : res A) : res B := match x with Ok a => Ok (f a) | Err => Err end.

(* ---------- forgetting AlignedPair.source ---------- *)
Definition erase_apos (p : apos) : apos := match p with Pair r q s _ => Pair r q s 0 | _ => p end.
Definition erase_spos (p : spos) : spos := mkS (erase_apos (ap p)) (sc p).
Definition erase_segment (s : segment) : segment := mkSeg (map erase_spos (positions s)) (sscore s) (speak s).
Definition erase_row (w : row) : row :=
  mkRow (map erase_segment (rsegs w)) (qid w) (rid w) (qlen w) (rlen w) (Multi.qs w) (qe w) (rs w) (re w) (rrev w) (conf w) (rest w).
Definition erase_outputs (o : outputs) : outputs :=
  mkOut (map erase_row (o_main o)) (option_map (map erase_row) (o_1 o)) (option_map (map erase_row) (o_2 o)).

(* ---------- the pool ---------- *)
(* p_imap(lambda x: self.__align(x[0], x[1]), [(refs, q) for q in queries]): task k sees the counter value its k *)
Fixpoint pool_results (P : params) (seeds : seeding) (refs : list omap) (qs : list omap) (its : nat -> Z) : res (list (option row)) :=
  match qs with
  | [] => Ok []
  | q :: t =>
    do r <- align_query P seeds refs q (its 0%nat);
    do rest <- pool_results P seeds refs t (fun k => its (S k));
    Ok (fst r :: rest)
  end.
(* [a for a in ... if a is not None and a.alignedPairs] *)
Definition keep_rows (l : list (option row)) : list row :=
  flat_map (fun o => match o with Some w => if row_has_pairs w then [w] else [] | None => [] end) l.
Definition pool_execute (P : params) (seeds : seeding) (refs qs : list omap) (its : nat -> Z) : res (list row) :=
  do rs <- pool_results P seeds refs qs its; Ok (keep_rows rs).

(* the schedule of Coordinator.execute: one process, one counter, tasks in order.
   A task advances the counter by the number of secondary peaks of all its seeds. *)
Definition task_cost (seeds : seeding) (refs : list omap) (q : omap) : Z :=
  fold_right (fun sd a => Z.of_nat (List.length (sd_peaks sd)) + a) 0 (seeds refs q).
Fixpoint seq_its (seeds : seeding) (refs qs : list omap) (it : Z) (k : nat) : Z :=
  match k, qs with
  | S k', q :: t => seq_its seeds refs t (it + task_cost seeds refs q) k'
  | _, _ => it
  end.
(* a pool of workers: task k is given to worker asg k, which starts from the counter start (asg k) and has run, before task k,
   exactly the earlier tasks given to it (Pool.imap hands the tasks out in input order, a worker runs its tasks one after another) *)
Fixpoint worker_its (seeds : seeding) (refs qs : list omap) (asg : nat -> nat) (start : nat -> Z) (k : nat) : Z :=
  match k, qs with
  | S k', q :: t =>
    worker_its seeds refs t (fun j => asg (S j))
               (fun w => if Nat.eqb w (asg 0%nat) then start w + task_cost seeds refs q else start w) k'
  | _, _ => start (asg 0%nat)
  end.

(* _MultiPassWorkflowCoordinator.execute after the two passes (same text as Coordinator.multi_execute) *)
Definition multi_post (m : mode) (maxdiff : Z) (rows1 rows2raw : list row) : res outputs :=
  let rows2 := map set_rest rows2raw in
  let rows1' := match m with Best => rows1 ++ rows2 | _ => rows1 end in
  let f1 := filter_subsequent rows1' in
  let f2 := filter_subsequent rows2 in
  match m with
  | Separate => Ok (mkOut f1 (Some f2) None)
  | _ =>
    do js <- results_resolve (f1 ++ filter (fun w => negb (row_in w f1)) f2) maxdiff;     (* repair F12, as in Coordinator.multi_execute *)
    let joined := fst js in let sep := snd js in
    match m with
    | Best => let jids := map qid joined in
              Ok (mkOut (sort_by qid (joined ++ filter (fun w => negb (mem_z (qid w) jids)) f1)) None None)
    | Joined => Ok (mkOut joined (Some sep) None)
    | _ => Ok (mkOut joined (Some f1) (Some f2))
    end
  end.
(* both passes go through the pool; the second pass finds the counters wherever the first pass (and the schedule) left them *)
Definition pool_multi_execute (P : params) (seeds : seeding) (m : mode) (maxdiff : Z) (refs qs : list omap)
           (its1 its2 : nat -> Z) : res outputs :=
  do rows1 <- pool_execute P seeds refs qs its1;
  do frags <- all_fragments rows1 qs;
  do rows2 <- pool_execute P seeds refs frags its2;
  multi_post m maxdiff rows1 rows2.
Definition pool_program_run (P : params) (seeds : seeding) (m : mode) (maxdiff : Z) (refs qs : list omap)
           (its1 its2 : nat -> Z) : res outputs :=
  do o <- pool_multi_execute P seeds m maxdiff refs qs its1 its2;
  Ok (mkOut (filter_subsequent (o_main o)) (o_1 o) (o_2 o)).

(* ---------- what XmapReader.writeAlignments prints from a row (xmap_reader.py:60-76) ---------- *)
(* row.alignedPairs as (reference siteId, query siteId), segment order *)
Definition site_pairs (segs : list segment) : list (Z * Z) :=
  map (fun p => let v := pv_of p in (site (pr v), site (pq v))) (row_pairs segs).
(* every row-level observable of a candidate: ids, strand, the four positions, confidence, rest flag, pairs, HitEnum text, lengths *)
Notation crow := (Z * Z * bool * (Z*Z*Z*Z) * Z * bool * list (Z*Z) * res string * (Z*Z))%type.
Definition crow_of (w : row) : crow :=
  (qid w, rid w, rrev w, (Multi.qs w, qe w, rs w, re w), conf w, rest w, site_pairs (rsegs w),
   Cigar.cigar_string (site_pairs (rsegs w)), (qlen w, rlen w)).
(* the confidence is a sum of scores in units of 1/20: 5 * conf is its value in hundredths, what "{:.2f}" prints *)
Definition xrow_of (w : row) : res Xmap.xrow :=
  do runs <- Cigar.cigar_runs (site_pairs (rsegs w));
  Ok (Xmap.Build_xrow (qid w) (rid w) (Multi.qs w) (qe w) (rs w) (re w) (rrev w) (5 * conf w) runs (qlen w) (rlen w) (rest w)
                      (site_pairs (rsegs w))).
Fixpoint mapM_res {A B} (f : A -> res B) (l : list A) : res (list B) :=
  match l with [] => Ok [] | x :: t => do y <- f x; do ys <- mapM_res f t; Ok (y :: ys) end.
(* the data lines of one file *)
Definition file_lines (rows : list row) : res (list string) := do xs <- mapM_res xrow_of rows; Ok (Xmap.xmap_write_lines xs).
Record printed := mkPrinted { p_main : list string; p_1 : option (list string); p_2 : option (list string) }.
Definition opt_lines (o : option (list row)) : res (option (list string)) :=
  match o with None => Ok None | Some rows => do l <- file_lines rows; Ok (Some l) end.
(* additional files are written inside execute, before the main file *)
Definition print_outputs (o : outputs) : res printed :=
  do l1 <- opt_lines (o_1 o); do l2 <- opt_lines (o_2 o); do l <- file_lines (o_main o); Ok (mkPrinted l l1 l2).

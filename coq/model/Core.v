From Coq Require Import ZArith QArith List Bool Lia.
Import ListNotations.
Require Import Py Pairing.
Require Export Fac.
Open Scope Z_scope.


(* ---------- scoring (alignment_position.py:26-30,133-136) ---------- *)
Record spos := mkS { ap : apos; sc : Z }.
Record params := mkP { SP : Z; DPU : Z; SU : Z; MS : Z; BS : Z; DMAX : Z; SJ : Q; SS : Z }.
Definition score_pos (P : params) (p : apos) : spos :=
  match p with
  | Pair _ _ s _ => mkS p (SP P - DPU P * Z.abs s)
  | _ => mkS p (SU P)
  end.
Definition is_pair (p : spos) : bool := match ap p with Pair _ _ _ _ => true | _ => false end.
Definition sum_scores (l : list spos) : Z := fold_left (fun a p => a + sc p) l 0.

(* ---------- segments (segments.py) ---------- *)
Record segment := mkSeg { positions : list spos; sscore : Z; speak : Z }.
Definition seg_create (ps : list spos) (peak : Z) : segment := mkSeg ps (sum_scores ps) peak.
Definition seg_empty (s : segment) : bool := match positions s with [] => true | _ => false end.
Definition aligned (s : segment) : list spos := filter is_pair (positions s).

(* a "pair view": AlignedPair.null for empty segments *)
Record pv := mkPV { isnull : bool; pr : label; pq : label }.
Definition null_pv := mkPV true (mkLabel 0 0) (mkLabel 0 0).
Definition pv_of (p : spos) : pv := match ap p with Pair r q _ _ => mkPV false r q | _ => null_pv end.
Definition start_position (s : segment) : res pv :=
  if seg_empty s then Ok null_pv else match aligned s with [] => Err | p :: _ => Ok (pv_of p) end.
Definition end_position (s : segment) : res pv :=
  if seg_empty s then Ok null_pv else match rev (aligned s) with [] => Err | p :: _ => Ok (pv_of p) end.

Definition label_eqb (a b : label) : bool := (site a =? site b) && (lpos a =? lpos b).
(* self.lessOnBothSequences(other) / self.lessOrEqualOnAnySequence(other), other always an AlignedPair (possibly null) *)
Definition pv_less_both (a o : pv) : bool :=
  if isnull a then false else (lpos (pq a) <? lpos (pq o)) && (lpos (pr a) <? lpos (pr o)).
Definition pv_le_any (a o : pv) : bool :=
  if isnull a then false else
  (lpos (pq a) <? lpos (pq o)) || (lpos (pr a) <? lpos (pr o)) || label_eqb (pq a) (pq o) || label_eqb (pr a) (pr o).
Definition less_both (p : spos) (o : pv) : bool :=
  match ap p with
  | Pair r q _ _ => pv_less_both (mkPV false r q) o
  | URef r => lpos r <? lpos (pr o)
  | UQry q _ => lpos q <? lpos (pq o)
  end.
Definition le_any (p : spos) (o : pv) : bool :=
  match ap p with
  | Pair r q _ _ => pv_le_any (mkPV false r q) o
  | URef r => lpos r <=? lpos (pr o)
  | UQry q _ => lpos q <=? lpos (pq o)
  end.

(* __trimNotAlignedPositionsFromEnd on a reversed list *)
(* fixed = true is the code as it is now (after repair F8: `while positions and ...` stops on the empty list);
   fixed = false is the code before the repair (positions[-1] on the empty list raised IndexError) — kept for the regression witnesses *)
Fixpoint trim_rev_gen (fixed : bool) (rl : list spos) (e : pv) : res (list spos) :=
  match rl with
  | [] => if fixed then Ok [] else Err
  | p :: t => if negb (is_pair p) && negb (le_any p e) then trim_rev_gen fixed t e else Ok rl
  end.
Fixpoint trim_rev (rl : list spos) (e : pv) : res (list spos) :=
  match rl with
  | [] => Ok []
  | p :: t => if negb (is_pair p) && negb (le_any p e) then trim_rev t e else Ok rl
  end.
Definition slice (s : segment) (st en : pv) : res segment :=
  let ps := takewhile (fun p => negb (is_pair p) || le_any p en) (dropwhile (fun p => less_both p st) (positions s)) in
  match ps with
  | [] => Ok (seg_create [] (speak s))
  | _ => do rl <- trim_rev (rev ps) en; Ok (seg_create (rev rl) (speak s))
  end.

Definition pos_eqb (a b : spos) : bool :=
  match ap a, ap b with
  | Pair r q _ _, Pair r' q' _ _ => label_eqb r r' && label_eqb q q'
  | URef r, URef r' => site r =? site r'
  | UQry q _, UQry q' _ => site q =? site q'
  | _, _ => false
  end.
Definition seg_sub (s : segment) (other : list spos) : segment :=
  seg_create (filter (fun p => negb (existsb (pos_eqb p) other)) (positions s)) (speak s).

(* getReferenceLabels / getQueryLabels: (scores, indexes) *)
Fixpoint labels_aux (isref : bool) (l : list spos) (idx : nat) (sum : Z) : list (Z * nat) :=
  match l with
  | [] => []
  | p :: t =>
    let mine := match ap p with Pair _ _ _ _ => true | URef _ => isref | UQry _ _ => negb isref end in
    if mine then (sc p + sum, idx) :: labels_aux isref t (S idx) 0
    else labels_aux isref t (S idx) (sum + sc p)
  end.
Definition seg_labels (isref : bool) (s : segment) := labels_aux isref (positions s) 0 0.

Fixpoint cumsum (acc : Z) (l : list Z) : list Z := match l with [] => [] | x :: t => (acc + x) :: cumsum (acc + x) t end.
Fixpoint argmax_aux (l : list Z) (i : nat) (best : Z) (bi : nat) : nat :=
  match l with [] => bi | x :: t => if best <? x then argmax_aux t (S i) x i else argmax_aux t (S i) best bi end.
Definition argmax (l : list Z) : nat := match l with [] => O | x :: t => argmax_aux t 1 x 0 end.
Definition optimal_merge_index (ls rs : list Z) : nat :=
  let lc := cumsum 0 (0 :: ls) in
  let rc := rev (cumsum 0 (0 :: rev rs)) in
  argmax (map (fun ab => fst ab + snd ab) (combine lc rc)).

Definition end_overlaps (a b : segment) : res bool :=
  if seg_empty a then Ok false else
  do bs <- start_position b; do as_ <- start_position a; do ae <- end_position a; do be <- end_position b;
  Ok (pv_le_any bs as_ || pv_le_any bs ae || pv_le_any ae be).

Definition resolve_pair (a b : segment) : res (segment * segment) :=
  if seg_empty a then Ok (a, b) else
  do ov <- end_overlaps a b;
  if negb ov then Ok (a, b) else
  do cs <- start_position b; do ce <- end_position a;
  do lsub <- slice a cs ce; do rsub <- slice b cs ce;
  let isref := speak rsub <? speak lsub in
  let ll := seg_labels isref lsub in let rl := seg_labels isref rsub in
  if Nat.eqb (length ll) (length rl) then
    let k := optimal_merge_index (map fst ll) (map fst rl) in
    if Nat.eqb k 0 then Ok (seg_sub a (positions lsub), b)
    else if Nat.eqb k (length ll) then Ok (a, seg_sub b (positions rsub))
    else
      let li := nth k (map snd ll) O in let ri := nth k (map snd rl) O in
      Ok (seg_sub a (skipn li (positions lsub)), seg_sub b (firstn ri (positions rsub)))
  else
    if sscore rsub <? sscore lsub then Ok (a, seg_sub b (positions rsub)) else Ok (seg_sub a (positions lsub), b).

(* ---------- factory (segments_factory.py) on scored positions ---------- *)
Definition get_segments (P : params) (ps : list spos) (peak : Z) : list segment :=
  match factory_ranges (MS P) (BS P) (map sc ps) with
  | [] => [seg_create [] peak]
  | rs => map (fun r => match r with (a, b, _) => seg_create (firstn (b - a) (skipn a ps)) peak end) rs
  end.

(* ---------- chainer (segment_chainer.py) ---------- *)
Definition segrev (s e : pv) : bool := site (pq e) <? site (pq s).
(* calcScore (segment_chainer.py:62-70); distances in tenths of bp (K): real value = x / K *)
Definition calc_score (ss rd qd : Z) : Q :=
  let s := rd + qd in let a := Z.abs rd + Z.abs qd in let d := rd - qd in
  if ss =? 0 then (inject_Z (s * s + d * d) / inject_Z (K * Z.max (Z.max (Z.abs s) (Z.abs d)) K))%Q
  else (inject_Z (a * a + d * d) / inject_Z (K * Z.max (a + Z.abs d) K))%Q.
Definition join_score (P : params) (prev cur_ : segment) : res (option Q) :=
  do ps <- start_position prev; do pe <- end_position prev; do cs <- start_position cur_; do ce <- end_position cur_;
  let qlen := Z.min (Z.abs (lpos (pq ce) - lpos (pq cs))) (Z.abs (lpos (pq pe) - lpos (pq ps))) in
  let rd := lpos (pr cs) - lpos (pr pe) in
  let rlen := Z.min (lpos (pr ce) - lpos (pr cs)) (lpos (pr pe) - lpos (pr ps)) in
  let qd := lpos (pq cs) - lpos (pq pe) in
  if Z.min (rlen + 2 * rd) (qlen + 2 * qd) <? 0 then Ok None
  else Ok (Some (Qred (- (SJ P) * calc_score (SS P) rd qd)%Q)).

Definition order_key (s : segment) : res Z :=
  do a <- start_position s; do e <- end_position s; Ok (lpos (pr a) + lpos (pr e) + lpos (pq a) + lpos (pq e)).

Definition Qltb (a b : Q) : bool := match Qcompare a b with Lt => true | _ => false end.

(* DP over the pre-ordered list; done : processed segments with (cum, prev index), in order *)
Fixpoint best_prev (P : params) (cur_ : segment) (done : list (segment * Q * option nat)) (j : nat) (best : Q) (bp : option nat) : res (Q * option nat) :=
  match done with
  | [] => Ok (best, bp)
  | (sj, cj, _) :: t =>
    do js <- join_score P sj cur_;
    match js with
    | None => best_prev P cur_ t (S j) best bp
    | Some x => let c := Qred (cj + x)%Q in if Qltb best c then best_prev P cur_ t (S j) c (Some j) else best_prev P cur_ t (S j) best bp
    end
  end.
Fixpoint dp (P : params) (todo : list segment) (done : list (segment * Q * option nat)) : res (list (segment * Q * option nat)) :=
  match todo with
  | [] => Ok done
  | s :: t => do bp <- best_prev P s done 0 0%Q None;
              dp P t (done ++ [(s, Qred (fst bp + inject_Z (sscore s))%Q, snd bp)])
  end.
Fixpoint best_index (l : list (segment * Q * option nat)) (i : nat) (best : Q) (bi : nat) : nat :=
  match l with [] => bi | (_, c, _) :: t => if Qltb best c then best_index t (S i) c i else best_index t (S i) best bi end.
Fixpoint backtrack (fuel : nat) (tbl : list (segment * Q * option nat)) (i : nat) (acc : list segment) : list segment :=
  match fuel with O => acc | S f =>
    match nth_error tbl i with
    | None => acc
    | Some (s, _, p) => match p with None => s :: acc | Some j => backtrack f tbl j (s :: acc) end
    end end.
(* sort with keys that may fail: compute keys first *)
Fixpoint keys (l : list segment) : res (list (Z * segment)) :=
  match l with [] => Ok [] | s :: t => do k <- order_key s; do r <- keys t; Ok ((k, s) :: r) end.
Definition chain (P : params) (segs : list segment) : res (list segment) :=
  let empties := filter seg_empty segs in
  do ks <- keys (filter (fun s => negb (seg_empty s)) segs);
  let pre := map snd (sort_by fst ks) in
  match pre with
  | [] => Ok empties
  | s0 :: _ =>
    do tbl <- dp P pre [];
    let c0 := match tbl with (_, c, _) :: _ => c | [] => 0%Q end in
    let b := best_index tbl 0 c0 0 in
    Ok (backtrack (length tbl) tbl b [] ++ empties)
  end.

(* ---------- resolver (segment_with_resolved_conflicts.py) ---------- *)
Fixpoint set_nth {A} (l : list A) (i : nat) (x : A) : list A :=
  match l, i with [], _ => [] | _ :: t, O => x :: t | y :: t, S k => y :: set_nth t k x end.
Definition has_pairs (s : segment) : bool := match aligned s with [] => false | _ => true end.
(* repaired __pairAndResolveConflicts: `resolved` is a stack (top first) of indexes of members that still have pairs *)
Fixpoint retry (fuel : nat) (l : list segment) (stack : list nat) (i1 : nat) : res (list segment * list nat) :=
  match fuel with O => Ok (l, stack) | S f =>
    match stack, nth_error l i1 with
    | i0 :: rest, Some b =>
      if has_pairs b then
        match nth_error l i0 with
        | Some a => do ab <- resolve_pair a b;
                    let l' := set_nth (set_nth l i0 (fst ab)) i1 (snd ab) in
                    if has_pairs (fst ab) then Ok (l', stack) else retry f l' rest i1
        | None => Err
        end
      else Ok (l, stack)
    | _, _ => Ok (l, stack)
    end end.
Fixpoint resolve_loop (n : nat) (i1 : nat) (l : list segment) (stack : list nat) : res (list segment) :=
  match n with O => Ok l | S m =>
    do r <- retry (S (length stack)) l stack i1;
    let l' := fst r in
    let stack' := match nth_error l' i1 with Some b => if has_pairs b then i1 :: snd r else snd r | None => snd r end in
    resolve_loop m (S i1) l' stack'
  end.
Definition resolve_conflicts (P : params) (segs : list segment) : res (list segment) :=
  if (length segs <? 2)%nat then Ok segs else
  do ch <- chain P segs; resolve_loop (length ch) 0 ch [].

(* ---------- Aligner.align (aligner.py:91-111) ---------- *)
Definition get_segments_for_peak (P : params) (it : Z) (reference query : omap) (peak : Z) (reverse : bool) : list segment :=
  let ps := align_engine (DMAX P) it reference query peak (peak + mlen query) reverse in
  get_segments P (map (score_pos P) ps) peak.
Fixpoint segs_for_peaks (P : params) (it : Z) (reference query : omap) (peaks : list Z) (reverse : bool) : list segment :=
  match peaks with [] => [] | p :: t => get_segments_for_peak P it reference query p reverse ++ segs_for_peaks P (it + 1) reference query t reverse end.
Definition aligner_align (P : params) (it : Z) (reference query : omap) (peaks : list Z) (reverse : bool) : res (list segment) :=
  resolve_conflicts P (segs_for_peaks P it reference query peaks reverse).

From Coq Require Import ZArith List Bool Lia.
Import ListNotations.
Open Scope Z_scope.
Definition lsum (l : list Z) : Z := fold_right Z.add 0 l.
Definition psum (l : list Z) (a b : nat) : Z := lsum (firstn (b - a) (skipn a l)).

Lemma lsum_app l1 l2 : lsum (l1 ++ l2) = lsum l1 + lsum l2.
Proof. induction l1 as [|x t IH]; cbn [app lsum fold_right]; [unfold lsum; lia|]. unfold lsum in *. cbn [fold_right]. rewrite IH. lia. Qed.
Lemma skipn_skipn' {A} (x y : nat) (l : list A) : skipn x (skipn y l) = skipn (x + y) l.
Proof. revert l; induction y as [|y IH]; intros l; [rewrite Nat.add_0_r; reflexivity|].
  rewrite Nat.add_succ_r. destruct l; [rewrite !skipn_nil; reflexivity|]. cbn [skipn]. apply IH. Qed.
Lemma psum_same l a : psum l a a = 0.
Proof. unfold psum. rewrite Nat.sub_diag. reflexivity. Qed.
Lemma psum_app_l p r a b : (b <= length p)%nat -> psum (p ++ r) a b = psum p a b.
Proof. intros H. unfold psum. destruct (Nat.le_gt_cases a (length p)) as [Ha|Ha].
  - rewrite skipn_app. replace (a - length p)%nat with O by lia. cbn [skipn]. rewrite firstn_app.
    rewrite skipn_length. replace (b - a - (length p - a))%nat with O by lia. cbn. rewrite app_nil_r. reflexivity.
  - replace (b - a)%nat with O by lia. reflexivity. Qed.
Lemma psum_split l a b c : (a <= b <= c)%nat -> psum l a c = psum l a b + psum l b c.
Proof. intros H. unfold psum. replace (c - a)%nat with ((b - a) + (c - b))%nat by lia.
  rewrite <- (firstn_skipn (b - a) (firstn (b - a + (c - b)) (skipn a l))), lsum_app.
  rewrite firstn_firstn. replace (Nat.min (b - a) (b - a + (c - b))) with (b - a)%nat by lia. f_equal.
  rewrite skipn_firstn_comm. replace (b - a + (c - b) - (b - a))%nat with (c - b)%nat by lia.
  rewrite skipn_skipn'. replace (b - a + a)%nat with b by lia. reflexivity. Qed.
Lemma psum_one p x : psum (p ++ [x]) (length p) (S (length p)) = x.
Proof. unfold psum. rewrite skipn_app, skipn_all, Nat.sub_diag. replace (S (length p) - length p)%nat with 1%nat by lia. cbn. lia. Qed.
Lemma psum_snoc p x a : (a <= length p)%nat -> psum (p ++ [x]) a (S (length p)) = psum p a (length p) + x.
Proof. intros H. rewrite (psum_split _ a (length p) (S (length p))) by lia. rewrite psum_app_l by lia. rewrite psum_one. reflexivity. Qed.

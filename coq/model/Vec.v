From Coq Require Import ZArith List Bool Lia.
Import ListNotations.
Open Scope Z_scope.

(* vectorise.py:vectorisePositions.  positions / start / end / resolution in the same integer unit.
   state: window_start ws (window_end = ws + res); the generator either continues (Some ws') or returns (None). *)
Fixpoint zeros (fuel : nat) (res stop p ws : Z) (acc : list Z) : list Z * option Z :=
  match fuel with
  | O => (acc, Some ws)
  | S f => if ws + res <=? p
           then let ws' := ws + res in
                if stop <? ws' then (acc ++ [0], None) else zeros f res stop p ws' (acc ++ [0])
           else (acc, Some ws)
  end.
Fixpoint vec_loop (res stop : Z) (ps : list Z) (ws : Z) (acc : list Z) : list Z :=
  match ps with
  | [] => acc
  | p :: t =>
    if p <? ws then vec_loop res stop t ws acc
    else match zeros (Z.to_nat (p - ws)) res stop p ws acc with
         | (acc', None) => acc'
         | (acc', Some ws') => vec_loop res stop t (ws' + res) (acc' ++ [1])
         end
  end.
(* end = end or positions[-1] : None or 0 means "last position" *)
Definition vectorise (ps : list Z) (res start : Z) (stop : option Z) : list Z :=
  let e := match stop with Some e => if e =? 0 then last ps 0 else e | None => last ps 0 end in
  vec_loop res e ps start [].

(* blur: shifted copies, zip_longest with 0, any, cut to len(vector) *)
Definition column (vs : list (list Z)) (i : nat) : list Z := map (fun v => nth i v 0) vs.
Definition any_set (c : list Z) : bool := existsb (fun b => negb (b =? 0)) c.
Fixpoint shifted (v : list Z) (r : nat) : list (list Z) :=   (* for shift = 1..r, in the code's order *)
  match r with O => [] | S k => shifted v k ++ [skipn (S k) v; repeat 0 (S k) ++ v] end.
Definition blur (v : list Z) (r : nat) : list Z :=
  let vs := v :: shifted v r in
  firstn (length v) (map (fun i => if any_set (column vs i) then 1 else 0) (seq 0 (length v + r))).

(* toRelativeGenomicPositions: k*res + ceil(res/2) - 1 + start *)
Definition bin_to_bp (k res start : Z) : Z := k * res + ((res + 1) / 2 - 1 + start).

From Coq Require Import List Bool Lia Arith.
Import ListNotations.

(* Generic model of SegmentChainer.chain's dynamic programme (segment_chainer.py:22-40) over an
   abstract totally pre-ordered score type with an addition that is monotone in its first argument. *)
Section DP.
Variables (S seg : Type).
Variables (le : S -> S -> Prop) (ltb : S -> S -> bool) (add : S -> S -> S) (zero : S).
Variables (score : seg -> S) (js : seg -> seg -> option S).
Hypothesis le_refl : forall a, le a a.
Hypothesis le_trans : forall a b c, le a b -> le b c -> le a c.
Hypothesis ltb_true : forall a b, ltb a b = true -> le a b.
Hypothesis ltb_false : forall a b, ltb a b = false -> le b a.
Hypothesis add_mono : forall a b c, le a b -> le (add a c) (add b c).

Definition entry := (seg * S * option nat)%type.
Definition e_seg (e : entry) := fst (fst e).
Definition e_cum (e : entry) := snd (fst e).
Definition e_prev (e : entry) := snd e.

Fixpoint best_prev (cur : seg) (done : list entry) (j : nat) (best : S) (bp : option nat) : S * option nat :=
  match done with
  | [] => (best, bp)
  | e :: t =>
    match js (e_seg e) cur with
    | None => best_prev cur t (Datatypes.S j) best bp
    | Some x => let c := add (e_cum e) x in
                if ltb best c then best_prev cur t (Datatypes.S j) c (Some j) else best_prev cur t (Datatypes.S j) best bp
    end
  end.
Fixpoint dp (todo : list seg) (done : list entry) : list entry :=
  match todo with
  | [] => done
  | s :: t => let bp := best_prev s done 0 zero None in dp t (done ++ [(s, add (fst bp) (score s), snd bp)])
  end.
Fixpoint best_index (l : list entry) (i : nat) (best : S) (bi : nat) : nat :=
  match l with [] => bi | e :: t => if ltb best (e_cum e) then best_index t (Datatypes.S i) (e_cum e) i else best_index t (Datatypes.S i) best bi end.
Fixpoint backtrack (fuel : nat) (tbl : list entry) (i : nat) (acc : list seg) : list seg :=
  match fuel with O => acc | Datatypes.S f =>
    match nth_error tbl i with
    | None => acc
    | Some e => match e_prev e with None => e_seg e :: acc | Some j => backtrack f tbl j (e_seg e :: acc) end
    end end.
Definition chain_nonempty (pre : list seg) : list seg :=
  let tbl := dp pre [] in
  match tbl with
  | [] => []
  | e0 :: _ => backtrack (length tbl) tbl (best_index tbl 0 (e_cum e0) 0) []
  end.

(* total of a chain, accumulated exactly as the code does: (((0 + s1) + j12) + s2) + ... *)
Fixpoint total_from (acc : S) (last : seg) (rest : list seg) : option S :=
  match rest with
  | [] => Some acc
  | s :: r => match js last s with None => None | Some x => total_from (add (add acc x) (score s)) s r end
  end.
Definition total (c : list seg) : option S :=
  match c with [] => None | s :: r => total_from (add zero (score s)) s r end.
End DP.

(* Python library semantics used by the transliteration *)
From Coq Require Import ZArith List Bool Lia.
Import ListNotations.
Open Scope Z_scope.

(* exceptions are values: a Python call either returns or raises *)
Inductive res (A : Type) := Ok (a : A) | Err.
Arguments Ok {A}. Arguments Err {A}.
Definition bind {A B} (x : res A) (f : A -> res B) : res B := match x with Ok a => f a | Err => Err end.
Notation "'do' x <- e ; f" := (bind e (fun x => f)) (at level 200, x pattern, e at level 100, f at level 200).

Section Lists.
Context {A : Type}.
Fixpoint takewhile (p : A -> bool) (l : list A) : list A :=
  match l with [] => [] | x :: t => if p x then x :: takewhile p t else [] end.
Fixpoint dropwhile (p : A -> bool) (l : list A) : list A :=
  match l with [] => [] | x :: t => if p x then dropwhile p t else l end.

(* sorted(l, key=k): stable, ascending on Z keys *)
Fixpoint insert_by (k : A -> Z) (x : A) (l : list A) : list A :=
  match l with
  | [] => [x]
  | y :: t => if k x <=? k y then x :: l else y :: insert_by k x t   (* x precedes equal keys: stable with fold_right *)
  end.
Definition sort_by (k : A -> Z) (l : list A) : list A := fold_right (insert_by k) [] l.

(* itertools.groupby(l, key): maximal runs of adjacent equal keys *)
Fixpoint groupby (k : A -> Z) (l : list A) : list (list A) :=
  match l with
  | [] => []
  | x :: t =>
    match groupby k t with
    | [] => [[x]]
    | g :: gs => match g with
                 | [] => [x] :: gs
                 | y :: _ => if k x =? k y then (x :: g) :: gs else [x] :: g :: gs
                 end
    end
  end.

(* min(l, key=k): first minimum; l non-empty *)
Fixpoint min_by_aux (k : A -> Z) (best : A) (l : list A) : A :=
  match l with [] => best | x :: t => if k x <? k best then min_by_aux k x t else min_by_aux k best t end.
Definition min_by (k : A -> Z) (d : A) (l : list A) : A := match l with [] => d | x :: t => min_by_aux k x t end.
End Lists.

From Coq Require Import ZArith List Bool Lia.
Import ListNotations.
Require Import Py.
Open Scope Z_scope.

Record label := mkLabel { site : Z; lpos : Z }.
Record omap := mkMap { mid : Z; mlen : Z; mpositions : list Z; mshift : Z }.

(* OpticalMap.getPositionsWithSiteIds (optical_map.py:45-56); lengths/positions in tenths of bp, K = 10 *)
Definition K := 10.
Fixpoint number_up (i : Z) (l : list Z) : list label :=
  match l with [] => [] | p :: t => mkLabel i p :: number_up (i + 1) t end.
Fixpoint number_down (i : Z) (e : Z) (l : list Z) : list label :=
  match l with [] => [] | p :: t => mkLabel i (e - p) :: number_down (i - 1) e t end.
Definition positions_with_ids (m : omap) (reverse : bool) : list label :=
  if reverse then number_down (Z.of_nat (length (mpositions m)) + mshift m) (mlen m - K) (rev (mpositions m))
  else number_up (1 + mshift m) (mpositions m).

(* alignment positions before scoring *)
Inductive apos :=
| Pair (r q : label) (shift : Z) (source : Z)
| URef (r : label)
| UQry (q : label) (refStart : Z).

Definition abs_pos (p : apos) : Z :=
  match p with Pair r _ _ _ => lpos r | URef r => lpos r | UQry q s => lpos q + s end.

Record cand := mkCand { cr : label; cq : label; cshift : Z }.

(* AlignerEngine.__getAlignedPairs (aligner.py:53-64) *)
Definition aligned_pairs (d : Z) (refs qrys : list label) (start : Z) : list cand :=
  flat_map (fun r =>
    let adj := lpos r - start in
    let within := takewhile (fun q => lpos q <=? adj + d) (dropwhile (fun q => lpos q <? adj - d) qrys) in
    map (fun q => mkCand r q (lpos q - adj)) within) refs.

(* AlignedPair.deduplicate (alignment_position.py:113-123) *)
Definition dedup_by (key : cand -> Z) (l : list cand) : list cand :=
  map (fun g => match g with [] => mkCand (mkLabel 0 0) (mkLabel 0 0) 0 | x :: _ => min_by (fun c => Z.abs (cshift c)) x g end)
      (groupby key (sort_by key l)).
Definition deduplicate (l : list cand) : list cand :=
  dedup_by (fun c => site (cr c)) (dedup_by (fun c => site (cq c)) l).

Definition mem_site (s : Z) (l : list Z) : bool := existsb (Z.eqb s) l.

(* AlignerEngine.align (aligner.py:36-45) *)
Definition align_engine (d : Z) (iteration : Z) (reference query : omap) (start stop : Z) (reverse : bool) : list apos :=
  let refs := takewhile (fun x => lpos x <=? stop + d) (dropwhile (fun x => lpos x <? start - d) (positions_with_ids reference false)) in
  let qrys := positions_with_ids query reverse in
  let pairs := deduplicate (aligned_pairs d refs qrys start) in
  let rs := map (fun c => site (cr c)) pairs in
  let qs := map (fun c => site (cq c)) pairs in
  let una := map URef (filter (fun r => negb (mem_site (site r) rs)) refs)
          ++ map (fun q => UQry q start) (filter (fun q => negb (mem_site (site q) qs)) qrys) in
  sort_by abs_pos (map (fun c => Pair (cr c) (cq c) (cshift c) iteration) pairs ++ una).

From Coq Require Import ZArith QArith List Bool Lia.
Import ListNotations.
Require Import Py Indels.
Open Scope Z_scope.
(* sv/molecule_indels.py and sv/segment_indels.py: look_for_indels_in_breakage;  sv/write_indel_files.py: write_indel_file.
   Unit: label positions are integers (base pairs), the thresholds 100 / 2000 / 100000 are in the same unit.
   Type strings: "insertion" = T_INS, "deletion" = T_DEL.  Chromosome = referenceId (an int in the code). *)
Definition T_INS : Z := 0.
Definition T_DEL : Z := 1.

(* ---- the call builders: the body of the innermost block, as a function of the four flanking label positions ---- *)
(* molecule_indels.py:146-155 *)
Definition mol_call (rid qid r_s r_e q_s q_e : Z) : option call :=
  let diff := Z.abs (r_s - r_e) - Z.abs (q_s - q_e) in
  if (Z.abs diff >? 2000) && (Z.abs diff <? 100000) then
    if diff <? -2000 then Some (mkCall T_INS rid r_s r_e qid q_s q_e (inject_Z diff))
    else Some (mkCall T_DEL rid r_s r_e qid q_s q_e (inject_Z diff))
  else None.
(* segment_indels.py:192-201 *)
Definition seg_call (rid qid r_s r_e q_s q_e : Z) : option call :=
  let diff := Z.abs (r_s - r_e) - Z.abs (q_s - q_e) in
  if (Z.abs diff >? 100) && (Z.abs diff <? 100000) then
    if diff <? -100 then Some (mkCall T_INS rid r_s r_e qid q_s q_e (inject_Z diff))
    else Some (mkCall T_DEL rid r_s r_e qid q_s q_e (inject_Z diff))
  else None.

(* ---- the loops around them ---- *)
(* l[i] with Python's negative indices; Err = IndexError *)
Definition py_nth {A} (l : list A) (i : Z) : res A :=
  let n := Z.of_nat (length l) in
  let j := if i <? 0 then i + n else i in
  if (0 <=? j) && (j <? n) then match nth_error l (Z.to_nat j) with Some x => Ok x | None => Err end else Err.
(* d[k]; Err = KeyError.  A dict is an association list with distinct keys *)
Fixpoint lookup {V} (k : Z) (d : list (Z * V)) : option V :=
  match d with [] => None | (k', v) :: t => if k =? k' then Some v else lookup k t end.
Definition getitem {V} (k : Z) (d : list (Z * V)) : res V := match lookup k d with Some v => Ok v | None => Err end.

(* an alignment: queryId, referenceId, alignedPairs as (reference.siteId, query.siteId) *)
Record aln := mkAln { a_qid : Z; a_rid : Z; a_pairs : list (Z * Z) }.
(* the dict {"insertion": [...], "deletion": [...]} as a pair; a call goes to the list named by its type *)
Notation indels := (list call * list call)%type.
Definition push (d : indels) (o : option call) : indels :=
  match o with
  | None => d
  | Some c => if ctyp c =? T_INS then (fst d ++ [c], snd d) else (fst d, snd d ++ [c])
  end.

(* molecule_indels.look_for_indels_in_breakage.  alns = the alignments of alignment_dict.values() in order;
   breakage_dict[q_id] = [index, pair]: the first label pair comes from the STORED pair, the second from alignedPairs[index + 1] *)
Definition look_mol (alns : list aln) (r_dict q_dict : list (Z * list Z)) (b_dict : list (Z * (Z * (Z * Z)))) : res indels :=
  fold_left (fun acc a =>
    do d <- acc;
    do bp <- getitem (a_qid a) b_dict;
    do next_pair <- py_nth (a_pairs a) (fst bp + 1);
    do rpos <- getitem (a_rid a) r_dict;
    do r_s <- py_nth rpos (fst (snd bp) - 1);
    do qpos <- getitem (a_qid a) q_dict;
    do q_s <- py_nth qpos (snd (snd bp) - 1);
    do r_e <- py_nth rpos (fst next_pair - 1);
    do q_e <- py_nth qpos (snd next_pair - 1);
    Ok (push d (mol_call (a_rid a) (a_qid a) r_s r_e q_s q_e))) alns (Ok ([], [])).

(* segment_indels.look_for_indels_in_breakage.  breakage_dict[q_id] = [[index, pair], ...]: only the indices are used,
   both label pairs come from alignedPairs (index and index + 1); molecules without an entry and indices at the last pair are skipped *)
Definition look_seg (alns : list aln) (r_dict q_dict : list (Z * list Z)) (b_dict : list (Z * list Z)) : res indels :=
  fold_left (fun acc a =>
    do d <- acc;
    match lookup (a_qid a) b_dict with
    | None => Ok d
    | Some places =>
      fold_left (fun acc' i =>
        do d' <- acc';
        if Z.of_nat (length (a_pairs a)) >? i + 1 then
          do next_pair <- py_nth (a_pairs a) (i + 1);
          do breakage_pair <- py_nth (a_pairs a) i;
          do rpos <- getitem (a_rid a) r_dict;
          do r_s <- py_nth rpos (fst breakage_pair - 1);
          do qpos <- getitem (a_qid a) q_dict;
          do q_s <- py_nth qpos (snd breakage_pair - 1);
          do r_e <- py_nth rpos (fst next_pair - 1);
          do q_e <- py_nth qpos (snd next_pair - 1);
          Ok (push d' (seg_call (a_rid a) (a_qid a) r_s r_e q_s q_e))
        else Ok d') places (Ok d)
    end) alns (Ok ([], [])).

(* ---- write_indel_file ---- *)
(* sorted(l, key=operator.itemgetter(1, 3)): stable sort on the pair (Chromosome, RefStop) = stable by RefStop, then stable by Chromosome *)
Definition sort_calls (l : list call) : list call := sort_by cchr (sort_by cre l).
Definition sort_clusters (l : list cluster) : list cluster := sort_by lchr (sort_by lre l).
Definition BLUR : Z := 30000.   (* default argument of cluster_indels, the only value the writer uses *)
(* the lines written after the two header lines: values()[0] = insertions, values()[1] = deletions *)
Definition write_lines (d : indels) : list cluster :=
  let lines_sorted_del := sort_calls (snd d) in
  let lines_sorted_ins := sort_calls (fst d) in
  let lines_deletions_sorted := cluster_indels true BLUR lines_sorted_del in
  let lines_insertions_sorted := cluster_indels true BLUR lines_sorted_ins in
  sort_clusters (lines_deletions_sorted ++ lines_insertions_sorted).
(* run(): finder, then writer *)
Definition mol_file alns r_dict q_dict b_dict : res (list cluster) := do d <- look_mol alns r_dict q_dict b_dict; Ok (write_lines d).
Definition seg_file alns r_dict q_dict b_dict : res (list cluster) := do d <- look_seg alns r_dict q_dict b_dict; Ok (write_lines d).

(* From an AlignmentResultRow to the values XmapReader.writeAlignments prints (src/parsers/xmap_reader.py:57-72), and the two places of
   src/program.py / src/multi_pass_workflow_coordinator.py that decide which maps and which flag a row carries.
   Executable transliteration, no proofs.

   writeAlignments builds one dict per row:
       "QryContigID": row.queryId                      "RefContigID": row.referenceId
       "QryStartPos": "{:.1f}".format(row.queryStartPosition)      "QryEndPos": ... row.queryEndPosition
       "RefStartPos": ... row.referenceStartPosition               "RefEndPos": ... row.referenceEndPosition
       "Orientation": row.orientation                  ("-" if reverseStrand else "+", benchmark_alignment.py)
       "Confidence": "{:.2f}".format(row.confidence)   "HitEnum": row.cigarString
       "QryLen": "{:.1f}".format(row.queryLength)      "RefLen": "{:.1f}".format(row.referenceLength)
       "AlignedRest": "{}".format(row.alignedRest)     "LabelChannel": 1
       "Alignment": "".join(f"({pair.reference.siteId},{pair.query.siteId})" for pair in row.alignedPairs)
   with index RangeIndex(1 .. n) (printed first: XmapEntryID).  Xmap.xrow is that dict; Xmap.write_row prints it.

   Units: Multi.row carries coordinates and lengths in tenths of a base pair (what Xmap.xrow expects) and the confidence in
   units of 1/20 (model/Core.v); Xmap.xrow wants hundredths, hence the factor 5 (exact: 1/20 = 5/100). *)
From Coq Require Import ZArith List Bool.
Import ListNotations.
Require Import Py Pairing Core Multi Cigar Cmap Xmap.
Open Scope Z_scope.

(* row.alignedPairs as (reference.siteId, query.siteId), in segment order *)
Definition site_pairs (segs : list segment) : list (Z * Z) :=
  map (fun p => (site (pr (pv_of p)), site (pq (pv_of p)))) (row_pairs segs).

(* which attribute goes to which column; `runs` is the run list whose rendering is row.cigarString (model/Cigar.v) *)
Definition xrow_of_row (w : Multi.row) (runs : list (nat * op)) : xrow :=
  {| x_qid := qid w; x_rid := Multi.rid w;
     x_qstart := qs w; x_qend := qe w; x_rstart := rs w; x_rend := re w;
     x_rev := rrev w;
     x_conf := 5 * conf w;
     x_runs := runs;
     x_qlen := qlen w; x_rlen := rlen w;
     x_rest := rest w;
     x_pairs := site_pairs (rsegs w) |}.
(* the same with cigarString computed (Err = the exception cigarString raises) *)
Definition xrow_of (w : Multi.row) : res xrow :=
  do runs <- cigar_runs (site_pairs (rsegs w)); Ok (xrow_of_row w runs).

(* AlignmentResultRow.setAlignedRest *)
Definition set_aligned_rest (w : Multi.row) (b : bool) : Multi.row :=
  mkRow (rsegs w) (qid w) (Multi.rid w) (qlen w) (rlen w) (qs w) (qe w) (rs w) (re w) (rrev w) (conf w) b.

(* Program.__readMaps (program.py:54-60): references as read, queries trimmed after reading *)
Definition program_maps (refs qrys : list Pairing.omap) : list Pairing.omap * list Pairing.omap := (refs, map trim qrys).

(* Aligner.align (aligner.py:91-104): the row of one candidate takes ids and lengths from the two maps it was given *)
Definition align_row (segs : list segment) (reference query : Pairing.omap) (reverse : bool) : Multi.row :=
  row_create segs (mid query) (mid reference) (mlen query) (mlen reference) reverse.

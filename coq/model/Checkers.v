(* executable deciders of the property statements, evaluated inside Coq on the implementation's outputs
   (their soundness and completeness against the Prop statements is proved in proofs/CheckersProofs.v) *)
From Coq Require Import ZArith List Bool.
Import ListNotations.
Open Scope Z_scope.
Notation pair := (Z * Z)%type.

(* C01: a record's pair list is a one-to-one collinear matching of existing labels *)
Definition in_rangeb (nref qlo qhi : Z) (p : pair) : bool :=
  (1 <=? fst p) && (fst p <=? nref) && (qlo <=? snd p) && (snd p <=? qhi).
Fixpoint mono_fromb (dir : Z) (p : pair) (ps : list pair) : bool :=
  match ps with [] => true | p' :: r => (fst p <? fst p') && (0 <? dir * (snd p' - snd p)) && mono_fromb dir p' r end.
Definition valid_rowb (nref qlo qhi : Z) (rev : bool) (ps : list pair) : bool :=
  match ps with
  | [] => false
  | p :: r => forallb (in_rangeb nref qlo qhi) ps && mono_fromb (if rev then -1 else 1) p r
  end.

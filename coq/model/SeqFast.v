(* Faster evaluation of the vectors and correlations of Correlate.v, for vm_compute on whole maps in the tenth-of-a-bp unit.
   Nothing new is modelled here: proofs/SeqFastProofs.v proves  vectorise_f = vectorise,  blur_f = blur,  get_sequence_py_f =
   get_sequence_py,  initial_correlation_f = initial_correlation,  refine_correlation_f = refine_correlation  (for every input).

   vectorise: Vec.vec_loop gives the inner `while position >= window_end` loop the fuel Z.to_nat (p - ws) (a unary number of the size of
   the gap between two labels, 10^5..10^6 in tenths of a bp); (p - ws) / res + 1 iterations suffice.
   blur: Vec.blur follows the code (2r+1 shifted copies, zip_longest, any) with list lookups by index, quadratic in the vector length;
   blur_f slides a window of 2r+1 entries over the vector padded with r zeros on the left. *)
From Coq Require Import ZArith QArith List Bool.
Import ListNotations.
Require Import Py Vec Peaks Correlate.
Open Scope Z_scope.

Fixpoint vec_loop_f (res stop : Z) (ps : list Z) (ws : Z) (acc : list Z) : list Z :=
  match ps with
  | [] => acc
  | p :: t =>
    if p <? ws then vec_loop_f res stop t ws acc
    else match zeros (Z.to_nat ((p - ws) / res + 1)) res stop p ws acc with
         | (acc', None) => acc'
         | (acc', Some ws') => vec_loop_f res stop t (ws' + res) (acc' ++ [1])
         end
  end.
Definition vectorise_f (ps : list Z) (res start : Z) (stop : option Z) : list Z :=
  let e := match stop with Some e => if e =? 0 then last ps 0 else e | None => last ps 0 end in
  vec_loop_f res e ps start [].

Fixpoint slide (w n : nat) (l : list Z) : list Z :=
  match n with
  | O => []
  | S m => (if any_set (firstn w l) then 1 else 0) :: slide w m (tl l)
  end.
Definition blur_f (v : list Z) (r : nat) : list Z := slide (r + r + 1) (length v) (repeat 0 r ++ v).

Definition vectorise_py_f (ps : list Z) (res start : Z) (stop : option Z) : Py.res (list Z) :=
  if res <? 1 then Err
  else match ps, (match stop with Some e => e =? 0 | None => true end) with
       | [], true => Err
       | _, _ => Ok (vectorise_f ps res start stop)
       end.
Definition blur_py_f (v : list Z) (r : Z) : Py.res (list Z) := if r <? 0 then Err else Ok (blur_f v (Z.to_nat r)).
Definition get_sequence_py_f (ps : list Z) (res r : Z) (reverse : bool) (start : Z) (stop : option Z) : Py.res (list Z) :=
  do v <- vectorise_py_f ps res start stop;
  do s <- blur_py_f v r;
  Ok (if reverse then rev s else s).

Definition initial_correlation_f (qlen : Z) (qps : list Z) (rlen : Z) (rps : list Z) (res r : Z) (reverse : bool)
  : Py.res (option (list Z * list Z)) :=
  if rlen <? qlen then Ok None else
  do s <- get_sequence_py_f qps res r reverse 0 None;
  do rs <- get_sequence_py_f rps res r false 0 None;
  do c <- correlate_valid rs s;
  do w <- correlate_valid rs (repeat 1 (length s));
  Ok (Some (c, map (fun x => x + vsum s) w)).

Definition refine_correlation_f (qlen : Z) (qps rps : list Z) (reverse : bool) (peak res r margin : Z) : Py.res (Z * Z * list Z) :=
  do qs <- get_sequence_py_f qps res r reverse 0 None;
  let rstart := peak - margin in
  let rend := peak + qlen + margin in
  do rs <- get_sequence_py_f rps res r false rstart (Some rend);
  do c <- match rs with [] => Ok [] | _ :: _ => correlate_valid rs qs end;
  let e := rstart + Z.of_nat (length c) * res in
  Ok (rstart, (if e =? 0 then Z.of_nat (length c) - 1 else e), c).

(* Seeds: peaks_selector.py:PeaksSelector.selectPeaks and optical_map.py:CorrelationResult.createPeaks, plus the
   exception behaviour of vectorise.py (the pure parts are in Vec.v).
   Units: positions Z in base pairs (the code's ints); heights / noise levels / scores are Z in one arbitrary fixed unit
   (the harness generates integer-valued floats, for which `height - noiseLevel` and the comparisons are exact).
   A peak keeps the three fields that matter for selection; leftProminenceBasePosition / rightProminenceBasePosition are
   carried through by the code unchanged and never looked at by createPeaks' cut or by selectPeaks. *)
From Coq Require Import ZArith List Bool.
Import ListNotations.
Require Import Py Vec.
Open Scope Z_scope.

Record peak := mkPeak { ppos : Z; pheight : Z; pscore : Z }.

(* sorted(peaks, key=score, reverse=True): stable, descending  ==  stable ascending sort on the key -score *)
Definition by_score_desc (l : list peak) : list peak := sort_by (fun p => - pscore p) l.

(* peaks = (SelectedPeak(c, p) for c in correlations for p in c.peaks);  sorted(...)[0:count] *)
Definition select_peaks (count : nat) (ls : list (list peak)) : list peak := firstn count (by_score_desc (concat ls)).

(* l[0:count] for an arbitrary Python int: a negative count counts from the end *)
Definition slice0 {A} (count : Z) (l : list A) : list A :=
  if count <? 0 then firstn (length l - Z.to_nat (- count)) l else firstn (Z.to_nat count) l.
Definition select_peaks_z (count : Z) (ls : list (list peak)) : list peak := slice0 count (by_score_desc (concat ls)).

(* createPeaks(peakPositions, peakProperties, resolution, correlationStart, noiseLevel, peaksCount), peaksCount >= 0.
   found = zip(peakPositions, peak_heights) as (bin index, height).
   np.argpartition(-heights, peaksCount)[:peaksCount] is NOT modelled: it is the argument `cut` (what numpy guarantees about
   it is a hypothesis of the theorems: some arrangement of peaksCount entries, none lower than an entry left out). *)
Definition mk_peak (res start noise : Z) (kh : Z * Z) : peak :=
  mkPeak (bin_to_bp (fst kh) res start) (snd kh) (snd kh - noise).
Definition create_peaks (cut : nat -> list (Z * Z) -> list (Z * Z)) (res start noise : Z) (count : nat) (found : list (Z * Z)) : list peak :=
  let best := if (count <? length found)%nat then cut count found else found in
  map (mk_peak res start noise) best.

(* exceptions of vectorisePositions / blur as list(...) sees them (resolution, radius are ints):
   ValueError for resolution < 1; `end or positions[-1]` raises IndexError when end is None/0 and there is no label;
   ValueError for radius < 0 *)
Definition vectorise_py (ps : list Z) (res start : Z) (stop : option Z) : Py.res (list Z) :=
  if res <? 1 then Err
  else match ps, (match stop with Some e => e =? 0 | None => true end) with
       | [], true => Err
       | _, _ => Ok (vectorise ps res start stop)
       end.
Definition blur_py (v : list Z) (r : Z) : Py.res (list Z) := if r <? 0 then Err else Ok (blur v (Z.to_nat r)).

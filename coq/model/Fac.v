From Coq Require Import ZArith List Bool Lia.
Import ListNotations.
Open Scope Z_scope.
Record fst_ := mkF { cstart : nat; cend : nat; ext : Z; cur : option (nat * nat * Z); fres : list (nat * nat * Z) }.
Definition cur_score (s : fst_) : Z := match cur s with None => 0 | Some (_, _, x) => x end.
Definition add_if_enough (ms : Z) (s : fst_) : fst_ :=
  if ms <=? cur_score s then match cur s with Some c => mkF (cstart s) (cend s) (ext s) None (fres s ++ [c]) | None => s end else s.
Definition fstep (ms bs : Z) (s : fst_) (x : Z) : fst_ :=
  let e := ext s + x in
  if e <=? Z.max 0 (cur_score s - bs) then
    let s1 := add_if_enough ms s in mkF (S (cend s)) (S (cend s)) 0 (cur s1) (fres s1)
  else let en := S (cend s) in
    if cur_score s <? e then mkF (cstart s) en e (Some (cstart s, en, e)) (fres s) else mkF (cstart s) en e (cur s) (fres s).
Definition finit := mkF 0 0 0 None [].
Definition frun (ms bs : Z) (l : list Z) : fst_ := fold_left (fstep ms bs) l finit.
Definition factory_ranges (ms bs : Z) (scores : list Z) : list (nat * nat * Z) := fres (add_if_enough ms (frun ms bs scores)).

From Coq Require Import ZArith QArith List Bool Lia.
Import ListNotations.
Open Scope Z_scope.
(* sv/write_indel_files.py:cluster_indels.  A call line: [Type, Chromosome, RefStart, RefStop, QueryId, QueryStart, QueryStop, Length];
   a cluster additionally has Count and the comma-joined query ids (kept as a list). *)
Record call := mkCall { ctyp : Z; cchr : Z; crs : Z; cre : Z; cq : Z; cqs : Z; cqe : Z; clen : Q }.
Record cluster := mkCl { ltyp : Z; lchr : Z; lrs : Z; lre : Z; lids : list Z; lqs : Z; lqe : Z; llen : Q; lcount : Z }.
Definition new_cluster (c : call) : cluster := mkCl (ctyp c) (cchr c) (crs c) (cre c) [cq c] (cqs c) (cqe c) (clen c) 1.
Definition merge (l : cluster) (c : call) : cluster :=
  mkCl (ltyp l) (lchr l) (Z.min (lrs l) (crs c)) (Z.max (lre l) (cre c)) (lids l ++ [cq c]) (lqs l) (lqe l) (Qred ((llen l + clen c) / 2)) (lcount l + 1).
Definition same_kind (l : cluster) (c : call) : bool := (ltyp l =? ctyp c) && (lchr l =? cchr c).
(* state: finished clusters (in order) and the last cluster new_list[-1] *)
Definition step (fixed : bool) (blur : Z) (st : list cluster * cluster) (c : call) : list cluster * cluster :=
  let '(done, last) := st in
  if Z.abs (cre c - lre last) <=? blur then
    if same_kind last c then (done, merge last c)
    else if fixed then (done ++ [last], new_cluster c)     (* repaired code: else: new_list.append(line + [1]) *)
    else (done, last)                                      (* unchanged code: the line is dropped *)
  else (done ++ [last], new_cluster c).                    (* the second elif can never fire *)
Definition cluster_indels (fixed : bool) (blur : Z) (l : list call) : list cluster :=
  match l with
  | [] => []
  | c :: t => let '(done, last) := fold_left (step fixed blur) t ([], new_cluster c) in done ++ [last]
  end.

(* scipy.signal.find_peaks as COMA calls it (scipy 1.11: signal/_peak_finding.py find_peaks and the Cython helpers
   _peak_finding_utils.pyx _local_maxima_1d, _select_by_peak_distance, _peak_prominences).

   The functions are generic in the carrier A of the samples and a decidable total preorder `leb` (x <= y): floats without nan behave
   like that, and so do the two instances used: Z (the raw secondary correlation: integers) and Q (the normalised primary correlation:
   exact rationals, Qle_bool).  `ltb a b` is `not (b <= a)`, `eqb a b` is `a <= b and b <= a`.

   find_peaks applies its conditions in this order (the ones COMA uses):
     local maxima -> height -> distance -> prominences (computed whenever prominence or width is given) -> prominence condition -> widths.
   A peak is the pair (index, x[index]).  COMA passes width=(None, None): peak_widths is evaluated but with both borders None it removes
   nothing, and its results (left_ips/right_ips) only reach Peak.leftProminenceBasePosition/rightProminenceBasePosition, which nothing in
   the aligner reads: widths are NOT modelled.

   _select_by_peak_distance visits the peaks from the highest priority (height) to the lowest in the order given by np.argsort(priority).
   numpy's default argsort is not stable (on this machine: AVX-512 quicksort, unstable already for 5 elements), so the visiting order
   among peaks of EQUAL height is unspecified: `select_by_distance_ord` takes the argsort result as an argument (any permutation of the
   peak numbers along which the priorities do not decrease; the theorems hold for every such permutation), `select_by_distance` is the
   instance with the stable argsort.  The two differ only when two peaks of equal height are closer than the distance. *)
From Coq Require Import ZArith QArith List Bool.
Import ListNotations.
Require Import Py.
Open Scope nat_scope.

Section Generic.
Context {A : Type}.
Variable leb : A -> A -> bool.
Definition ltb (a b : A) : bool := negb (leb b a).
Definition eqb (a b : A) : bool := leb a b && leb b a.

(* ---- _local_maxima_1d ----
     i = 1; i_max = len(x) - 1
     while i < i_max:
         if x[i-1] < x[i]:
             i_ahead = i + 1
             while i_ahead < i_max and x[i_ahead] == x[i]: i_ahead += 1
             if x[i_ahead] < x[i]:
                 left_edge = i; right_edge = i_ahead - 1; midpoint = (left_edge + right_edge) // 2
                 i = i_ahead
         i += 1
   `ahead v l`: l = x[i_ahead:], the number of steps of the inner while loop (i_ahead < i_max  iff  l has at least two entries) *)
Fixpoint ahead (v : A) (l : list A) : nat :=
  match l with
  | a :: ((_ :: _) as t) => if eqb a v then S (ahead v t) else O
  | _ => O
  end.
(* prev = x[i-1], l = x[i:]; fuel >= len(l) *)
Fixpoint lm_loop (fuel : nat) (prev : A) (i : nat) (l : list A) : list (nat * A) :=
  match fuel with
  | O => []
  | S f =>
    match l with
    | xi :: ((_ :: _) as rest) =>
      if ltb prev xi then
        let n := ahead xi rest in
        match skipn n rest with
        | xa :: after =>
          if ltb xa xi then (i + Nat.div2 n, nth (Nat.div2 n) l xi) :: lm_loop f xa (i + n + 2) after
          else lm_loop f xi (S i) rest
        | [] => lm_loop f xi (S i) rest          (* not reached: ahead stops before the last entry *)
        end
      else lm_loop f xi (S i) rest
    | _ => []
    end
  end.
Definition local_maxima (x : list A) : list (nat * A) :=
  match x with [] => [] | x0 :: t => lm_loop (length x) x0 1 t end.

(* ---- _select_by_property(peak_heights, hmin, None): keep = hmin <= heights, as a predicate on the height ---- *)
Definition select_height (hok : A -> bool) (peaks : list (nat * A)) : list (nat * A) := filter (fun p => hok (snd p)) peaks.

(* ---- _select_by_peak_distance(peaks, priority, distance) ----
     distance_ = ceil(distance); keep = ones; priority_to_position = argsort(priority)
     for i in range(peaks_size - 1, -1, -1):
         j = priority_to_position[i]
         if keep[j] == 0: continue
         k = j - 1
         while 0 <= k and peaks[j] - peaks[k] < distance_: keep[k] = 0; k -= 1
         k = j + 1
         while k < peaks_size and peaks[k] - peaks[j] < distance_: keep[k] = 0; k += 1
   `clear_while df d ps ks`: ps / ks = positions / flags of the peaks walking away from peak j, df p = the difference the loop tests
   (natural-number subtraction: a negative difference, which is below every distance_ >= 1, becomes 0) *)
Fixpoint clear_while (df : nat -> nat) (d : nat) (ps : list nat) (ks : list bool) : list bool :=
  match ps, ks with
  | p :: ps', _ :: ks' => if (df p <? d)%nat then false :: clear_while df d ps' ks' else ks
  | _, _ => ks
  end.
Definition dist_step (d : nat) (pos : list nat) (keep : list bool) (j : nat) : list bool :=
  if nth j keep false then
    let pj := nth j pos O in
    rev (clear_while (fun p => pj - p)%nat d (rev (firstn j pos)) (rev (firstn j keep)))
    ++ true :: clear_while (fun p => p - pj)%nat d (skipn (S j) pos) (skipn (S j) keep)
  else keep.
Definition select_by_distance_ord (ord : list nat) (peaks : list (nat * A)) (d : nat) : list bool :=
  fold_left (dist_step d (map fst peaks)) (rev ord) (repeat true (length peaks)).

(* a stable ascending argsort (the order np.argsort(kind='stable') gives) *)
Fixpoint ins_asc (x : nat * A) (l : list (nat * A)) : list (nat * A) :=
  match l with
  | [] => [x]
  | y :: t => if leb (snd x) (snd y) then x :: l else y :: ins_asc x t
  end.
Definition argsort (prio : list A) : list nat := map fst (fold_right ins_asc [] (combine (seq 0 (length prio)) prio)).

Fixpoint mask {B} (l : list B) (ks : list bool) : list B :=
  match l, ks with
  | x :: t, k :: ks' => if k then x :: mask t ks' else mask t ks'
  | _, _ => []
  end.
Definition select_distance_ord (ord : list nat) (d : nat) (peaks : list (nat * A)) : list (nat * A) :=
  mask peaks (select_by_distance_ord ord peaks d).
Definition select_distance (d : nat) (peaks : list (nat * A)) : list (nat * A) :=
  select_distance_ord (argsort (map snd peaks)) d peaks.

(* ---- _peak_prominences(x, peaks, wlen=-1) ----
     i = left_base = peak; left_min = x[peak]
     while 0 <= i and x[i] <= x[peak]:
         if x[i] < left_min: left_min = x[i]; left_base = i
         i -= 1
     (the same to the right);  prominence = x[peak] - max(left_min, right_min)
   `base_scan v m l`: l = the samples walking away from the peak (the peak itself, x[peak] <= x[peak], changes nothing) *)
Fixpoint base_scan (v m : A) (l : list A) : A :=
  match l with
  | a :: t => if leb a v then base_scan v (if ltb a m then a else m) t else m
  | [] => m
  end.
(* max(left_min, right_min): the reference level the prominence is measured from *)
Definition prom_base (x : list A) (p : nat) (v : A) : A :=
  let lmin := base_scan v v (rev (firstn p x)) in
  let rmin := base_scan v v (skipn (S p) x) in
  if leb lmin rmin then rmin else lmin.
(* _select_by_property(prominences, pmin, None) as a predicate `pok height base` (pmin <= height - base) *)
Definition select_prominence (pok : A -> A -> bool) (x : list A) (peaks : list (nat * A)) : list (nat * A) :=
  filter (fun p => pok (snd p) (prom_base x (fst p) (snd p))) peaks.

(* find_peaks(x, height=, distance=, prominence=) with the conditions that are given *)
Definition find_peaks_ord (hok : option (A -> bool)) (d : option (nat * option (list nat))) (pok : option (A -> A -> bool)) (x : list A)
  : list (nat * A) :=
  let p0 := local_maxima x in
  let p1 := match hok with Some f => select_height f p0 | None => p0 end in
  let p2 := match d with
            | Some (dd, Some ord) => select_distance_ord ord dd p1
            | Some (dd, None) => select_distance dd p1
            | None => p1 end in
  match pok with Some f => select_prominence f x p2 | None => p2 end.
Definition find_peaks (hok : option (A -> bool)) (d : option nat) (pok : option (A -> A -> bool)) (x : list A) : list (nat * A) :=
  find_peaks_ord hok (match d with Some dd => Some (dd, None) | None => None end) pok x.

(* np.max: the first maximal entry (x non-empty) *)
Fixpoint max_from (m : A) (l : list A) : A := match l with [] => m | a :: t => max_from (if ltb m a then a else m) t end.
End Generic.

(* ------------------------------------------------------------------------------------------------ the two calls COMA makes *)
(* getInitialAlignment:
     find_peaks(correlation, height=0.75 * np.max(correlation), width=(None, None), rel_height=0.5, distance=minPeakDistance / resolution)
   on the normalised correlation (exact rationals); `dist` = ceil(minPeakDistance / resolution) >= 1 (a distance below 1 makes find_peaks raise
   ValueError before anything else: Seeding.peak_distance).  np.max of an empty array raises; the correlation is never empty here. *)
(* Qle_bool, with a shortcut for equal denominators (the doubles of the code are sent as dyadic rationals over one denominator):
   FindPeaksProofs4.qleb_spec: qleb = Qle_bool *)
Definition qleb (x y : Q) : bool := if Pos.eqb (Qden x) (Qden y) then (Qnum x <=? Qnum y)%Z else Qle_bool x y.
Definition qmax (c : list Q) : Q := match c with [] => 0%Q | a :: t => max_from qleb a t end.
(* `border` = the height border (the double 0.75 * max in the code), `ord` = the argsort inside the distance condition (None: stable) *)
Definition find_peaks_initial_gen (c : list Q) (border : Q) (dist : nat) (ord : option (list nat)) : list (nat * Q) :=
  find_peaks_ord qleb (Some (fun h => qleb border h)) (Some (dist, ord)) None c.
Definition find_peaks_initial (c : list Q) (dist : nat) : list (nat * Q) :=
  let border := ((3 # 4) * qmax c)%Q in find_peaks_initial_gen c border dist None.

(* refine:  find_peaks(correlation, height=peakHeightThreshold, width=(None, None), prominence=0.05 * correlation.max(initial=0))
   on the raw integer correlation.  The prominence border is the double fl(0.05 * m) for the integer m = max(0, max c), compared with
   the integer-valued prominence p: fl(0.05 * m) <= p  iff  m <= 20 * p  (0.05 is not a dyadic number, but for every integer m < 2^40
   the double product lies within m * 2^-54 of m/20, while m/20 differs from every integer other than itself by at least 1/20; for
   m = 20 p the product rounds to p exactly.  The harness stream `float_borders` checks the equivalence exhaustively for m <= 60000). *)
Definition zmax0 (c : list Z) : Z := max_from Z.leb 0%Z c.
Definition find_peaks_refine (c : list Z) (thr : Q) : list (nat * Z) :=
  find_peaks Z.leb (Some (fun h => Qle_bool thr (inject_Z h))) None (Some (fun h b => (zmax0 c <=? 20 * (h - b))%Z)) c.

(* The exact-arithmetic part of the seeding stage: optical_map.py OpticalMap.getSequence / getInitialAlignment /
   InitialAlignment.refine, sequence_generator.py SequenceGenerator.positionsToSequence, and scipy.signal.correlate(in1, in2,
   mode='valid', method='fft') on integer vectors.  (vectorisePositions, blur, toRelativeGenomicPositions: Vec.v; createPeaks,
   selectPeaks and the exception wrappers vectorise_py / blur_py: Peaks.v.)

   Units: positions, lengths, resolution, start/end, margins are plain integers in ONE unit (the code's ints are base pairs; nothing
   below depends on the unit, so the same functions can be read in the tenth-of-a-bp unit of Pairing.v with the resolution scaled
   alike).  Vector entries and correlation values are plain integers.

   WHAT IS EXACT AND WHAT IS NOT.
   scipy computes the correlation by FFT in double precision.  The TRUE value of every entry is an integer (a sum of products of
   integer vector entries); for integer-typed inputs scipy itself rounds the FFT output with np.around before returning it
   (signaltools.convolve: `if result_type.kind in {'u','i'}: out = np.around(out)`), which is the case for
   correlate(referenceSequence, sequence) because blur() returns an integer array; for the float `np.ones(len(sequence))` kernel
   the result stays a float within ~1e-10 of the integer.  The model below is that integer.  Floating-point rounding of the FFT
   is NOT modelled: the correspondence check compares np.rint(correlate(...)) with `correlate_valid`, and the normalised
   correlation (a float quotient) with the exact rational within 1e-9.  scipy.signal.find_peaks is not modelled at all.

   scipy's 'valid' mode (signaltools.correlate -> convolve(in1, reverse(in2), 'valid') -> _inputs_swap_needed):
     len(in1) >= len(in2):  z[k] = sum_i in1[k+i] * in2[i],  k = 0 .. len(in1) - len(in2)                     (xcorr in1 in2)
     len(in1) <  len(in2):  the inputs are swapped inside convolve; the result is  reverse(xcorr in2 in1)
     an empty input:        IndexError
   getInitialAlignment's guard `self.length > reference.length` compares MOLECULE lengths, not vector lengths: a query whose last
   label lies beyond the reference's last label (reference with a long label-free tail) passes the guard with a query vector
   longer than the reference vector and reaches the swapped branch.  `correlate_valid` models both branches (both are compared
   with scipy by the harness); the theorems about lags (CorrelateProofs*.v) speak about `xcorr` with len(reference) >= len(query),
   i.e. they EXCLUDE inputs whose query vector is longer than the reference vector, and empty vectors. *)
From Coq Require Import ZArith QArith List Bool.
Import ListNotations.
Require Import Py Vec Peaks.
Open Scope Z_scope.

(* sum_i a[i]*b[i] over the common prefix *)
Fixpoint dot (a b : list Z) : Z := match a, b with x :: s, y :: t => x * y + dot s t | _, _ => 0 end.
(* n successive lags: entry k is dot (ref from k on) q *)
Fixpoint xcorr_loop (n : nat) (ref q : list Z) : list Z :=
  match n with O => [] | S m => dot ref q :: xcorr_loop m (tl ref) q end.
(* len(ref) >= len(q): entry k = sum_i ref[k+i] * q[i], k = 0 .. len(ref) - len(q) *)
Definition xcorr (ref q : list Z) : list Z := xcorr_loop (length ref - length q + 1) ref q.

(* scipy.signal.correlate(in1, in2, mode='valid', method='fft') on 1-d integer arrays, exact values *)
Definition correlate_valid (in1 in2 : list Z) : Py.res (list Z) :=
  match in1, in2 with
  | [], _ => Err
  | _, [] => Err
  | _, _ => Ok (if (length in2 <=? length in1)%nat then xcorr in1 in2 else rev (xcorr in2 in1))
  end.

(* np.sum(sequence): for a 0/1 vector the number of 1-bits *)
Definition vsum (v : list Z) : Z := fold_right Z.add 0 v.

(* SequenceGenerator.positionsToSequence + OpticalMap.getSequence: blur(list(vectorisePositions(positions, resolution, start, end)), radius),
   reversed for the reverse strand.  Pure version (radius a nat) and the version with the exceptions of the two callees. *)
Definition get_sequence (ps : list Z) (res : Z) (r : nat) (reverse : bool) (start : Z) (stop : option Z) : list Z :=
  let s := blur (vectorise ps res start stop) r in if reverse then rev s else s.
Definition get_sequence_py (ps : list Z) (res r : Z) (reverse : bool) (start : Z) (stop : option Z) : Py.res (list Z) :=
  do v <- vectorise_py ps res start stop;
  do s <- blur_py v r;
  Ok (if reverse then rev s else s).

(* normalizingFactor = (correlate(referenceSequence, ones(len(sequence))) + sum(sequence)) / 2.
   norm2 = twice the factor (integers); norm_factor = the factor itself as an exact rational;
   normalised = correlation / normalizingFactor entry by entry (Python yields nan or inf where the factor is 0, with the warning
   suppressed; Coq's Qdiv yields 0 there: entries with norm2 = 0 are excluded from every statement). *)
Definition norm2 (ref q : list Z) : list Z := map (fun w => w + vsum q) (xcorr ref (repeat 1 (length q))).
Definition norm_factor (ref q : list Z) : list Q := map (fun t => inject_Z t / inject_Z 2)%Q (norm2 ref q).
Fixpoint zipq (xs : list Z) (fs : list Q) : list Q :=
  match xs, fs with x :: s, f :: t => (inject_Z x / f)%Q :: zipq s t | _, _ => [] end.
Definition normalised (ref q : list Z) : list Q := zipq (xcorr ref q) (norm_factor ref q).

(* OpticalMap.getInitialAlignment up to (not including) find_peaks.
   Ok None                = EmptyInitialAlignment (query molecule longer than the reference molecule);
   Ok (Some (c, n2))      = c the raw integer correlation, n2 twice the normalising factor, entry by entry
                            (the code's `correlation` attribute is c[k] / (n2[k] / 2));
   Err                    = an exception (IndexError of positions[-1] / of correlate on an empty vector, ValueError of
                            resolution < 1 or radius < 0). *)
Definition initial_correlation (qlen : Z) (qps : list Z) (rlen : Z) (rps : list Z) (res r : Z) (reverse : bool)
  : Py.res (option (list Z * list Z)) :=
  if rlen <? qlen then Ok None else
  do s <- get_sequence_py qps res r reverse 0 None;
  do rs <- get_sequence_py rps res r false 0 None;
  do c <- correlate_valid rs s;
  do w <- correlate_valid rs (repeat 1 (length s));
  Ok (Some (c, map (fun x => x + vsum s) w)).

(* InitialAlignment.refine up to find_peaks: (correlationStart, correlationEnd, raw integer correlation).
   referenceStart = peakPosition - secondaryMargin (may be negative), referenceEnd = peakPosition + query.length + secondaryMargin;
   an empty reference window gives the empty correlation; CorrelationResult.create stores `correlationEnd or len(correlation) - 1`. *)
Definition refine_correlation (qlen : Z) (qps rps : list Z) (reverse : bool) (peak res r margin : Z) : Py.res (Z * Z * list Z) :=
  do qs <- get_sequence_py qps res r reverse 0 None;
  let rstart := peak - margin in
  let rend := peak + qlen + margin in
  do rs <- get_sequence_py rps res r false rstart (Some rend);
  do c <- match rs with [] => Ok [] | _ :: _ => correlate_valid rs qs end;
  let e := rstart + Z.of_nat (length c) * res in
  Ok (rstart, (if e =? 0 then Z.of_nat (length c) - 1 else e), c).

(* CMAP reading (src/parsers/cmap_reader.py, src/parsers/bionano_file_reader.py) and OpticalMap.trim
   (src/correlation/optical_map.py:38-43).  Executable transliteration, no proofs.

   Units: Position values are Z in TENTHS of a base pair (a CMAP file carries one decimal, so the float pandas parses is
   exactly p/10 for the integer p used here; K = 10 from Pairing.v is one base pair).  CMapId and LabelChannel are plain integers.

   What is modelled here and what is tied by correspondence only
   -------------------------------------------------------------
   Layer 1 (cmap_read, below): everything CmapReader.__read does with the DataFrame that BionanoFileReader.readFile returns.
     A row (CMapId, LabelChannel, Position) is one DataFrame row, the list is in file order (pandas keeps file order).
   Layer 0 (cmap_rows / cmap_read_text, second half of the file): a transliteration of BionanoFileReader (header search with
     itertools.dropwhile, re.split on the "#h" line, names[1:]) and of the small part of pandas.read_csv the CMAP format
     needs (the lines AFTER the header line only, lines starting with '#' and blank lines skipped, tab separated fields,
     usecols resolved by NAME against the header names, integer cells and cells with at most one decimal).
     No theorem is stated about layer 0: pandas' tokenizer, its dtype inference (an id column written "5.0" would make
     float ids), its treatment of ragged rows, quoted fields, a '#' in the middle of a row, duplicate header names and
     so on are NOT modelled; cmap_rows answers Err outside the format described above and the harness never compares such
     inputs.  The step text -> rows is therefore tied to the code only by the correspondence runs (streams `text` and,
     with the harness's own independent parser in place of cmap_rows, `read`/`filter`/`malformed`). *)
From Coq Require Import ZArith List Bool Ascii String.
Import ListNotations.
Require Import Py Pairing.
Open Scope Z_scope.

Notation row := (Z * Z * Z)%type.
Definition rid (r : row) : Z := fst (fst r).       (* CMapId *)
Definition rch (r : row) : Z := snd (fst r).       (* LabelChannel *)
Definition rpos (r : row) : Z := snd r.            (* Position, tenths *)

Fixpoint mapM {A B} (f : A -> res B) (l : list A) : res (list B) :=
  match l with
  | [] => Ok []
  | x :: t => do y <- f x; do ys <- mapM f t; Ok (y :: ys)
  end.

(* int(x) on a float: truncation toward zero (Z.quot), result in whole base pairs, kept in tenths like every mlen *)
Definition trunc_bp (p : Z) : Z := Z.quot p K * K.

(* pandas Series.sort_values(): ascending; equal floats are indistinguishable so the (unstable) quicksort is not observable *)
Definition sort_values (l : list Z) : list Z := sort_by (fun p => p) l.

(* CmapReader.__parseCmapRowsGroup (cmap_reader.py:33-39), same statement order:
     moleculeId        = group["CMapId"].iloc[0]                        IndexError on an empty group (pandas never passes one)
     labelSites        = group[group["LabelChannel"] != 0]
     moleculeEndMarker = group[group["LabelChannel"] == 0].iloc[0]      IndexError when there is no channel-0 row
     length            = int(moleculeEndMarker["Position"])
     positions         = labelSites["Position"].sort_values().tolist()
     return OpticalMap(moleculeId, length, positions) if positions else None      (shift = 0 by the constructor default) *)
Definition parse_group (group : list row) : res (option omap) :=
  match group with
  | [] => Err
  | first :: _ =>
    let moleculeId := rid first in
    let labelSites := filter (fun r => negb (rch r =? 0)) group in
    match filter (fun r => rch r =? 0) group with
    | [] => Err
    | moleculeEndMarker :: _ =>
      let length := trunc_bp (rpos moleculeEndMarker) in
      let positions := sort_values (map rpos labelSites) in
      Ok (match positions with [] => None | _ :: _ => Some (mkMap moleculeId length positions 0) end)
    end
  end.

Definition mem_id (i : Z) (ids : list Z) : bool := existsb (Z.eqb i) ids.
Fixpoint notnull {A} (l : list (option A)) : list A :=
  match l with [] => [] | Some a :: t => a :: notnull t | None :: t => notnull t end.

(* CmapReader.__read (cmap_reader.py:23-30):
     if moleculeIds: maps = maps[maps["CMapId"].isin(moleculeIds)]
     opticalMaps = maps.groupby("CMapId").apply(parse)        groups in ascending key order (sort=True), rows of a group in
                                                              frame order = stable sort on the key followed by itertools.groupby;
                                                              an exception raised by parse on any group propagates
     return [] if opticalMaps.empty else opticalMaps[opticalMaps.notnull()].tolist() *)
Definition cmap_read (rows : list row) (ids : list Z) : res (list omap) :=
  let maps := match ids with [] => rows | _ :: _ => filter (fun r => mem_id (rid r) ids) rows end in
  do opticalMaps <- mapM parse_group (groupby rid (sort_by rid maps));
  Ok (notnull opticalMaps).

(* OpticalMap.trim (optical_map.py:38-43):
     if not self.positions: return self
     return OpticalMap(self.moleculeId, self.positions[-1] - self.positions[0] + 1, [p - self.positions[0] for p in self.positions])
   one base pair = K tenths; the constructor default puts shift back to 0 *)
Definition trim (m : omap) : omap :=
  match mpositions m with
  | [] => m
  | first :: _ => mkMap (mid m) (last (mpositions m) 0 - first + K) (map (fun p => p - first) (mpositions m)) 0
  end.

(* ------------------------------------------------------------------------------------------------------------------
   Layer 0: text -> rows (correspondence only, see the header comment) *)
Local Open Scope string_scope.

Definition is_ws (c : ascii) : bool :=
  let n := nat_of_ascii c in (Nat.eqb n 32 || (Nat.leb 9 n && Nat.leb n 13))%bool.
Definition is_tab (c : ascii) : bool := Nat.eqb (nat_of_ascii c) 9.
Definition is_nl (c : ascii) : bool := Nat.eqb (nat_of_ascii c) 10.

(* split at every character satisfying sep (like str.split(sep): n separators give n+1 pieces, empty pieces kept) *)
Fixpoint split_at (sep : ascii -> bool) (s : string) : list string :=
  match s with
  | EmptyString => [EmptyString]
  | String c t =>
    if sep c then EmptyString :: split_at sep t
    else match split_at sep t with
         | [] => [String c EmptyString]
         | w :: ws => String c w :: ws
         end
  end.
Definition nonempty (s : string) : bool := match s with EmptyString => false | _ => true end.
(* re.split(r'\s+', line.strip()): maximal runs of non-blank characters *)
Definition words (s : string) : list string := filter nonempty (split_at is_ws s).
(* the lines a text file iterator yields (without their terminators; a final newline does not start another line) *)
Definition lines (s : string) : list string :=
  let ls := split_at is_nl s in
  match rev ls with EmptyString :: r => rev r | _ => ls end.
Definition starts_hash_h (s : string) : bool := prefix "#h" s.
Definition is_comment_or_blank (s : string) : bool :=
  match s with EmptyString => true | String c _ => Nat.eqb (nat_of_ascii c) 35 end.

Definition digit_of (c : ascii) : option Z :=
  let n := nat_of_ascii c in if (Nat.leb 48 n && Nat.leb n 57)%bool then Some (Z.of_nat (n - 48)) else None.
Fixpoint digits_acc (s : string) (acc : Z) : option Z :=
  match s with
  | EmptyString => Some acc
  | String c t => match digit_of c with Some d => digits_acc t (acc * 10 + d) | None => None end
  end.
Definition unsigned_int (s : string) : option Z := match s with EmptyString => None | _ => digits_acc s 0 end.
Definition signed (f : string -> option Z) (s : string) : option Z :=
  match s with
  | String c t => if Nat.eqb (nat_of_ascii c) 45 then option_map Z.opp (f t) else f s
  | EmptyString => None
  end.
(* an integer cell *)
Definition parse_int (s : string) : res Z := match signed unsigned_int s with Some v => Ok v | None => Err end.
(* a cell "123", "123.4" or "123.0": value in tenths *)
Definition unsigned_dec1 (s : string) : option Z :=
  match split_at (fun c => Nat.eqb (nat_of_ascii c) 46) s with
  | [a] => option_map (fun v => v * 10) (unsigned_int a)
  | [a; String d EmptyString] =>
    match unsigned_int a, digit_of d with Some v, Some f => Some (v * 10 + f) | _, _ => None end
  | _ => None
  end.
Definition parse_dec1 (s : string) : res Z := match signed unsigned_dec1 s with Some v => Ok v | None => Err end.

Fixpoint index_of (name : string) (names : list string) : res nat :=
  match names with
  | [] => Err                                         (* pandas: ValueError, usecols do not match the names *)
  | n :: t => if String.eqb n name then Ok O else do i <- index_of name t; Ok (S i)
  end.
Definition cell (fs : list string) (i : nat) : res string := match nth_error fs i with Some s => Ok s | None => Err end.

(* BionanoFileReader.__getColumnNames: dropwhile(not startswith('#h')), first remaining line, strip, re.split(r'\s+')[1:];
   IndexError when no line starts with "#h".  The iterator has consumed the header line, pandas reads what follows. *)
Definition column_names (ls : list string) : res (list string * list string) :=
  match dropwhile (fun l => negb (starts_hash_h l)) ls with
  | [] => Err
  | header :: rest => Ok (tl (words header), rest)
  end.

(* BionanoFileReader.readFile(file, ["CMapId", "Position", "LabelChannel"]) as a list of rows in file order *)
Definition cmap_rows (text : string) : res (list row) :=
  do nr <- column_names (lines text);
  let names := fst nr in
  do ci <- index_of "CMapId" names;
  do pi <- index_of "Position" names;
  do li <- index_of "LabelChannel" names;
  mapM (fun l =>
          let fs := split_at is_tab l in
          if negb (Nat.eqb (List.length fs) (List.length names)) then Err else     (* ragged rows: not modelled *)
          do a <- cell fs ci; do b <- cell fs li; do c <- cell fs pi;
          do i <- parse_int a; do ch <- parse_int b; do p <- parse_dec1 c;
          Ok (i, ch, p))
       (filter (fun l => negb (is_comment_or_blank l)) (snd nr)).

Definition cmap_read_text (text : string) (ids : list Z) : res (list omap) :=
  do rows <- cmap_rows text; cmap_read rows ids.

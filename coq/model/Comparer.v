(* Transliteration of src/diagnostic/alignment_comparer.py (AlignmentComparer, AlignmentRowComparer, AlignmentComparison.create).
   Units: site ids / positions / map ids are plain integers (Z); coverages, identities and averages are exact rationals (Q).
   difflib.SequenceMatcher(None, a, b).ratio() is NOT re-implemented: it is the Section variable `ratio`.
   statistics.fmean is the exact rational mean.
   A pair is (reference.siteId, reference.position, query.siteId, query.position); dataclass equality compares all four
   (`distance` is compare=False).  An alignment is (queryId, referenceId, alignedPairs): the other BenchmarkAlignment fields
   are never read by compare(). *)
From Coq Require Import ZArith QArith List Bool.
Import ListNotations.
Require Import Py.
Open Scope Z_scope.

Notation bpair := (Z * Z * Z * Z)%type.
Notation kpair := (Z * Z)%type.                       (* dict key (queryId, referenceId) *)
Notation alignment := (Z * Z * list (Z * Z * Z * Z))%type.

Definition rsite (p : bpair) : Z := match p with (a, _, _, _) => a end.    (* BenchmarkAlignedPair.referenceSiteIdSelector *)
Definition qsite (p : bpair) : Z := match p with (_, _, c, _) => c end.    (* BenchmarkAlignedPair.querySiteIdSelector *)
Definition pair_eqb (a b : bpair) : bool :=
  match a, b with (a1, a2, a3, a4), (b1, b2, b3, b4) => (a1 =? b1) && (a2 =? b2) && (a3 =? b3) && (a4 =? b4) end.
Definition pmem (x : bpair) (l : list bpair) : bool := existsb (pair_eqb x) l.     (* `x in l` on a list *)

Definition aq (a : alignment) : Z := fst (fst a).
Definition ar (a : alignment) : Z := snd (fst a).
Definition apairs (a : alignment) : list bpair := snd a.
Definition akey (a : alignment) : kpair := (aq a, ar a).
Definition null_al : alignment := (0, 0, []).           (* BenchmarkAlignment.null *)

(* sorted(l, key) with a 2-tuple key: stable, tuples compare lexicographically *)
Definition lex_le (a b : Z * Z) : bool := (fst a <? fst b) || ((fst a =? fst b) && (snd a <=? snd b)).
Section SortLex.
Context {A : Type}.
Fixpoint insert_lex (k : A -> Z * Z) (x : A) (l : list A) : list A :=
  match l with
  | [] => [x]
  | y :: t => if lex_le (k x) (k y) then x :: l else y :: insert_lex k x t
  end.
Definition sort_lex (k : A -> Z * Z) (l : list A) : list A := fold_right (insert_lex k) [] l.
End SortLex.

(* a Python dict as an association list in insertion order: assigning an existing key replaces the value and keeps the position *)
Definition key_eqb (a b : kpair) : bool := (fst a =? fst b) && (snd a =? snd b).
Fixpoint dict_set (d : list (kpair * alignment)) (k : kpair) (v : alignment) : list (kpair * alignment) :=
  match d with
  | [] => [(k, v)]
  | (k', v') :: t => if key_eqb k k' then (k', v) :: t else (k', v') :: dict_set t k v
  end.
Fixpoint dict_get (d : list (kpair * alignment)) (k : kpair) : option alignment :=
  match d with
  | [] => None
  | (k', v') :: t => if key_eqb k k' then Some v' else dict_get t k
  end.
Definition dict_mem (d : list (kpair * alignment)) (k : kpair) : bool := match dict_get d k with Some _ => true | None => false end.

(* AlignmentComparer.__toDict *)
Definition to_dict (als : list alignment) : list (kpair * alignment) :=
  fold_left (fun d a => dict_set d (akey a) a) (sort_lex (fun a => (ar a, aq a)) als) [].

(* set(pairs): one representative per value (iteration order of a set is unspecified; this keeps the last occurrence) *)
Fixpoint dedup (l : list bpair) : list bpair :=
  match l with [] => [] | x :: t => if pmem x t then dedup t else x :: dedup t end.

(* AlignmentRowComparer.__getDifference: sorted(set(pairs).difference(set(otherPairs)), key=referenceSiteId).
   Order among equal reference site ids is the set's iteration order, i.e. not part of the contract. *)
Definition difference (pairs other : list bpair) : list bpair :=
  sort_by rsite (dedup (filter (fun x => negb (pmem x other)) pairs)).

(* AlignmentRowComparer.__getCoverage *)
Definition coverage (pairs diff : list bpair) : Q :=
  let n := Z.of_nat (length pairs) in
  if 0 <? n then Qmake (n - Z.of_nat (length diff)) (Z.to_pos n) else 1%Q.

Definition Qltb (a b : Q) : bool := negb (Qle_bool b a).

Inductive rtype := BOTH | FIRST_ONLY | SECOND_ONLY.
Record row := mkrow { rty : rtype; ra1 : alignment; ra2 : alignment; rex1 : list bpair; rex2 : list bpair;
                      rcov1 : Q; rcov2 : Q; rident : Q }.
Record comparison := mkcmp { avg1 : Q; avg2 : Q; avgid : Q; n_overlapping : nat; n_nonoverlapping : nat;
                             n_first : nat; n_second : nat; rows : list row }.

(* AlignmentRowComparison properties: `a or b` on ints *)
Definition row_qid (r : row) : Z := if aq (ra1 r) =? 0 then aq (ra2 r) else aq (ra1 r).
Definition row_rid (r : row) : Z := if ar (ra1 r) =? 0 then ar (ra2 r) else ar (ra1 r).
Definition row_key (r : row) : kpair := (row_qid r, row_rid r).
Definition overlapping (r : row) : bool := Qltb 0 (rident r).                 (* identity > 0. *)
Definition row_first (a1 : alignment) : row := mkrow FIRST_ONLY a1 null_al [] [] 0 0 0.
Definition row_second (a2 : alignment) : row := mkrow SECOND_ONLY null_al a2 [] [] 0 0 0.
Definition is_both (r : row) : bool := match rty r with BOTH => true | _ => false end.
Definition is_first (r : row) : bool := match rty r with FIRST_ONLY => true | _ => false end.
Definition is_second (r : row) : bool := match rty r with SECOND_ONLY => true | _ => false end.

(* statistics.fmean, exact *)
Definition qsum (l : list Q) : Q := fold_right Qplus 0%Q l.
Definition qmean (l : list Q) : Q := (qsum l / inject_Z (Z.of_nat (length l)))%Q.

Definition null_cmp : comparison := mkcmp 0 0 0 0 0 0 0 [].                    (* AlignmentComparison.null *)

(* AlignmentComparison.create *)
Definition create (rs : list row) : comparison :=
  match rs with
  | [] => null_cmp
  | _ =>
    let ov := filter overlapping rs in
    let avg (f : row -> Q) : Q := match ov with [] => 0%Q | _ => qmean (map f ov) end in
    mkcmp (avg rcov1) (avg rcov2) (avg rident)
          (length ov)
          (length (filter (fun r => is_both r && negb (overlapping r)) rs))
          (length (filter is_first rs))
          (length (filter is_second rs))
          rs
  end.

Section Comparer.
Variable combine : bool.                                   (* AlignmentRowComparer.combineMultipleQuerySources *)
Variable ratio : list bpair -> list bpair -> Q.             (* SequenceMatcher(None, a, b).ratio() *)

(* __removeExtraAlignmentsWithSameQueryIfOneOfThemIsInOtherList *)
Definition remove_extra (g other : list bpair) : list bpair :=
  match filter (fun a => pmem a other) g with [] => g | f => f end.

(* __combineMultipleQuerySources: groupby on ADJACENT equal query site ids *)
Definition combine_sources (pairs other : list bpair) : list bpair :=
  if negb combine then pairs
  else concat (map (fun g => remove_extra g other) (groupby qsite pairs)).

(* AlignmentRowComparer.compare *)
Definition row_compare (a1 a2 : alignment) : row :=
  let p1 := combine_sources (apairs a1) (apairs a2) in
  let p2 := combine_sources (apairs a2) (apairs a1) in
  let d1 := difference p1 p2 in
  let c1 := coverage p1 d1 in
  let d2 := difference p2 p1 in
  let c2 := coverage p2 d2 in
  mkrow BOTH a1 a2 d1 d2 c1 c2 (ratio p1 p2).

Definition compared_rows (d1 d2 : list (kpair * alignment)) : list row :=
  flat_map (fun e => match dict_get d2 (fst e) with Some a2 => [row_compare (snd e) a2] | None => [] end) d1.
(* __getNotMatchingAlignments *)
Definition not_matching (src tgt : list (kpair * alignment)) : list alignment :=
  map snd (filter (fun e => negb (dict_mem tgt (fst e))) src).

(* AlignmentComparer.compare *)
Definition compare (als1 als2 : list alignment) : comparison :=
  let d1 := to_dict als1 in
  let d2 := to_dict als2 in
  create (compared_rows d1 d2 ++ map row_first (not_matching d1 d2) ++ map row_second (not_matching d2 d1)).
End Comparer.
